"""E0 - source model of pyGAPS: modules, imports, classes (MRO), functions, module constants.

Nothing from /repo is imported or executed; everything is read through `ast`.
"""
from __future__ import annotations

import ast
from pathlib import Path

from .core import AnalysisError

PKG = "pygaps"


class FuncInfo:
    def __init__(self, module, node, cls=None):
        self.module = module            # ModuleInfo
        self.node = node                # ast.FunctionDef
        self.cls = cls                  # ClassInfo | None
        self.name = node.name
        self.decorators = [ast.unparse(d) for d in node.decorator_list]

    @property
    def qualname(self):
        if self.cls is not None:
            return f"{self.module.name}.{self.cls.name}.{self.name}"
        return f"{self.module.name}.{self.name}"

    @property
    def short(self):
        return f"{self.cls.name}.{self.name}" if self.cls else self.name

    @property
    def where(self):
        return f"{self.module.relpath}:{self.node.lineno} {self.short}"

    @property
    def is_property(self):
        return "property" in self.decorators

    @property
    def is_setter(self):
        return any(d.endswith(".setter") for d in self.decorators)

    @property
    def is_classmethod(self):
        return "classmethod" in self.decorators

    @property
    def is_staticmethod(self):
        return "staticmethod" in self.decorators

    def params(self):
        a = self.node.args
        return [x.arg for x in a.posonlyargs + a.args]

    def __repr__(self):
        return f"<Func {self.qualname}>"


class ClassInfo:
    def __init__(self, module, node):
        self.module = module
        self.node = node
        self.name = node.name
        self.methods = {}       # name -> FuncInfo (plain, property getter, classmethod...)
        self.setters = {}       # name -> FuncInfo
        self.assigns = {}       # class-level name -> ast expr
        for st in node.body:
            if isinstance(st, ast.FunctionDef):
                fi = FuncInfo(module, st, self)
                if fi.is_setter:
                    self.setters[st.name] = fi
                else:
                    self.methods[st.name] = fi
            elif isinstance(st, ast.Assign):
                for t in st.targets:
                    if isinstance(t, ast.Name):
                        self.assigns[t.id] = st.value
            elif isinstance(st, ast.AnnAssign) and isinstance(st.target, ast.Name) and st.value is not None:
                self.assigns[st.target.id] = st.value

    @property
    def qualname(self):
        return f"{self.module.name}.{self.name}"

    def bases(self):
        out = []
        for b in self.node.bases:
            if isinstance(b, ast.Name):
                r = self.module.model.resolve(self.module.name, b.id)
                if r and r[0] == "class":
                    out.append(r[1])
            elif isinstance(b, ast.Attribute):
                pass
        return out

    def mro(self):
        seen, out = set(), []

        def rec(c):
            if c.qualname in seen:
                return
            seen.add(c.qualname)
            out.append(c)
            for b in c.bases():
                rec(b)
        rec(self)
        return out

    def find_method(self, name):
        for c in self.mro():
            if name in c.methods:
                return c.methods[name]
        return None

    def find_setter(self, name):
        for c in self.mro():
            if name in c.setters:
                return c.setters[name]
        return None

    def find_assign(self, name):
        for c in self.mro():
            if name in c.assigns:
                return c, c.assigns[name]
        return None

    def is_subclass_of(self, qual_or_name):
        return any(c.qualname == qual_or_name or c.name == qual_or_name for c in self.mro())

    def __repr__(self):
        return f"<Class {self.qualname}>"


class ModuleInfo:
    def __init__(self, model, name, path, relpath, tree, is_pkg):
        self.model = model
        self.name = name
        self.path = path
        self.relpath = relpath
        self.tree = tree
        self.is_pkg = is_pkg
        self.imports = {}     # local name -> ("mod", modname) | ("from", modname, attr)
        self.functions = {}
        self.classes = {}
        self.assigns = {}     # name -> ast expr (last module-level assignment)
        self.assign_nodes = {}
        self.mutations = {}      # name -> module-level statements that mutate it after its assignment
        self._scan(tree.body)

    def _absmod(self, node: ast.ImportFrom):
        if node.level == 0:
            return node.module
        parts = self.name.split(".")
        if not self.is_pkg:
            parts = parts[:-1]
        if node.level > 1:
            parts = parts[: len(parts) - (node.level - 1)]
        base = ".".join(parts)
        return f"{base}.{node.module}" if node.module else base

    def _scan(self, body):
        for st in body:
            if isinstance(st, ast.Import):
                for a in st.names:
                    if a.asname:
                        self.imports[a.asname] = ("mod", a.name)
                        self.assigns.pop(a.asname, None)
                    else:
                        self.imports[a.name.split(".")[0]] = ("mod", a.name.split(".")[0])
                        self.assigns.pop(a.name.split(".")[0], None)
            elif isinstance(st, ast.ImportFrom):
                m = self._absmod(st)
                for a in st.names:
                    self.imports[a.asname or a.name] = ("from", m, a.name)
                    self.assigns.pop(a.asname or a.name, None)
            elif isinstance(st, ast.FunctionDef):
                self.functions[st.name] = FuncInfo(self, st)
            elif isinstance(st, ast.ClassDef):
                self.classes[st.name] = ClassInfo(self, st)
            elif isinstance(st, ast.Assign):
                for t in st.targets:
                    if isinstance(t, ast.Name):
                        self.assigns[t.id] = st.value
                        self.assign_nodes[t.id] = st
                        self.imports.pop(t.id, None)
                        self.mutations.pop(t.id, None)
                    elif isinstance(t, ast.Subscript) and isinstance(t.value, ast.Name) and t.value.id in self.assigns:
                        self.mutations.setdefault(t.value.id, []).append(st)
            elif isinstance(st, ast.AugAssign) and isinstance(st.target, ast.Name) and st.target.id in self.assigns:
                self.mutations.setdefault(st.target.id, []).append(st)
            elif isinstance(st, ast.Expr) and isinstance(st.value, ast.Call) and isinstance(st.value.func, ast.Attribute) \
                    and isinstance(st.value.func.value, ast.Name) and st.value.func.value.id in self.assigns \
                    and st.value.func.attr in ("update", "append", "extend", "setdefault", "insert", "add"):
                self.mutations.setdefault(st.value.func.value.id, []).append(st)
            elif isinstance(st, ast.AnnAssign) and isinstance(st.target, ast.Name) and st.value is not None:
                self.assigns[st.target.id] = st.value
                self.assign_nodes[st.target.id] = st
            elif isinstance(st, (ast.Try,)):
                # fallbacks in the handlers first: the binding of the try body is the normal one
                for h in st.handlers:
                    self._scan(h.body)
                self._scan(st.body)
            elif isinstance(st, ast.If):
                # module-level conditionals: scan both arms (used for optional imports)
                self._scan(st.body)
                self._scan(st.orelse)


class SrcModel:
    def __init__(self, root):
        self.root = Path(root)
        self.src = self.root / "src"
        self.modules: dict[str, ModuleInfo] = {}
        pkgdir = self.src / PKG
        if not pkgdir.is_dir():
            raise AnalysisError(f"package directory {pkgdir} not found")
        self.parse_errors = []
        for p in sorted(pkgdir.rglob("*.py")):
            rel = p.relative_to(self.src)
            parts = list(rel.with_suffix("").parts)
            is_pkg = parts[-1] == "__init__"
            if is_pkg:
                parts = parts[:-1]
            name = ".".join(parts)
            try:
                tree = ast.parse(p.read_text(encoding="utf-8"), filename=str(p))
            except SyntaxError as e:
                raise AnalysisError(f"{p}: does not parse: {e}")
            self.modules[name] = ModuleInfo(self, name, p, str(p.relative_to(self.root)), tree, is_pkg)

    # ------------------------------------------------------------------
    def module(self, name) -> ModuleInfo:
        if name not in self.modules:
            raise AnalysisError(f"anchor missing: module {name}")
        return self.modules[name]

    def resolve(self, modname, name, _depth=0):
        """Resolve a global name used in module `modname`.

        Returns ('func', FuncInfo) | ('class', ClassInfo) | ('const', ModuleInfo, expr) |
                ('module', modname) | ('ext', dotted) | None
        """
        if _depth > 12:
            return None
        m = self.modules.get(modname)
        if m is None:
            return ("ext", f"{modname}.{name}")
        if name in m.functions:
            return ("func", m.functions[name])
        if name in m.classes:
            return ("class", m.classes[name])
        if name in m.assigns:
            return ("const", m, m.assigns[name])
        if name in m.imports:
            imp = m.imports[name]
            if imp[0] == "mod":
                if imp[1] in self.modules:
                    return ("module", imp[1])
                return ("ext", imp[1])
            _, src, attr = imp
            if src in self.modules:
                sub = f"{src}.{attr}"
                if sub in self.modules and attr not in self.modules[src].functions \
                        and attr not in self.modules[src].classes and attr not in self.modules[src].assigns \
                        and attr not in self.modules[src].imports:
                    return ("module", sub)
                r = self.resolve(src, attr, _depth + 1)
                if r is None and sub in self.modules:
                    return ("module", sub)
                return r
            return ("ext", f"{src}.{attr}")
        # submodule of a package
        sub = f"{modname}.{name}"
        if sub in self.modules:
            return ("module", sub)
        return None

    def func(self, qualname) -> FuncInfo:
        """'pygaps.units.converter_mode.c_loading' or 'pygaps.core.pointisotherm.PointIsotherm.convert'."""
        parts = qualname.split(".")
        for i in range(len(parts) - 1, 0, -1):
            mod = ".".join(parts[:i])
            if mod in self.modules:
                rest = parts[i:]
                m = self.modules[mod]
                if len(rest) == 1 and rest[0] in m.functions:
                    return m.functions[rest[0]]
                if len(rest) == 2 and rest[0] in m.classes:
                    c = m.classes[rest[0]]
                    if rest[1] in c.methods:
                        return c.methods[rest[1]]
                    f = c.find_method(rest[1])
                    if f is not None:
                        return f
                break
        raise AnalysisError(f"anchor missing: function {qualname}")

    def cls(self, qualname) -> ClassInfo:
        mod, _, name = qualname.rpartition(".")
        m = self.modules.get(mod)
        if m is None or name not in m.classes:
            raise AnalysisError(f"anchor missing: class {qualname}")
        return m.classes[name]

    def const_expr(self, modname, name):
        m = self.module(modname)
        if name not in m.assigns:
            raise AnalysisError(f"anchor missing: constant {modname}.{name}")
        return m.assigns[name]

    def all_functions(self):
        for m in self.modules.values():
            for f in m.functions.values():
                yield f
            for c in m.classes.values():
                for f in c.methods.values():
                    yield f
                for f in c.setters.values():
                    yield f

    def all_classes(self):
        for m in self.modules.values():
            yield from m.classes.values()


_MODEL_CACHE = {}


def load(root) -> SrcModel:
    key = str(Path(root).resolve())
    if key not in _MODEL_CACHE:
        _MODEL_CACHE[key] = SrcModel(root)
    return _MODEL_CACHE[key]
