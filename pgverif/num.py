"""Exact symbolic numbers for the abstract interpreter: polynomials with Fraction coefficients over
named positive atoms with rational exponents.  No floating point anywhere."""
from __future__ import annotations

from fractions import Fraction


def frac(x) -> Fraction:
    if isinstance(x, Fraction):
        return x
    if isinstance(x, bool):
        return Fraction(int(x))
    if isinstance(x, int):
        return Fraction(x)
    if isinstance(x, float):
        # exact decimal reading of the literal as written (repr round-trips the shortest form)
        return Fraction(repr(x))
    if isinstance(x, str):
        return Fraction(x)
    raise TypeError(f"cannot make a Fraction from {x!r}")


class Num:
    """sum_i coef_i * prod_j atom_ij ** pow_ij ; terms keyed by a sorted tuple of (atom, power)."""
    __slots__ = ("terms", "_h")

    def __init__(self, terms=None):
        self.terms = {k: v for k, v in (terms or {}).items() if v != 0}
        self._h = None

    # constructors -----------------------------------------------------
    @staticmethod
    def const(c):
        return Num({(): frac(c)})

    @staticmethod
    def atom(name, power=1):
        return Num({((name, Fraction(power)),): Fraction(1)})

    # queries ----------------------------------------------------------
    def is_const(self):
        return all(k == () for k in self.terms)

    def value(self) -> Fraction:
        if not self.is_const():
            raise ValueError("not a constant")
        return self.terms.get((), Fraction(0))

    def is_mono(self):
        return len(self.terms) <= 1

    def mono(self):
        """(coef, powers-tuple) of a single-term polynomial (0 -> (0, ()))."""
        if not self.terms:
            return Fraction(0), ()
        if len(self.terms) != 1:
            raise ValueError("not a monomial")
        (k, v), = self.terms.items()
        return v, k

    def atoms(self):
        s = set()
        for k in self.terms:
            for a, _ in k:
                s.add(a)
        return s

    def power_of(self, atom):
        """exponent of `atom` if the same in every term, else None"""
        ps = set()
        for k in self.terms:
            ps.add(dict(k).get(atom, Fraction(0)))
        return ps.pop() if len(ps) == 1 else None

    def all_positive(self):
        return bool(self.terms) and all(v > 0 for v in self.terms.values())

    # arithmetic -------------------------------------------------------
    def __add__(self, o):
        o = _num(o)
        t = dict(self.terms)
        for k, v in o.terms.items():
            t[k] = t.get(k, Fraction(0)) + v
        return Num(t)

    __radd__ = __add__

    def __neg__(self):
        return Num({k: -v for k, v in self.terms.items()})

    def __sub__(self, o):
        return self + (-_num(o))

    def __rsub__(self, o):
        return _num(o) - self

    def __mul__(self, o):
        o = _num(o)
        t = {}
        for k1, v1 in self.terms.items():
            for k2, v2 in o.terms.items():
                k = _mulkey(k1, k2)
                t[k] = t.get(k, Fraction(0)) + v1 * v2
        return Num(t)

    __rmul__ = __mul__

    def inv(self):
        c, k = self.mono()
        if c == 0:
            raise ZeroDivisionError("division by zero")
        return Num({tuple((a, -p) for a, p in k): 1 / c})

    def __truediv__(self, o):
        o = _num(o)
        if not o.is_mono():
            raise ValueError("division by a sum is outside the fragment")
        return self * o.inv()

    def __rtruediv__(self, o):
        return _num(o) / self

    def __pow__(self, e):
        e = _num(e)
        if not e.is_const():
            raise ValueError("symbolic exponent is outside the fragment")
        ev = e.value()
        if ev.denominator == 1 and ev >= 0 and not self.is_mono():
            r = Num.const(1)
            for _ in range(int(ev)):
                r = r * self
            return r
        c, k = self.mono()
        if c == 0:
            return Num.const(0) if ev > 0 else Num.const(1) if ev == 0 else (_ for _ in ()).throw(ZeroDivisionError())
        if ev.denominator == 1:
            cc = c ** int(ev)
        else:
            # rational power of the coefficient only if exact
            import math
            if c < 0:
                raise ValueError("fractional power of a negative coefficient is outside the fragment")
            n, d = c.numerator, c.denominator
            rn = round(n ** (1 / ev.denominator))
            rd = round(d ** (1 / ev.denominator))
            if rn ** ev.denominator != n or rd ** ev.denominator != d:
                raise ValueError("irrational coefficient power is outside the fragment")
            cc = Fraction(rn, rd) ** ev.numerator
        return Num({tuple((a, p * ev) for a, p in k): cc})

    # identity ---------------------------------------------------------
    def __eq__(self, o):
        if not isinstance(o, (Num, int, Fraction)):
            return NotImplemented
        return self.terms == _num(o).terms

    def __hash__(self):
        if self._h is None:
            self._h = hash(frozenset(self.terms.items()))
        return self._h

    def canon(self):
        if not self.terms:
            return "0"
        parts = []
        for k in sorted(self.terms, key=lambda k: str(k)):
            v = self.terms[k]
            s = "*".join((a if p == 1 else f"{a}^{p}") for a, p in k)
            if not s:
                parts.append(str(v))
            elif v == 1:
                parts.append(s)
            else:
                parts.append(f"{v}*{s}")
        return " + ".join(parts)

    def __repr__(self):
        return f"Num({self.canon()})"

    def subs(self, mapping):
        """substitute atoms by Num values"""
        out = Num()
        for k, v in self.terms.items():
            term = Num.const(v)
            for a, p in k:
                base = mapping[a] if a in mapping else Num.atom(a)
                term = term * (base ** Num.const(p))
            out = out + term
        return out


def _mulkey(k1, k2):
    if not k1:
        return k2
    if not k2:
        return k1
    d = dict(k1)
    for a, p in k2:
        d[a] = d.get(a, Fraction(0)) + p
    return tuple(sorted((a, p) for a, p in d.items() if p != 0))


def _num(x) -> Num:
    if isinstance(x, Num):
        return x
    return Num.const(x)
