"""pgverif - static verification machinery for pyGAPS (see /verif/DESIGN.md)."""
