"""Symbolic n-dimensional arrays for the abstract interpreter: numpy *object* arrays whose elements are sympy terms.

With `install_nd(I)` the interpreter carries such arrays through the code under analysis and lets numpy itself perform the array
algebra (broadcasting, `[:, newaxis]`, `.sum(axis=...)`, `cumsum`, `diff`, `ediff1d`, `dot`/`@`, transposes, slicing ...) on the
symbolic elements.  The result of a computation is therefore an array of closed sympy expressions that can be compared with the
property's equation by normalisation - independently of how the source spells the array arithmetic.

Only used by checks that opt in (sympy mode).  Nothing of the analysed repository is executed: numpy here is the checker's own
library acting on the checker's symbolic values.
"""
from __future__ import annotations

import ast
import operator
from fractions import Fraction

import numpy as np
import sympy as sp

from .absint import ExtRef, LibMethod, Obj, UnknownBool, _is_sym, num_to_sym
from .num import Num

_OPS = {ast.BitAnd: operator.and_, ast.BitOr: operator.or_, ast.BitXor: operator.xor, ast.Add: operator.add, ast.Sub: operator.sub, ast.Mult: operator.mul, ast.Div: operator.truediv, ast.Pow: operator.pow,
        ast.MatMult: operator.matmul, ast.FloorDiv: operator.floordiv, ast.Mod: operator.mod}

# numpy functions whose real implementation is applied to the symbolic arrays
_NP_FUNCS = ("multiply", "subtract", "add", "divide", "true_divide", "square", "power", "negative", "sum", "cumsum", "diff", "ediff1d",
             "dot", "matmul", "inner", "outer", "transpose", "asarray", "array", "asanyarray", "concatenate", "hstack", "vstack", "stack",
             "column_stack", "append", "insert", "flip", "ravel", "reshape", "squeeze", "expand_dims", "atleast_1d", "atleast_2d",
             "zeros_like", "ones_like", "empty_like", "full_like", "zeros", "ones", "empty", "full", "size", "shape", "ndim", "copy", "tensordot", "einsum",
             "prod", "mean", "trace", "diag", "tile", "repeat", "take", "swapaxes", "moveaxis", "clip", "arange", "linspace", "flipud", "roll",
             "flatnonzero", "nonzero", "argwhere", "count_nonzero", "logical_and", "logical_or", "logical_not", "searchsorted", "where")
_ELEMENTWISE = {"log": sp.log, "exp": sp.exp, "sqrt": sp.sqrt, "abs": sp.Abs, "absolute": sp.Abs}


def sym_array(name, *shape, **assume):
    """array of fresh symbols name_i / name_i_j"""
    assume = assume or {"positive": True}
    out = np.empty(shape, dtype=object)
    for idx in np.ndindex(*shape):
        out[idx] = sp.Symbol(name + "_" + "_".join(map(str, idx)), **assume)
    return out


def to_np(I, v, node=None):
    """abstract value -> value numpy can work with"""
    if isinstance(v, np.ndarray):
        return v
    if isinstance(v, Num):
        if v.is_const():
            f = v.value()
            return int(f) if f.denominator == 1 else sp.Rational(f.numerator, f.denominator)
        return num_to_sym(v)
    if isinstance(v, (list, tuple)):
        return type(v)(to_np(I, x, node) for x in v)
    if isinstance(v, dict):
        return {k: to_np(I, x, node) for k, x in v.items()}
    if isinstance(v, ExtRef):
        if v.dotted == "numpy.newaxis":
            return None
        if v.dotted in ("numpy.inf", "math.inf"):
            return sp.oo
        if v.dotted in ("numpy.pi", "math.pi", "scipy.constants.pi"):
            return sp.pi
        try:
            return num_to_sym(v)
        except TypeError:
            return v
    if type(v).__name__ == "Vec":
        return np.array([to_np(I, x, node) for x in v.items], dtype=object)
    return v


def _scalar(x):
    """sympy / numpy / python scalar -> abstract scalar (sympy mode: exact constants are sympy numbers)"""
    if isinstance(x, (bool, np.bool_)):
        return bool(x)
    if isinstance(x, (int, np.integer)):
        return sp.Integer(int(x))
    if isinstance(x, (float, np.floating)):
        return sp.nsimplify(float(x))
    return x


def from_np(v):
    """numpy result -> abstract value"""
    if isinstance(v, np.ndarray):
        if not v.shape:
            return _scalar(v[()])
        if v.dtype != object:
            w = np.empty(v.shape, dtype=object)
            for idx in np.ndindex(*v.shape):
                x = v[idx]
                w[idx] = bool(x) if v.dtype == bool else sp.Integer(int(x)) if float(x).is_integer() else sp.nsimplify(float(x))
            return w
        return v
    if v is None or isinstance(v, str):
        return v
    if isinstance(v, tuple):
        return tuple(from_np(x) for x in v)
    if isinstance(v, list):
        return [from_np(x) for x in v]
    return _scalar(v)


def _has_nd(args):
    return any(isinstance(a, np.ndarray) or (isinstance(a, (list, tuple)) and _has_nd(a)) for a in args)


def _conv_index(I, idx, node):
    if isinstance(idx, tuple) and len(idx) == 4 and idx[0] == "slice":
        return slice(*[None if x is None else int(I.to_py(x, node)) for x in idx[1:]])
    if isinstance(idx, tuple):
        return tuple(_conv_index(I, x, node) for x in idx)
    if isinstance(idx, slice):
        return idx
    if isinstance(idx, ExtRef) and idx.dotted == "numpy.newaxis":
        return None
    if isinstance(idx, np.ndarray) and idx.dtype == object and idx.size and \
            all(isinstance(x, (bool, np.bool_)) or x is sp.true or x is sp.false for x in idx.ravel()):
        return np.array([bool(x) for x in idx.ravel()], dtype=bool).reshape(idx.shape)         # a boolean mask computed elementwise
    if idx is None or isinstance(idx, np.ndarray):
        return idx
    if isinstance(idx, Num) or _is_sym(idx):
        return int(I.to_py(idx, node))
    return idx


def install_nd(I):
    """teach one interpreter instance (in sympy mode) to carry numpy object arrays"""
    I.sympy_mode = True
    orig_binop, orig_getitem, orig_getattr, orig_libm, orig_iter, orig_truth, orig_compare, orig_kind = \
        I.binop, I.getitem, I.getattr_, I.call_libmethod, I.iterate, I.truth, I.compare, I.kind_of

    def binop(op, a, b, node):
        if isinstance(a, np.ndarray) or isinstance(b, np.ndarray):
            f = _OPS.get(type(op))
            if f is None:
                I.err(node, f"operator {type(op).__name__} on a symbolic array")
            return from_np(f(to_np(I, a, node), to_np(I, b, node)))
        return orig_binop(op, a, b, node)

    def getitem(v, idx, node):
        if isinstance(v, np.ndarray):
            try:
                return from_np(v[_conv_index(I, idx, node)])
            except IndexError as e:
                raise I.fault("IndexError", node, str(e))
        return orig_getitem(v, idx, node)

    def kind_of(v):
        return "NdSym" if isinstance(v, np.ndarray) else orig_kind(v)

    def getattr_(v, name, node):
        if isinstance(v, np.ndarray):
            if name in ("T",):
                return v.T
            if name == "shape":
                return tuple(sp.Integer(x) for x in v.shape)
            if name in ("size", "ndim"):
                return sp.Integer(getattr(v, name))
            if name == "values":
                return v
            if hasattr(v, name):
                return LibMethod(v, name)
        return orig_getattr(v, name, node)

    def call_libmethod(recv, name, args, kwargs, node):
        if isinstance(recv, np.ndarray):
            kw = {k: to_np(I, x, node) for k, x in kwargs.items()}
            kw = {k: (int(x) if isinstance(x, sp.Integer) else x) for k, x in kw.items()}
            if name == "astype":
                return recv          # symbolic elements have no machine dtype
            if name in ("any", "all"):
                vals = [I.truth(x, node) for x in recv.ravel()]
                return any(vals) if name == "any" else all(vals)
            a2 = [int(x) if isinstance(x, sp.Integer) else x for x in (to_np(I, x, node) for x in args)]
            try:
                return from_np(getattr(recv, name)(*a2, **kw))
            except (TypeError, ValueError) as e:
                I.err(node, f"ndarray.{name} on symbolic arrays: {e}")
        return orig_libm(recv, name, args, kwargs, node)

    def iterate(v, node):
        if isinstance(v, np.ndarray):
            return [from_np(x) for x in v]
        return orig_iter(v, node)

    def truth(v, node=None, label=None):
        if isinstance(v, np.ndarray):
            raise I.fault("ValueError", node, "truth value of an array is ambiguous")
        return orig_truth(v, node, label)

    def compare(op, a, b, node):
        if isinstance(a, np.ndarray) or isinstance(b, np.ndarray):
            arr = a if isinstance(a, np.ndarray) else b
            out = np.empty(arr.shape, dtype=object)
            aa = np.broadcast_to(np.asarray(to_np(I, a, node), dtype=object), arr.shape)
            bb = np.broadcast_to(np.asarray(to_np(I, b, node), dtype=object), arr.shape)
            for idx in np.ndindex(*arr.shape):
                out[idx] = orig_compare(op, aa[idx], bb[idx], node)
            return out
        return orig_compare(op, a, b, node)

    orig_setitem = I.setitem

    def setitem(v, idx, value, node):
        if isinstance(v, np.ndarray):
            try:
                v[_conv_index(I, idx, node)] = to_np(I, value, node)
            except (IndexError, ValueError) as e:
                raise I.fault(type(e).__name__, node, str(e))
            return None
        return orig_setitem(v, idx, value, node)

    I.binop, I.getitem, I.getattr_, I.call_libmethod, I.iterate, I.truth, I.compare, I.kind_of, I.setitem = \
        binop, getitem, getattr_, call_libmethod, iterate, truth, compare, kind_of, setitem

    def np_call(name):
        def f(I, a, k, n):
            args = [to_np(I, x, n) for x in a]
            kw = {kk: to_np(I, x, n) for kk, x in k.items()}
            if "dtype" in kw:
                kw.pop("dtype")          # symbolic elements: keep them as objects
            kw = {kk: (int(x) if isinstance(x, sp.Integer) else x) for kk, x in kw.items()}
            def ints(x):
                if isinstance(x, sp.Integer):
                    return int(x)
                if isinstance(x, (tuple, list)):
                    return type(x)(ints(y) for y in x)
                return x
            if name in ("zeros", "ones", "expand_dims", "squeeze", "swapaxes", "moveaxis", "take", "repeat", "tile", "reshape", "full"):
                args = [ints(x) for x in args]
            if name in ("array", "asarray", "asanyarray"):
                return from_np(np.array(args[0], dtype=object))
            if name in ("zeros", "ones", "zeros_like", "ones_like", "empty_like", "empty"):
                base = getattr(np, name)(*args, **kw)
                out = np.empty(base.shape, dtype=object)
                out[...] = sp.Integer(0 if "ones" not in name else 1)
                return out
            if name in ("linspace", "arange", "clip"):
                args = [int(x) if isinstance(x, (bool, sp.Integer)) else float(x) if isinstance(x, sp.Rational) else x for x in args]
            try:
                return from_np(getattr(np, name)(*args, **kw))
            except (TypeError, ValueError) as e:
                I.err(n, f"numpy.{name} on symbolic arrays: {e}")
        return f
    for nm in _NP_FUNCS:
        I.ext[f"numpy.{nm}"] = np_call(nm)
    for nm, fn in _ELEMENTWISE.items():
        I.ext[f"numpy.{nm}"] = (lambda fn: lambda I, a, k, n: from_np(np.vectorize(fn, otypes=[object])(to_np(I, a[0], n)))
                                if isinstance(to_np(I, a[0], n), np.ndarray) else fn(to_np(I, a[0], n)))(fn)
    def _isnan(I, a, k, n):
        v = to_np(I, a[0], n)
        if isinstance(v, np.ndarray):
            out = np.empty(v.shape, dtype=object)
            for idx in np.ndindex(*v.shape):
                out[idx] = v[idx] is sp.nan
            return out
        return v is sp.nan
    I.ext["numpy.isnan"] = _isnan

    def _nan_to_num(I, a, k, n):
        v = to_np(I, a[0], n)
        fix = lambda x: sp.Integer(0) if x is sp.nan else x
        if isinstance(v, np.ndarray):
            out = np.empty(v.shape, dtype=object)
            for idx in np.ndindex(*v.shape):
                out[idx] = fix(v[idx])
            return out
        return fix(v)
    I.ext["numpy.nan_to_num"] = _nan_to_num
    old_len = I.ext.get("builtins.len")
    I.ext["builtins.len"] = lambda I, a, k, n: sp.Integer(len(a[0])) if isinstance(a[0], np.ndarray) else old_len(I, a, k, n)
    old_sum = I.ext.get("builtins.sum")
    I.ext["builtins.sum"] = lambda I, a, k, n: from_np(sum(list(a[0]), *[to_np(I, x, n) for x in a[1:]])) if isinstance(a[0], np.ndarray) else old_sum(I, a, k, n)
    return I


def eq_arrays(a, b):
    """elementwise equality of two symbolic arrays (or scalars) up to sympy simplification"""
    a, b = np.asarray(a, dtype=object), np.asarray(b, dtype=object)
    if a.shape != b.shape:
        return False
    return all(sp.simplify(sp.sympify(x) - sp.sympify(y)) == 0 for x, y in zip(a.ravel(), b.ravel()))
