"""E2 [ALG] - algebraic normal forms of source expressions.

A translator from straight-line numeric Python (local assignments, numpy/scipy elementary functions,
self.params[...] -> positive symbols, calls to other pure repo functions inlined, nested closures) to sympy
terms, plus a decision protocol: residual normalises to 0 => discharged; otherwise the residual is evaluated
at rational points of the declared domain with 50 digits ON THE CHECKER'S OWN TERM purely to classify:
numerically non-zero => violation with a witness point, numerically zero => AnalysisError (normaliser incomplete).
A pass never rests on numeric evaluation.  sympy is used as a normaliser only; no solver query.
"""
from __future__ import annotations

import ast
from fractions import Fraction

import sympy as sp

from .core import AnalysisError
from .srcmodel import ClassInfo, FuncInfo, SrcModel


class SymbolicBranch(AnalysisError):
    """a data-dependent branch that is neither a refusal nor an early return"""

    def __init__(self, node, src):
        super().__init__(f"[ALG] line {node.lineno}: branch on symbolic condition `{src}` outside the fragment")
        self.node, self.src = node, src


class Quad:
    """scipy.integrate.quad(f, lo, hi)[i]"""

    def __init__(self, integrand, var, lo, hi, index=None):
        self.integrand, self.var, self.lo, self.hi, self.index = integrand, var, lo, hi, index


class OptCall:
    """a call of a scipy optimiser / root finder; kept structurally"""

    def __init__(self, name, fun, args, kwargs, node):
        self.name, self.fun, self.args, self.kwargs, self.node = name, fun, args, kwargs, node


class Closure:
    def __init__(self, node, env, tr, self_ctx):
        self.node, self.env, self.tr, self.self_ctx = node, env, tr, self_ctx

    def __call__(self, *args):
        if isinstance(self.node, ast.Lambda):
            env = dict(self.env)
            for a, v in zip([x.arg for x in self.node.args.args], args):
                env[a] = v
            return self.tr.expr(self.node.body, env, self.self_ctx)
        env = dict(self.env)
        for a, v in zip([x.arg for x in self.node.args.args], args):
            env[a] = v
        return self.tr.body(self.node.body, env, self.self_ctx)


class PyCallable:
    """a function value produced by a library summary (operator.itemgetter(...))"""

    def __init__(self, fn):
        self.fn = fn

    def __call__(self, *args):
        return self.fn(*args)


class ArraySym:
    """a symbolic 1-d array: element j is the term name(j)"""

    def __init__(self, name, positive=True):
        self.name = name
        self.fn = sp.Function(name, positive=True) if positive else sp.Function(name, nonnegative=True)

    def __getitem__(self, idx):
        return self.fn(idx)

    def __iter__(self):
        raise TypeError("symbolic array is not iterable")


class Attr:
    """symbolic record (e.g. an optimiser result): attribute access yields named symbols"""

    def __init__(self, name):
        self.name = name


class SelfCtx:
    """how `self.<x>` is resolved: parameter symbols, attribute symbols, class for method inlining"""

    def __init__(self, cls: ClassInfo, params=None, attrs=None, stubs=None):
        self.cls = cls
        self.params = params or {}
        self.attrs = attrs or {}
        self.stubs = stubs or {}        # method name -> callable(args, kwargs) replacing inlining


NUMPY_FUNCS = {
    "log": sp.log, "exp": sp.exp, "sqrt": sp.sqrt, "abs": sp.Abs, "absolute": sp.Abs, "sin": sp.sin, "cos": sp.cos,
    "log10": lambda x: sp.log(x, 10), "log1p": lambda x: sp.log(1 + x), "expm1": lambda x: sp.exp(x) - 1,
    "tanh": sp.tanh, "arctan": sp.atan, "square": lambda x: x**2, "power": lambda a, b: a**b,
    "maximum": sp.Max, "minimum": sp.Min, "float64": lambda x: x, "asarray": lambda x: x, "array": lambda x: x,
    "atleast_1d": lambda x: x, "copysign": lambda a, b: sp.Abs(a) * sp.sign(b), "sign": sp.sign, "hypot": lambda a, b: sp.sqrt(a**2 + b**2),
    "where": lambda c, a, b: sp.Piecewise((a, c), (b, True)),
    # the ufunc spellings of the arithmetic operators
    "add": lambda a, b: a + b, "subtract": lambda a, b: a - b, "multiply": lambda a, b: a * b, "divide": lambda a, b: a / b,
    "true_divide": lambda a, b: a / b, "reciprocal": lambda a: 1 / a, "negative": lambda a: -a, "positive": lambda a: a,
    "float_power": lambda a, b: a**b, "pow": lambda a, b: a**b, "cbrt": lambda a: a**sp.Rational(1, 3), "log2": lambda x: sp.log(x, 2),
    "exp2": lambda x: 2**x, "sinh": sp.sinh, "cosh": sp.cosh, "tan": sp.tan, "arcsin": sp.asin, "arccos": sp.acos, "fabs": sp.Abs,
    "float32": lambda x: x, "float_": lambda x: x, "double": lambda x: x, "asfarray": lambda x: x, "asanyarray": lambda x: x,
    "ascontiguousarray": lambda x: x, "squeeze": lambda x: x, "ravel": lambda x: x, "copy": lambda x: x,
}
SPECIAL = {
    "gamma": sp.gamma, "gammaincc": lambda a, x: sp.uppergamma(a, x) / sp.gamma(a),
    "gammainc": lambda a, x: sp.lowergamma(a, x) / sp.gamma(a), "erf": sp.erf, "erfc": sp.erfc, "expi": sp.Ei,
}
CONSTANTS = {
    "scipy.constants.R": "R", "scipy.constants.gas_constant": "R", "scipy.constants.Avogadro": "N_A", "scipy.constants.N_A": "N_A",
    "scipy.constants.Boltzmann": "k_B", "scipy.constants.k": "k_B", "scipy.constants.pi": None, "numpy.pi": None, "math.pi": None,
    "scipy.constants.electron_mass": "m_e", "scipy.constants.speed_of_light": "c_light", "scipy.constants.c": "c_light",
    "scipy.constants.epsilon_0": "eps_0", "scipy.constants.e": "q_e", "scipy.constants.h": "h_planck",
    "numpy.e": None, "math.e": None,
}


def rat(v):
    if isinstance(v, bool):
        return sp.true if v else sp.false
    if isinstance(v, int):
        return sp.Integer(v)
    if isinstance(v, float):
        fr = Fraction(repr(v))
        return sp.Rational(fr.numerator, fr.denominator)
    raise TypeError(v)


class Translator:
    def __init__(self, model: SrcModel):
        self.model = model
        self.symbols = {}
        self.depth = 0

    def sym(self, name, **assume):
        key = (name, tuple(sorted(assume.items())))
        if key not in self.symbols:
            self.symbols[key] = sp.Symbol(name, **(assume or {"positive": True}))
        return self.symbols[key]

    def err(self, node, msg, fi=None):
        raise AnalysisError(f"[ALG] line {getattr(node, 'lineno', '?')}: {msg}")

    # ---- entry points ------------------------------------------------------------------------------
    def method(self, ctx: SelfCtx, name, args, kwargs=None):
        fi = ctx.cls.find_method(name)
        if fi is None:
            raise AnalysisError(f"anchor missing: {ctx.cls.name}.{name}")
        params = fi.params() if fi.is_staticmethod else fi.params()[1:]
        env = {"__module__": fi.module.name, "__fi__": fi}
        for p, v in zip(params, args):
            env[p] = v
        for k_, v_ in (kwargs or {}).items():
            env[k_] = v_
        # defaults
        a = fi.node.args
        defaults = dict(zip([x.arg for x in a.args][-len(a.defaults):] if a.defaults else [], a.defaults))
        for p in params[len(args):]:
            if p in defaults and p not in env:
                env[p] = self.expr(defaults[p], env, ctx)
        if self.depth == 0:
            self.last_env = env
        return self.body(fi.node.body, env, ctx)

    def function(self, fi: FuncInfo, args, kwargs=None):
        params = fi.params()
        env = {"__module__": fi.module.name, "__fi__": fi}
        for p, v in zip(params, args):
            env[p] = v
        a = fi.node.args
        defaults = dict(zip([x.arg for x in a.args][-len(a.defaults):] if a.defaults else [], a.defaults))
        for p, d in zip([x.arg for x in a.kwonlyargs], a.kw_defaults):
            if d is not None:
                defaults[p] = d
        for p in list(params[len(args):]) + [x.arg for x in a.kwonlyargs]:
            if kwargs and p in kwargs:
                env[p] = kwargs[p]
            elif p in defaults:
                env[p] = self.expr(defaults[p], env, None)
        if self.depth == 0:
            self.last_env = env
        return self.body(fi.node.body, env, None)

    # ---- statements ------------------------------------------------------------------------------------
    class _Ret(Exception):
        def __init__(self, v):
            self.v = v

    def body(self, stmts, env, ctx):
        try:
            self.block(stmts, env, ctx)
        except Translator._Ret as r:
            return r.v
        return None

    def block(self, stmts, env, ctx):
        for st in stmts:
            if isinstance(st, ast.Expr):
                if isinstance(st.value, ast.Constant):
                    continue
                if isinstance(st.value, ast.Call) and self._is_logging(st.value):
                    continue
                self.expr(st.value, env, ctx)
            elif isinstance(st, ast.Assign):
                v = self.expr(st.value, env, ctx)
                for t in st.targets:
                    self.assign(t, v, env, ctx)
            elif isinstance(st, ast.AugAssign):
                cur = self.expr(ast.Name(id=st.target.id, ctx=ast.Load()), env, ctx) if isinstance(st.target, ast.Name) else self.err(st, "augassign target")
                v = self.binop(st.op, cur, self.expr(st.value, env, ctx), st)
                self.assign(st.target, v, env, ctx)
            elif isinstance(st, ast.Return):
                raise Translator._Ret(self.expr(st.value, env, ctx) if st.value is not None else None)
            elif isinstance(st, ast.If):
                src = ast.unparse(st.test)
                if "isnan" in src or "verbose" in src:
                    continue        # NaN clean-up / verbose output: not part of the algebraic content (ND)
                t = self.expr(st.test, env, ctx)
                if t is True or t == sp.true:
                    self.block(st.body, env, ctx)
                elif t is False or t == sp.false or t is None:
                    self.block(st.orelse, env, ctx)
                else:
                    guard = env.setdefault("__guards__", [])
                    # a guard that only raises: record it and continue on the fall-through path
                    if all(isinstance(x, ast.Raise) for x in st.body) and not st.orelse:
                        guard.append((t, "raise"))
                        continue
                    if st.body and isinstance(st.body[-1], ast.Return) and not st.orelse:
                        e3 = dict(env)
                        val = self.body(st.body, e3, ctx)
                        env.setdefault("__early_returns__", []).append((t, val))
                        continue
                    raise SymbolicBranch(st, src)
            elif isinstance(st, ast.For):
                it = st.iter
                if not (isinstance(it, ast.Call) and isinstance(it.func, ast.Name) and it.func.id == "range" and isinstance(st.target, ast.Name)):
                    self.err(st, "for loop outside the stencil fragment (only `for i in range(...)`)")
                bounds = [self.expr(a, env, ctx) for a in it.args]
                i = self.sym(st.target.id + "_loop", integer=True, nonnegative=True)
                carried = sorted({t.target.id for t in ast.walk(st) if isinstance(t, ast.AugAssign) and isinstance(t.target, ast.Name)})
                e2 = dict(env)
                e2[st.target.id] = i
                ins = {}
                for c in carried:
                    ins[c] = self.sym(f"{c}_in", real=True)
                    e2[c] = ins[c]
                self.block(st.body, e2, ctx)
                rec = {"var": i, "range": bounds, "increments": {c: sp.simplify(e2[c] - ins[c]) for c in carried},
                       "locals": {k: v for k, v in e2.items() if isinstance(v, sp.Basic) and k not in env}}
                env.setdefault("__loops__", []).append(rec)
                for c in carried:
                    env[c] = env[c] + self.sym(f"{c}_loopsum", real=True)
            elif isinstance(st, ast.FunctionDef):
                env[st.name] = Closure(st, env, self, ctx)
            elif isinstance(st, ast.Raise):
                raise Translator._Ret(("raise", ast.unparse(st.exc) if st.exc else ""))
            elif isinstance(st, (ast.Import, ast.ImportFrom, ast.Pass)):
                continue
            elif isinstance(st, ast.Try):
                self.block(st.body, env, ctx)
            elif isinstance(st, ast.With) and all(
                    isinstance(it.context_expr, ast.Call) and (self.resolve_dotted(it.context_expr.func, env) or "") in
                    ("numpy.errstate", "warnings.catch_warnings", "contextlib.suppress", "contextlib.nullcontext") and it.optional_vars is None
                    for it in st.items):
                self.block(st.body, env, ctx)       # floating-point error state / warning filters do not change values
            else:
                self.err(st, f"statement {type(st).__name__} outside the algebraic fragment")

    def _is_logging(self, call):
        s = ast.unparse(call.func)
        return s.startswith("logger.") or s.startswith("warnings.") or s == "print"

    def assign(self, t, v, env, ctx):
        if isinstance(t, ast.Name):
            env[t.id] = v
        elif isinstance(t, (ast.Tuple, ast.List)):
            if isinstance(v, Quad) and getattr(v, "index", None) is None and len(t.elts) == 2:
                v = (Quad(v.integrand, v.var, v.lo, v.hi, index=0), Quad(v.integrand, v.var, v.lo, v.hi, index=1))     # (value, error estimate)
            if not isinstance(v, (tuple, list)) or len(v) != len(t.elts):
                self.err(t, "tuple unpack of a non-tuple")
            for e, x in zip(t.elts, v):
                self.assign(e, x, env, ctx)
        else:
            self.err(t, f"assignment target {ast.unparse(t)}")

    # ---- expressions ---------------------------------------------------------------------------------------
    def resolve_dotted(self, node, env):
        """dotted external name for Name/Attribute chains through module imports"""
        parts = []
        n = node
        while isinstance(n, ast.Attribute):
            parts.append(n.attr)
            n = n.value
        if not isinstance(n, ast.Name) or n.id in env:
            return None
        m = self.model.modules.get(env["__module__"])
        imp = m.imports.get(n.id) if m else None
        if imp is None:
            return None
        base = imp[1] if imp[0] == "mod" else f"{imp[1]}.{imp[2]}"
        return ".".join([base] + list(reversed(parts)))

    def expr(self, e, env, ctx):
        if isinstance(e, ast.Constant):
            if isinstance(e.value, (int, float)) and not isinstance(e.value, bool):
                return rat(e.value)
            return e.value
        if isinstance(e, ast.Name):
            if e.id in env:
                return env[e.id]
            r = self.model.resolve(env["__module__"], e.id)
            if r and r[0] == "const":
                return self.expr(r[2], {"__module__": r[1].name}, None)
            if r and r[0] == "func":
                return r[1]
            if e.id in ("True", "False", "None"):
                return {"True": True, "False": False, "None": None}[e.id]
            if e.id in ("float", "int", "str", "bool", "list", "tuple", "dict", "len", "abs", "max", "min", "sum", "range", "zip", "enumerate", "reversed", "sorted"):
                return ("builtin", e.id)
            d = self.resolve_dotted(e, env)
            if d in CONSTANTS:
                return self.const(d)
            if d is not None and "." in d:      # `from functools import reduce`, `from operator import add`, `from numpy import log`
                if d.endswith(".inf"):
                    return sp.oo
                if d.endswith(".nan"):
                    return sp.nan
                return ("ext", d)
            self.err(e, f"unresolved name {e.id}")
        if isinstance(e, ast.Attribute):
            d = self.resolve_dotted(e, env)
            if d is not None:
                if d in CONSTANTS:
                    return self.const(d)
                if d.endswith(".inf"):
                    return sp.oo
                if d.endswith(".nan"):
                    return sp.nan
                return ("ext", d)
            base = self.expr(e.value, env, ctx) if not (isinstance(e.value, ast.Name) and e.value.id == "self") else "SELF"
            if base == "SELF":
                if ctx is None:
                    self.err(e, "self outside a method context")
                if e.attr in ctx.attrs:
                    return ctx.attrs[e.attr]
                if e.attr == "params":
                    return ctx.params
                m = ctx.cls.find_method(e.attr)
                if m is not None:
                    return ("method", e.attr)
                ca = ctx.cls.find_assign(e.attr)
                if ca is not None:
                    return self.expr(ca[1], {"__module__": ca[0].module.name}, None)
                self.err(e, f"self.{e.attr} has no declared meaning")
            if isinstance(base, Attr):
                if base.name == "finfo":
                    return self.sym(f"finfo.{e.attr}", positive=True)
                return self.sym(f"{base.name}.{e.attr}", real=True)
            if isinstance(base, dict) and e.attr in ("get", "keys", "values", "items"):
                return ("dictmeth", base, e.attr)
            if isinstance(base, sp.Basic) and e.attr in ("T", "real"):
                return base
            return ("attr", base, e.attr)
        if isinstance(e, ast.Subscript):
            v = self.expr(e.value, env, ctx)
            if isinstance(v, dict):
                k = self.expr(e.slice, env, ctx)
                if k not in v:
                    self.err(e, f"key {k!r} not in the symbolic dictionary")
                return v[k]
            if isinstance(v, ArraySym):
                if isinstance(e.slice, ast.Slice):
                    return ("slice", v, tuple(None if x is None else self.expr(x, env, ctx) for x in (e.slice.lower, e.slice.upper, e.slice.step)))
                return v[self.expr(e.slice, env, ctx)]
            if isinstance(v, Quad):
                idx = self.expr(e.slice, env, ctx)
                return Quad(v.integrand, v.var, v.lo, v.hi, index=int(idx))
            if isinstance(v, (tuple, list)):
                return v[int(self.expr(e.slice, env, ctx))]
            self.err(e, f"subscript of {type(v).__name__}")
        if isinstance(e, ast.BinOp):
            return self.binop(e.op, self.expr(e.left, env, ctx), self.expr(e.right, env, ctx), e)
        if isinstance(e, ast.UnaryOp):
            v = self.expr(e.operand, env, ctx)
            if isinstance(e.op, ast.USub):
                return -v
            if isinstance(e.op, ast.UAdd):
                return v
            if isinstance(e.op, ast.Not):
                return (not v) if isinstance(v, bool) or v is None else sp.Not(v)
            self.err(e, "unary operator")
        if isinstance(e, ast.Compare):
            l = self.expr(e.left, env, ctx)
            r = self.expr(e.comparators[0], env, ctx)
            op = e.ops[0]
            if isinstance(l, ArraySym) or isinstance(r, ArraySym):
                return ("mask", type(op).__name__, l, r)
            if not isinstance(l, sp.Basic) and not isinstance(r, sp.Basic):
                return {ast.Eq: l == r, ast.NotEq: l != r, ast.Is: l is r, ast.IsNot: l is not r,
                        ast.In: (l in r) if isinstance(op, ast.In) else None,
                        ast.NotIn: (l not in r) if isinstance(op, ast.NotIn) else None}.get(type(op))
            rel = {ast.Lt: sp.Lt, ast.LtE: sp.Le, ast.Gt: sp.Gt, ast.GtE: sp.Ge, ast.Eq: sp.Eq, ast.NotEq: sp.Ne}.get(type(op))
            if rel is None:
                self.err(e, "comparison operator")
            return rel(l, r)
        if isinstance(e, ast.BoolOp):
            vals = [self.expr(v, env, ctx) for v in e.values]
            if all(isinstance(v, bool) or v is None for v in vals):
                return all(vals) if isinstance(e.op, ast.And) else any(vals)
            return (sp.And if isinstance(e.op, ast.And) else sp.Or)(*[sp.true if v is True else sp.false if v in (False, None) else v for v in vals])
        if isinstance(e, ast.IfExp):
            t = self.expr(e.test, env, ctx)
            if isinstance(t, bool) or t is None:
                return self.expr(e.body if t else e.orelse, env, ctx)
            return sp.Piecewise((self.expr(e.body, env, ctx), t), (self.expr(e.orelse, env, ctx), True))
        if isinstance(e, ast.Lambda):
            return Closure(e, env, self, ctx)
        if isinstance(e, (ast.Tuple, ast.List)):
            return tuple(self.expr(x, env, ctx) for x in e.elts)
        if isinstance(e, ast.Dict):
            return {self.expr(k, env, ctx): self.expr(v, env, ctx) for k, v in zip(e.keys, e.values)}
        if isinstance(e, ast.JoinedStr):
            # concrete when every interpolated value is concrete (e.g. f"n_m{i}" with a literal i); otherwise message text
            parts = []
            for v in e.values:
                if isinstance(v, ast.Constant):
                    parts.append(str(v.value))
                    continue
                try:
                    x = self.expr(v.value, env, ctx)
                except AnalysisError:
                    return "<str>"
                if isinstance(x, (str, int)) or (isinstance(x, sp.Basic) and x.is_Integer):
                    parts.append(str(x))
                else:
                    return "<str>"
            return "".join(parts)
        if isinstance(e, (ast.ListComp, ast.GeneratorExp, ast.SetComp)):
            # comprehension over concrete (finite, literal-shaped) sequences: unrolled
            out = []

            def rec(gens, env_):
                if not gens:
                    out.append(self.expr(e.elt, env_, ctx))
                    return
                g = gens[0]
                seq = self.expr(g.iter, env_, ctx)
                if not isinstance(seq, (tuple, list)):
                    self.err(e, f"comprehension over a non-literal sequence {ast.unparse(g.iter)}")
                for item in seq:
                    e2 = dict(env_)
                    self.assign(g.target, item, e2, ctx)
                    conds = [self.expr(c, e2, ctx) for c in g.ifs]
                    if any(not isinstance(c, bool) for c in conds):
                        self.err(e, "comprehension filter on a symbolic condition")
                    if all(conds):
                        rec(gens[1:], e2)
            rec(list(e.generators), env)
            return tuple(out)
        if isinstance(e, ast.Call):
            return self.call(e, env, ctx)
        self.err(e, f"expression {type(e).__name__} outside the algebraic fragment")

    def apply_operator(self, fn, a, b, node):
        """operator.add / mul / sub / truediv / pow handed around as a function value"""
        name = fn[1].rpartition(".")[2] if isinstance(fn, tuple) and fn[0] == "ext" else None
        ops = {"add": ast.Add(), "mul": ast.Mult(), "sub": ast.Sub(), "truediv": ast.Div(), "pow": ast.Pow()}
        if name in ops:
            return self.binop(ops[name], a, b, node)
        self.err(node, f"function value {fn!r} outside the algebraic fragment")

    def const(self, dotted):
        nm = CONSTANTS[dotted]
        if nm is None:
            return sp.pi if dotted.endswith("pi") else sp.E
        return self.sym(nm)

    def binop(self, op, a, b, node):
        try:
            if isinstance(op, ast.Add):
                return a + b
            if isinstance(op, ast.Sub):
                return a - b
            if isinstance(op, ast.Mult):
                return a * b
            if isinstance(op, ast.Div):
                return a / b
            if isinstance(op, ast.Pow):
                return a ** b
            if isinstance(op, ast.BitAnd):
                return sp.And(a, b)
            if isinstance(op, ast.BitOr):
                return sp.Or(a, b)
        except TypeError:
            self.err(node, f"arithmetic on {type(a).__name__}, {type(b).__name__}")
        self.err(node, f"operator {type(op).__name__}")

    def call(self, e, env, ctx):
        f = e.func
        args = [self.expr(a, env, ctx) for a in e.args if not isinstance(a, ast.Starred)]
        kwargs = {k.arg: self.expr(k.value, env, ctx) for k in e.keywords if k.arg}
        fv = self.expr(f, env, ctx) if not (isinstance(f, ast.Attribute) and isinstance(f.value, ast.Call) and
                                             isinstance(f.value.func, ast.Name) and f.value.func.id == "super") else ("super", f.attr)
        if isinstance(fv, (Closure, PyCallable)):
            return fv(*args)
        if isinstance(fv, FuncInfo):
            self.depth += 1
            if self.depth > 12:
                self.err(e, "inlining depth exceeded")
            try:
                return self.function(fv, args, kwargs)
            finally:
                self.depth -= 1
        if isinstance(fv, tuple):
            kind = fv[0]
            if kind == "method" and fv[1] in ctx.stubs:
                return ctx.stubs[fv[1]](args, kwargs)
            if kind == "method":
                self.depth += 1
                try:
                    return self.method(ctx, fv[1], args, kwargs)
                finally:
                    self.depth -= 1
            if kind == "dictmeth":
                d, m = fv[1], fv[2]
                if m == "get":
                    return d.get(args[0], args[1] if len(args) > 1 else None)
                return list(getattr(d, m)())
            if kind == "ext":
                return self.ext_call(fv[1], args, kwargs, e, env, ctx)
            if kind == "attr":
                base, attr = fv[1], fv[2]
                if isinstance(base, ArraySym) and attr in ("max", "min", "sum", "mean"):
                    return sp.Function(attr, real=True)(sp.Symbol(base.name))
                if attr in ("any", "all", "copy", "astype", "flatten", "item"):
                    return base
                if isinstance(base, sp.Basic) and attr in NUMPY_FUNCS:
                    return NUMPY_FUNCS[attr](base, *args)
                self.err(e, f"method .{attr}() outside the algebraic fragment")
        if isinstance(f, ast.Name) and f.id in ("zip", "enumerate", "list", "tuple", "reversed", "sorted") and args and all(isinstance(a, (tuple, list)) for a in args):
            if f.id == "zip":
                return tuple(zip(*args))
            if f.id == "enumerate":
                return tuple((sp.Integer(i), x) for i, x in enumerate(args[0]))
            if f.id == "reversed":
                return tuple(reversed(args[0]))
            if f.id in ("list", "tuple"):
                return tuple(args[0])
        if isinstance(f, ast.Name) and f.id == "range" and args and all(isinstance(a, sp.Basic) and a.is_Integer for a in args):
            return tuple(sp.Integer(i) for i in range(*[int(a) for a in args]))
        if isinstance(f, ast.Name) and f.id == "sum" and args and isinstance(args[0], (tuple, list)) and not isinstance(args[0], ArraySym):
            tot = args[1] if len(args) > 1 else sp.Integer(0)
            for x in args[0]:
                tot = tot + x
            return tot
        if isinstance(f, ast.Name) and f.id == "len" and args and isinstance(args[0], (tuple, list, dict)):
            return sp.Integer(len(args[0]))
        if isinstance(f, ast.Name) and f.id in ("float", "int", "abs", "max", "min", "len", "sum", "range"):
            if f.id in ("float", "int"):
                return args[0]
            if f.id == "len" and args and isinstance(args[0], ArraySym):
                return self.sym(f"len_{args[0].name}", integer=True, positive=True)
            if f.id == "abs":
                return sp.Abs(args[0])
            if f.id in ("max", "min") and len(args) == 1 and isinstance(args[0], ArraySym):
                return sp.Function(f.id, positive=True)(sp.Symbol(args[0].name))
            if f.id == "max":
                return sp.Max(*args)
            if f.id == "min":
                return sp.Min(*args)
        self.err(e, f"call of {ast.unparse(f)} outside the algebraic fragment")

    def ext_call(self, dotted, args, kwargs, e, env, ctx):
        mod, _, name = dotted.rpartition(".")
        if dotted == "functools.reduce" and len(args) >= 2 and isinstance(args[1], (tuple, list)):
            fn, seq = args[0], list(args[1])
            acc = args[2] if len(args) > 2 else (seq.pop(0) if seq else self.err(e, "reduce() of an empty sequence"))
            for x in seq:
                acc = fn(acc, x) if isinstance(fn, Closure) else self.apply_operator(fn, acc, x, e)
            return acc
        if dotted == "operator.itemgetter" and args:
            keys = list(args)

            def getter(obj, keys=keys, e=e):
                def one(k):
                    if isinstance(obj, dict):
                        if k not in obj:
                            self.err(e, f"key {k!r} not in the symbolic dictionary")
                        return obj[k]
                    if isinstance(obj, (tuple, list)):
                        return obj[int(k)]
                    if isinstance(obj, ArraySym):
                        return obj[k]
                    self.err(e, f"itemgetter on {type(obj).__name__}")
                return one(keys[0]) if len(keys) == 1 else tuple(one(k) for k in keys)
            return PyCallable(getter)
        if mod == "operator":
            if len(args) != 2:
                self.err(e, f"{dotted} with {len(args)} argument(s) outside the algebraic fragment")
            return self.apply_operator(("ext", dotted), args[0], args[1], e)
        if dotted in ("math.fsum", "numpy.sum") and args and isinstance(args[0], (tuple, list)) and not (args[0] and args[0][0] == "mask"):
            tot = sp.Integer(0)
            for x in args[0]:
                tot = tot + x
            return tot
        if dotted in ("math.prod", "numpy.prod") and args and isinstance(args[0], (tuple, list)):
            tot = sp.Integer(1)
            for x in args[0]:
                tot = tot * x
            return tot
        if mod in ("numpy", "math") and name in NUMPY_FUNCS:
            return NUMPY_FUNCS[name](*args)
        if mod == "scipy.special" and name in SPECIAL:
            return SPECIAL[name](*args)
        if dotted == "numpy.nan_to_num":
            return args[0]
        if dotted in ("numpy.sum", "numpy.count_nonzero") and args and isinstance(args[0], tuple) and args[0][0] == "mask":
            n = self.sym("n_count", integer=True, nonnegative=True)
            self.definitions = getattr(self, "definitions", {})
            self.definitions[n] = args[0]
            return n
        if dotted == "numpy.finfo":
            return Attr("finfo")
        if dotted in ("numpy.zeros_like", "numpy.ones_like", "numpy.zeros", "numpy.ones"):
            return sp.Integer(0) if "zeros" in dotted else sp.Integer(1)
        if dotted == "scipy.integrate.quad":
            x = self.sym("x_int")
            fn = args[0]
            if not isinstance(fn, Closure):
                self.err(e, "quad integrand is not a closure")
            return Quad(fn(x), x, args[1], args[2])
        if dotted.startswith("scipy.optimize."):
            return OptResult(OptCall(name, args[0] if args else None, args[1:], kwargs, e), self)
        if dotted == "scipy.stats.linregress":
            return ("linregress", args, kwargs)
        self.err(e, f"external call {dotted} outside the algebraic fragment")


class OptResult(Attr):
    def __init__(self, call: OptCall, tr):
        super().__init__("opt_res")
        self.call = call


# ---- decision protocol ---------------------------------------------------------------------------------------

import contextlib
import signal


class _Timeout(Exception):
    pass


@contextlib.contextmanager
def time_limit(seconds):
    """bound a sympy call (main thread only); on expiry the caller falls back to the next normal form"""
    # the budget is CPU time of this process (ITIMER_PROF), not wall-clock time: the outcome of a check must not depend on
    # how busy the machine is
    def handler(signum, frame):
        raise _Timeout()
    try:
        old = signal.signal(signal.SIGPROF, handler)
    except ValueError:      # not in the main thread
        yield
        return
    signal.setitimer(signal.ITIMER_PROF, seconds)
    try:
        yield
    finally:
        signal.setitimer(signal.ITIMER_PROF, 0)
        signal.signal(signal.SIGPROF, old)


def normalise(expr):
    """a list of increasingly aggressive normal forms"""
    yield sp.simplify(expr)
    e2 = sp.powdenest(sp.expand_log(sp.expand(expr), force=True), force=True)
    yield sp.simplify(e2)
    yield sp.simplify(sp.logcombine(sp.expand(e2), force=True))
    yield sp.simplify(sp.powsimp(sp.together(e2), force=True))


def decide_zero(expr, domain_points=None, symbols_domain=None):
    """returns ('zero', None) | ('nonzero', witness) | raises AnalysisError (normaliser incomplete)"""
    expr = sp.sympify(expr)
    if expr == 0:
        return "zero", None
    if expr.has(sp.nan, sp.zoo):
        # the source expression divides by an exact zero (e.g. an exponent 1/(t-1) at t = 1): undefined for every input
        return "nonzero", ({}, "undefined: the expression contains a division by an exact zero")
    # a non-zero value at a point of the domain is a witness whatever the normal form: look for one first (cheap)
    try:
        from sympy.core.function import AppliedUndef as _AU
        e0 = expr
        apps0 = sorted(e0.atoms(_AU), key=str)
        if apps0:
            e0 = e0.subs({a: sp.Symbol(f"app{i}_{a.func.__name__}", positive=True) for i, a in enumerate(apps0)})
        syms0 = sorted(e0.free_symbols, key=lambda s_: s_.name)
        for pt in (domain_points or default_points(syms0, symbols_domain))[:2]:
            with time_limit(10):
                val = sp.N(e0.subs(pt), 50)
            if val.is_number and not val.has(sp.nan, sp.zoo, sp.oo):
                mag = abs(complex(val))
                scale = 1 + max([abs(complex(sp.N(t.subs(pt), 30))) for t in sp.Add.make_args(e0)] or [1])
                if mag > 1e-25 * scale:
                    return "nonzero", ({str(k): str(v) for k, v in pt.items()}, str(sp.N(val, 8)))
    except Exception:
        pass
    gen = normalise(expr)
    for _ in range(4):
        try:
            with time_limit(12):
                nf = next(gen)
            if nf == 0:
                return "zero", None
        except StopIteration:
            break
        except _Timeout:
            gen = _skip(normalise(expr), _ + 1)
            continue
        except Exception:       # sympy internal failure: try the next form, then classify
            continue
    # undefined function applications (opaque library results, array elements) become fresh symbols for classification
    from sympy.core.function import AppliedUndef
    apps = sorted(expr.atoms(AppliedUndef), key=str)
    if apps:
        expr = expr.subs({a: sp.Symbol(f"app{i}_{a.func.__name__}", positive=True) for i, a in enumerate(apps)})
    syms = sorted(expr.free_symbols, key=lambda s: s.name)
    pts = domain_points or default_points(syms, symbols_domain)
    worst = None
    for pt in pts:
        try:
            val = sp.N(expr.subs(pt), 50)
        except Exception:
            continue
        if val.has(sp.nan, sp.zoo, sp.oo) or not val.is_number:
            continue
        mag = abs(complex(val))
        scale = 1 + max([abs(complex(sp.N(t.subs(pt), 30))) for t in sp.Add.make_args(expr)] or [1])
        if mag > 1e-25 * scale:
            return "nonzero", ({str(k): str(v) for k, v in pt.items()}, str(sp.N(val, 8)))
        worst = mag
    if worst is None:
        raise AnalysisError(f"[ALG] cannot evaluate residual {sp.srepr(expr)[:200]}")
    raise AnalysisError(f"[ALG] normaliser incomplete: residual {str(expr)[:200]} is numerically zero at the sample points but did not normalise to 0")


def _skip(gen, n):
    """a generator positioned after its first n items without computing them is not possible for a pipeline;
    re-create the later stages directly"""
    def later():
        return
        yield
    return later()


def default_points(syms, dom=None):
    dom = dom or {}
    seeds = [(3, 7), (5, 11), (2, 13), (7, 17), (11, 19)]
    pts = []
    for i, (a, b) in enumerate(seeds):
        pt = {}
        for j, s in enumerate(syms):
            lo, hi = dom.get(s.name, (sp.Rational(1, 10), 3))
            fr = sp.Rational((a * (j + 2) + i) % b + 1, b + 1)
            pt[s] = lo + (hi - lo) * fr
        pts.append(pt)
    return pts
