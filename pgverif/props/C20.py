"""C20 - shipped adsorbates resolve uniquely; their thermodynamic data are consistent.

Decided statically:
  L-unique   exhaustively over adsorbates.json and default.db (read-only): every lower-cased name / alias
             designates exactly one adsorbate; the name is among its own aliases after construction
  L-agree    JSON source list and packaged database agree entry by entry (names, aliases, every property)
  L-backend  every backend_name resolves in the installed CoolProp (asked through CoolProp's own lookup)
  L-const    shipped fallback constants (molar_mass, t_critical, p_critical) agree with the backend's fluid
             constants within 5 % (they are what the getters return when the backend fails)
  G-lookup   Adsorbate.__eq__ lower-cases the probe; find() is first match over the registry; the isotherm's
             adsorbate setter resolves through find(); (alias rows regrouped by adsorbates_from_db: C08)
  G-getter   abstract interpretation of the 12 property getters + 2 aliases over calculate x backend {works,
             fails} x stored property {present, absent} x unit: backend branch positions the state (QT, Q=0
             liquid / 1 gas, both for the enthalpy difference) and scales to the documented unit; any backend
             failure falls back to the stored property of the same name (scaled bar->Pa where documented);
             a missing property ends in CalculationError; no path returns None; saturation_pressure honours
             `unit` on every returning path
Not decided: rho = rho_molar*M, monotone p_sat, positive h_vap (CoolProp numerics).
"""
from __future__ import annotations

import json
import os
import sqlite3
import subprocess

from ..absint import ClassRef, NeedChoice, Obj, Outcome, Raised
from ..core import AnalysisError, Ctx, Finding
from ..domain import Tables, make_interp
from ..num import Num
from ..srcmodel import load

CONST_TOL = 0.05
NUMERIC_PROPS = ["molar_mass", "t_critical", "p_critical", "t_triple", "p_triple", "cross_sectional_area",
                 "kinetic_diameter", "polarizability", "dipole_moment", "quadrupole_moment", "acentric_factor",
                 "rhomass_critical", "rhomolar_critical"]

CP_SCRIPT = r"""
import json, sys
import CoolProp as CP
names = json.load(sys.stdin)
out = {}
for n in names:
    try:
        real = CP.CoolProp.get_fluid_param_string(n, 'name')
        st = CP.AbstractState('HEOS', n)
        d = {'ok': True, 'name': real, 'molar_mass': st.molar_mass() * 1000, 't_critical': st.T_critical(),
             'p_critical': st.p_critical() / 1e5, 't_triple': st.Ttriple()}
        try:
            d['p_triple'] = CP.CoolProp.PropsSI('PTRIPLE', n) / 1e5
        except Exception:
            d['p_triple'] = None
        out[n] = d
    except Exception as e:
        out[n] = {'ok': False, 'err': str(e)[:80]}
json.dump(out, sys.stdout)
"""


def coolprop_table(names):
    py = "/venv/bin/python"
    if not os.path.exists(py):
        raise AnalysisError("reference lookup: /venv/bin/python (with CoolProp) is not available")
    try:
        r = subprocess.run([py, "-c", CP_SCRIPT], input=json.dumps(sorted(names)), capture_output=True, text=True, timeout=120)
    except Exception as e:
        raise AnalysisError(f"reference lookup failed: {e}")
    if r.returncode != 0:
        raise AnalysisError(f"reference lookup failed: {r.stderr[-200:]}")
    return json.loads(r.stdout)


def load_json(root):
    p = root / "src/pygaps/data/adsorbates.json"
    if not p.exists():
        raise AnalysisError(f"anchor missing: {p}")
    return json.loads(p.read_text(encoding="utf8"))


def load_db(root):
    p = root / "src/pygaps/data/default.db"
    if not p.exists():
        raise AnalysisError(f"anchor missing: {p}")
    c = sqlite3.connect(f"file:{p}?mode=ro&immutable=1", uri=True)
    ads = {}
    for i, name in c.execute("select id, name from adsorbates"):
        ads[i] = {"name": name}
    for ads_id, typ, val in c.execute("select ads_id, type, value from adsorbate_properties order by id"):
        d = ads[ads_id]
        if typ in d:
            d[typ] = (d[typ] if isinstance(d[typ], list) else [d[typ]]) + [val]
        else:
            d[typ] = val
    c.close()
    return list(ads.values())


def aliases_of(entry):
    """what Adsorbate.__init__ builds (checked against the source in G-lookup)"""
    al = entry.get("alias")
    name = entry["name"].lower()
    if al is None:
        return [name]
    if isinstance(al, str):
        al = [al]
    out = [a.lower() for a in al]
    if name not in out:
        out.append(name)
    return out


def r_unique(ctx: Ctx, entries, src, relpath):
    seen = {}
    n = 0
    for e in entries:
        for a in aliases_of(e):
            n += 1
            seen.setdefault(a, []).append(e["name"])
    for a, owners in sorted(seen.items()):
        owners = sorted(set(owners))
        ctx.ob(len(owners) == 1, Finding("C20.L-unique", relpath, f"{src}|alias-collision|{a}",
                                         f"{src}: the name/alias '{a}' designates {owners}: Adsorbate.find('{a}') returns the first "
                                         f"match ({owners[0]}), an isotherm created with this string is linked to the wrong adsorbate"),
               nontrivial_key=("alias", src, a))
    ctx.analysed[f"{src}_aliases"] = n
    ctx.floor(f"{src} names and aliases", n, 800)
    ctx.floor(f"{src} adsorbates", len(entries), 170)


def norm(v):
    if isinstance(v, list):
        if len(v) == 1:
            return norm(v[0])       # the database stores one row per element: a 1-element list is a scalar there
        return sorted(str(x) for x in v)
    if isinstance(v, (int, float)) and not isinstance(v, bool):
        return float(v)
    try:
        return float(v)
    except (TypeError, ValueError):
        return str(v)


def r_agree(ctx: Ctx, js, db):
    dj = {e["name"]: e for e in js}
    dd = {e["name"]: e for e in db}
    for name in sorted(set(dj) | set(dd)):
        if name not in dj or name not in dd:
            ctx.ob(False, Finding("C20.L-agree", "src/pygaps/data", f"only-in-{'json' if name in dj else 'db'}|{name}",
                                  f"adsorbate '{name}' is only in {'adsorbates.json' if name in dj else 'default.db'}"))
            continue
        a, b = dj[name], dd[name]
        for k in sorted(set(a) | set(b)):
            va, vb = a.get(k), b.get(k)
            if k == "alias":
                va, vb = sorted(aliases_of(a)), sorted(aliases_of(b))
            ok = (va is not None and vb is not None) and (norm(va) == norm(vb) or
                                                          (isinstance(norm(va), float) and isinstance(norm(vb), float)
                                                           and abs(norm(va) - norm(vb)) <= 1e-9 * max(1, abs(norm(va)))))
            ctx.ob(ok, Finding("C20.L-agree", "src/pygaps/data", f"json-db|{name}|{k}",
                               f"adsorbate '{name}', property '{k}': adsorbates.json has {va!r}, default.db has {vb!r}"),
                   nontrivial_key=("agree", name, k))


def r_backend(ctx: Ctx, js):
    names = sorted({e["backend_name"] for e in js if e.get("backend_name")})
    ctx.floor("backend-linked adsorbates", len(names), 75)
    tab = coolprop_table(names)
    ctx.assume("the installed CoolProp's fluid table (names, molar mass, critical and triple point constants) is the reference")
    for e in js:
        bn = e.get("backend_name")
        if not bn:
            continue
        ref = tab.get(bn, {"ok": False})
        ctx.ob(ref.get("ok", False), Finding("C20.L-backend", "src/pygaps/data/adsorbates.json", f"backend|{e['name']}|{bn}",
                                             f"adsorbate '{e['name']}': backend_name '{bn}' does not resolve in CoolProp ({ref.get('err')})"),
               nontrivial_key=("backend", e["name"]))
        if not ref.get("ok"):
            continue
        # triple-point values are NOT compared: CoolProp reports the lower limit of its equation of state there
        # (propyne: 273 K, literature 170.5 K), so it is no authority for them (false alarm corrected, see DESIGN)
        for prop in ("molar_mass", "t_critical", "p_critical"):
            v, r = e.get(prop), ref.get(prop)
            if v is None or r is None or not isinstance(v, (int, float)) or r <= 0:
                continue
            dev = abs(v - r) / abs(r)
            ctx.ob(dev <= CONST_TOL, Finding("C20.L-const", "src/pygaps/data/adsorbates.json", f"const|{e['name']}|{prop}",
                                             f"adsorbate '{e['name']}': shipped {prop} = {v:g} but the backend fluid '{ref['name']}' has "
                                             f"{r:g} ({dev * 100:.0f} % off): this is the value the getter returns when the backend fails",
                                             {"shipped": v, "backend": r}),
                   nontrivial_key=("const", e["name"], prop),
                   sample={"rule": "L-const", "adsorbate": e["name"], "prop": prop, "shipped": v, "backend": r} if dev > 0.01 else None)
    for e in js:
        for prop in NUMERIC_PROPS:
            if prop in e:
                ctx.ob(isinstance(e[prop], (int, float)) and not isinstance(e[prop], bool),
                       Finding("C20.L-const", "src/pygaps/data/adsorbates.json", f"type|{e['name']}|{prop}",
                               f"adsorbate '{e['name']}': {prop} = {e[prop]!r} is not a number"))


# ---- getters -------------------------------------------------------------------------------------------

# getter -> (CoolProp reader(s), Q, scale to documented unit, fallback property, fallback scale)
from fractions import Fraction as F
GETTERS = {
    "molar_mass": ("molar_mass", None, F(1000), "molar_mass", F(1)),
    "p_triple": ("PropsSI:PTRIPLE", None, F(1), "p_triple", F(100000)),
    "t_triple": ("Ttriple", None, F(1), "t_triple", F(1)),
    "p_critical": ("p_critical", None, F(1), "p_critical", F(100000)),
    "t_critical": ("T_critical", None, F(1), "t_critical", F(1)),
    "saturation_pressure": ("p", "any", F(1), "saturation_pressure", F(1)),
    "pressure_saturation": ("p", "any", F(1), "saturation_pressure", F(1)),
    "surface_tension": ("surface_tension", "0", F(1000), "surface_tension", F(1)),
    "liquid_density": ("rhomass", "0", F(1, 1000), "liquid_density", F(1)),
    "liquid_molar_density": ("rhomolar", "0", F(1, 10**6), "liquid_molar_density", F(1)),
    "gas_density": ("rhomass", "1", F(1, 1000), "gas_density", F(1)),
    "gas_molar_density": ("rhomolar", "1", F(1, 10**6), "gas_molar_density", F(1)),
    "enthalpy_liquefaction": ("hmolar-diff", None, F(1, 1000), "enthalpy_liquefaction", F(1)),
    "enthalpy_vaporisation": ("hmolar-diff", None, F(1, 1000), "enthalpy_liquefaction", F(1)),
}
NO_TEMP = {"molar_mass", "p_triple", "t_triple", "p_critical", "t_critical"}


def expected_backend(g, T, QT="CoolProp.QT_INPUTS"):
    rd, q, scale, _, _ = GETTERS[g]
    if rd.startswith("PropsSI"):
        return {Num.atom("CP.PropsSI('PTRIPLE','BK')") * Num.const(scale)}
    if rd == "hmolar-diff":
        return {(Num.atom(f"CP.hmolar@('{QT}', '1', '{T}')") - Num.atom(f"CP.hmolar@('{QT}', '0', '{T}')")) * Num.const(scale)}
    if q is None:
        return {Num.atom(f"CP.{rd}") * Num.const(scale)}
    if q == "any":
        return {Num.atom(f"CP.{rd}@('{QT}', '{x}', '{T}')") * Num.const(scale) for x in ("0", "1")}
    return {Num.atom(f"CP.{rd}@('{QT}', '{q}', '{T}')") * Num.const(scale)}


def r_getters(ctx: Ctx, model, prop="C20", rule="G-getter", only=None):
    ctx.rule(f"{rule}: outcome table of every Adsorbate property getter over calculate (True / False / omitted = default) x backend x stored property x unit")
    ci = model.cls("pygaps.core.adsorbate.Adsorbate")
    n = 0
    for backend_ok in (True, False):
        I = make_interp(model, backend_ok=backend_ok)
        t = Tables(I)
        for g, (rd, q, scale, fprop, fscale) in GETTERS.items():
            if only is not None and g not in only:
                continue
            m = ci.find_method(g)
            if m is None:
                raise AnalysisError(f"anchor missing: Adsorbate.{g}")
            for calculate in (True, False, "default"):
                for has_prop in (True, False, "others"):
                    units = [None, "bar", "Pa"] if g in ("saturation_pressure", "pressure_saturation") else [None]
                    for unit in units:
                        def thunk(I, g=g, has_prop=has_prop, calculate=calculate, unit=unit):
                            props = {"backend_name": "BK"}
                            if has_prop is True:
                                props[GETTERS[g][3]] = Num.atom("PROP")
                            elif has_prop == "others":
                                # every other tabulated constant is known, only this getter's own value is missing:
                                # the answer must still be a refusal, never a number estimated from the others
                                for g2, spec in GETTERS.items():
                                    if spec[3] != GETTERS[g][3]:
                                        props[spec[3]] = Num.atom("OTHER_" + spec[3])
                            ads = Obj(cls=ci, label="adsorbate", attrs={"name": "ADS", "alias": ["ads"], "properties": props,
                                                                        "_state": None, "_backend_mode": None})
                            fv = I.getattr_(ads, g, None)
                            kw = {} if calculate == "default" else {"calculate": calculate}     # omitted: the documented default is to calculate
                            if unit is not None:
                                kw["unit"] = unit
                            args = [] if g in NO_TEMP else [Num.atom("T")]
                            return I.call_value(fv, args, kw, None)
                        outs = I.explore(thunk)
                        n += 1
                        uf = Num.const(1)
                        if unit is not None:
                            uf = t.pressure["Pa"] / t.pressure[unit]
                        for oc in outs:
                            case = f"calculate={calculate},backend={'ok' if backend_ok else 'fails'},property={'set' if has_prop is True else 'missing' if has_prop is False else 'missing-but-others-set'}" + \
                                   (f",unit={unit}" if unit else "")
                            if calculate and backend_ok:
                                want = {x * uf for x in expected_backend(g, "T")}
                                ok = oc.kind == "ok" and oc.value in want
                                wdesc = " or ".join(sorted(x.canon() for x in want))
                            elif has_prop is True:
                                want = Num.atom("PROP") * Num.const(fscale) * uf
                                ok = oc.kind == "ok" and oc.value == want
                                wdesc = want.canon()
                            else:
                                ok = oc.kind == "raise" and oc.exc.is_a("CalculationError") and not oc.exc.fault
                                wdesc = "CalculationError"
                            got = I.describe(oc.value) if oc.kind == "ok" else f"raises {oc.exc.name}"
                            ctx.ob(ok, Finding(f"{prop}.{rule}", m.where, f"Adsorbate.{g}|{case}",
                                               f"Adsorbate.{g}({case}): {got}; required {wdesc}",
                                               {"derived": got, "required": wdesc}),
                                   nontrivial_key=("getter", g, case),
                                   sample={"rule": "G-getter", "getter": g, "case": case, "derived": got} if n % 9 == 0 else None)
    ctx.floor("getter cases interpreted", n, 100 if only is None else 10)
    # the pressure route of the vaporisation enthalpy (press=..., no temperature): vapour minus liquid at that pressure - positive
    for g in ("enthalpy_liquefaction", "enthalpy_vaporisation"):
        if only is not None and g not in only:
            continue
        m = ci.find_method(g)
        I = make_interp(model, backend_ok=True)

        def thunk_p(I, g=g):
            ads = Obj(cls=ci, label="adsorbate", attrs={"name": "ADS", "alias": ["ads"], "properties": {"backend_name": "BK"}, "_state": None, "_backend_mode": None})
            return I.call_value(I.getattr_(ads, g, None), [], {"press": Num.atom("PR")}, None)
        want = (Num.atom("CP.hmolar@('CoolProp.PQ_INPUTS', 'PR', '1')") - Num.atom("CP.hmolar@('CoolProp.PQ_INPUTS', 'PR', '0')")) * Num.const(F(1, 1000))
        for oc in I.explore(thunk_p):
            got = I.describe(oc.value) if oc.kind == "ok" else f"raises {oc.exc.name}"
            ctx.ob(oc.kind == "ok" and oc.value == want,
                   Finding(f"{prop}.{rule}", m.where, f"Adsorbate.{g}|press=,backend=ok",
                           f"Adsorbate.{g}(press=PR): {got}; required {want.canon()} (saturated vapour minus saturated liquid at that pressure, in kJ/mol)"),
                   nontrivial_key=("getter", g, "press"))
    if only is None:
        r_getter_history(ctx, model)
        # "mutually consistent at any subcritical temperature": also after any other getter was asked at another temperature or pressure
        # (all ordered pairs of getters, shared with C04 R-state)
        from .C04 import r_state
        r_state(ctx, model, prop=prop, rule=rule)


def r_getter_history(ctx: Ctx, model, prop="C20", rule="G-getter"):
    # history: the backend state is shared between getters; after any other read (another temperature, the other phase, a
    # pressure-based flash) a getter must still answer for the temperature it was asked about
    ctx.rule(f"{rule} (history): after enthalpy_vaporisation(press=...), or another getter at another temperature, every "
             "temperature getter still reads the backend at (its own quality, the requested temperature)")
    ci = model.cls("pygaps.core.adsorbate.Adsorbate")
    I = make_interp(model, backend_ok=True)
    nh = 0
    for g in GETTERS:
        if g in NO_TEMP:
            continue
        for prefix in ("press-flash", "other-temperature", "same-temperature-other-phase", "itself+press-flash", "itself+other-temperature"):
            def thunk(I, g=g, prefix=prefix):
                ads = Obj(cls=ci, label="adsorbate", attrs={"name": "ADS", "alias": ["ads"], "properties": {"backend_name": "BK"},
                                                            "_state": None, "_backend_mode": None})
                other = "gas_density" if g != "gas_density" else "liquid_density"
                steps = prefix.split("+")
                for st in steps:
                    if st == "itself":
                        I.call_value(I.getattr_(ads, g, None), [Num.const(300)], {}, None)
                    elif st == "press-flash":
                        I.call_value(I.getattr_(ads, "enthalpy_vaporisation", None), [], {"press": Num.atom("PR")}, None)
                    elif st == "other-temperature":
                        I.call_value(I.getattr_(ads, other, None), [Num.const(280)], {}, None)
                    else:
                        I.call_value(I.getattr_(ads, "gas_density" if GETTERS[g][1] != "1" else "liquid_density", None), [Num.const(300)], {}, None)
                return I.call_value(I.getattr_(ads, g, None), [Num.const(300)], {}, None)
            for oc in I.explore(thunk):
                nh += 1
                want = expected_backend(g, "300")
                ok = oc.kind == "ok" and oc.value in want
                got = I.describe(oc.value) if oc.kind == "ok" else f"raises {oc.exc.name}"
                ctx.ob(ok, Finding(f"{prop}.{rule}", ci.find_method(g).where, f"Adsorbate.{g}|after:{prefix}",
                                   f"Adsorbate.{g}(T) called after {prefix}: {got}; required {' or '.join(sorted(x.canon() for x in want))} - the "
                                   "answer depends on what was asked before"),
                       nontrivial_key=("getter-history", g, prefix))
    ctx.floor("getter history cases", nh, 20)


def r_lookup(ctx: Ctx, model):
    ctx.rule("G-lookup: __eq__ lower-cases the probe against lower-cased aliases; find() returns the first registry match "
             "or raises ParameterError; BaseIsotherm.adsorbate is set through Adsorbate.find")
    I = make_interp(model)
    ci = model.cls("pygaps.core.adsorbate.Adsorbate")
    # construction: aliases are lower-cased and contain the lower-cased name
    for name, alias, want in (("Nitrogen", None, ["nitrogen"]), ("N2", ["Nitrogen", "N2"], ["nitrogen", "n2"]),
                              ("Xe", "XENON", ["xenon", "xe"])):
        outs = I.explore(lambda I: I.instantiate(ci, [name], {} if alias is None else {"alias": alias}, None))
        ok = len(outs) == 1 and outs[0].kind == "ok" and outs[0].value.attrs.get("alias") == want
        ctx.ob(ok, Finding("C20.G-lookup", ci.methods["__init__"].where, f"Adsorbate.__init__|alias={alias!r}",
                           f"Adsorbate({name!r}, alias={alias!r}) builds aliases {outs[0].value.attrs.get('alias') if outs and outs[0].kind == 'ok' else outs}; required {want}"),
               nontrivial_key=("init", name))
    eq = ci.methods.get("__eq__")
    if eq is None:
        raise AnalysisError("anchor missing: Adsorbate.__eq__")
    ads = lambda: Obj(cls=ci, label="a", attrs={"name": "nitrogen", "alias": ["n2", "nitrogen"], "properties": {}})
    for probe, want in (("N2", True), ("NITROGEN", True), ("nitrogen", True), ("n3", False)):
        outs = I.explore(lambda I: I.call_func(eq, [probe], {}, None, self_obj=ads()))
        ok = len(outs) == 1 and outs[0].kind == "ok" and outs[0].value is want
        ctx.ob(ok, Finding("C20.G-lookup", eq.where, f"Adsorbate.__eq__|{probe}",
                           f"Adsorbate(aliases n2, nitrogen) == {probe!r} evaluates to {outs[0]!r}; required {want}"),
               nontrivial_key=("eq", probe))
    other = Obj(cls=ci, label="b", attrs={"name": "nitrogen", "alias": ["x"], "properties": {}})
    outs = I.explore(lambda I: I.call_func(eq, [other], {}, None, self_obj=ads()))
    ctx.ob(len(outs) == 1 and outs[0].kind == "ok" and outs[0].value is True,
           Finding("C20.G-lookup", eq.where, "Adsorbate.__eq__|object", "two Adsorbate objects with the same name must compare equal"),
           nontrivial_key=("eq", "obj"))
    # find: first match / ParameterError
    find = ci.methods.get("find")
    a1 = Obj(cls=ci, label="a1", attrs={"name": "a1", "alias": ["x", "a1"], "properties": {}})
    a2 = Obj(cls=ci, label="a2", attrs={"name": "a2", "alias": ["y", "a2"], "properties": {}})
    I.const_overrides[("pygaps.data", "ADSORBATE_LIST")] = [a1, a2]
    for probe, want in (("Y", "a2"), ("A1", "a1"), ("zzz", None)):
        outs = I.explore(lambda I: I.call_value(I.getattr_(ClassRef(ci), "find", None), [probe], {}, None))
        if want is None:
            ok = len(outs) == 1 and outs[0].kind == "raise" and outs[0].exc.is_a("ParameterError")
        else:
            ok = len(outs) == 1 and outs[0].kind == "ok" and getattr(outs[0].value, "label", None) == want
        ctx.ob(ok, Finding("C20.G-lookup", find.where, f"Adsorbate.find|{probe}",
                           f"Adsorbate.find({probe!r}) over [a1(x), a2(y)] gives {outs[0]!r}; required {want or 'ParameterError'}"),
               nontrivial_key=("find", probe))
    outs = I.explore(lambda I: I.call_value(I.getattr_(ClassRef(ci), "find", None), [a2], {}, None))
    ctx.ob(len(outs) == 1 and outs[0].kind == "ok" and outs[0].value is a2,
           Finding("C20.G-lookup", find.where, "Adsorbate.find|object", "find(adsorbate) must return the object itself"))
    # the isotherm setter goes through find
    bi = model.cls("pygaps.core.baseisotherm.BaseIsotherm")
    st = bi.setters.get("adsorbate")
    if st is None:
        raise AnalysisError("anchor missing: BaseIsotherm.adsorbate setter")
    iso = Obj(cls=bi, label="iso", attrs={})
    outs = I.explore(lambda I: (I.call_func(st, ["Y"], {}, None, self_obj=iso), iso.attrs.get("_adsorbate"))[1])
    ok = len(outs) == 1 and outs[0].kind == "ok" and getattr(outs[0].value, "label", None) == "a2"
    ctx.ob(ok, Finding("C20.G-lookup", st.where, "BaseIsotherm.adsorbate|resolves-through-find",
                       f"isotherm.adsorbate = 'Y' links {outs[0]!r}; required the registry adsorbate whose alias is 'y'"),
           nontrivial_key=("setter",))


def r_lookup_shapes(ctx: Ctx, model, js):
    """the isotherm's adsorbate setter links the registry adsorbate for every *shape* of shipped name / alias: one representative per
    distinct set of non-alphanumeric characters occurring in the shipped aliases (parentheses, commas, hyphens, blanks, slashes ...),
    as written and upper-cased, over a registry holding the representatives' owners"""
    ctx.rule("G-lookup (shapes): BaseIsotherm.adsorbate = <alias> links the owner of the alias for one representative of every "
             "punctuation shape occurring in the shipped names / aliases, in lower and upper case")
    I = make_interp(model)
    ci = model.cls("pygaps.core.adsorbate.Adsorbate")
    bi = model.cls("pygaps.core.baseisotherm.BaseIsotherm")
    st = bi.setters.get("adsorbate")
    reps = {}
    for a in js:
        for al in [a.get("name")] + list(a.get("alias", [])):
            if isinstance(al, str):
                reps.setdefault(frozenset(ch for ch in al if not ch.isalnum()), (a["name"], al))
    ctx.floor("punctuation shapes among shipped aliases", len(reps), 8)
    owners = {}
    for a in js:
        if a["name"] in {o for o, _ in reps.values()}:
            owners[a["name"]] = Obj(cls=ci, label=a["name"], attrs={"name": a["name"], "alias": [x.lower() for x in a.get("alias", [])] + [a["name"].lower()],
                                                                      "properties": {}})
    I.const_overrides[("pygaps.data", "ADSORBATE_LIST")] = list(owners.values())
    n = 0
    for owner, alias in sorted(reps.values()):
        for probe in (alias, alias.upper()):
            iso = Obj(cls=bi, label="iso", attrs={})
            outs = I.explore(lambda I: (I.call_func(st, [probe], {}, None, self_obj=iso), iso.attrs.get("_adsorbate"))[1])
            n += 1
            got = getattr(outs[0].value, "label", None) if len(outs) == 1 and outs[0].kind == "ok" else repr(outs[:1])
            shape = "".join(sorted(ch for ch in set(alias) if not ch.isalnum())) or "alnum"
            ctx.ob(got == owner, Finding("C20.G-lookup", st.where, f"BaseIsotherm.adsorbate|alias-shape:{shape!r}|{'upper' if probe != alias else 'as-written'}",
                                         f"isotherm.adsorbate = {probe!r} (a shipped alias of '{owner}') links {got!r}; required the shipped adsorbate "
                                         f"'{owner}' - every shipped name / alias must resolve, in any letter case"),
                   nontrivial_key=("setter-shape", shape, probe != alias))
    ctx.analysed["alias shapes probed"] = n


def r_registry(ctx: Ctx):
    """every name or alias designates exactly one adsorbate - also after a stored adsorbate is replaced: adsorbate_to_db(new, overwrite=True)
    leaves the in-memory list with the new object in place of the one it replaces (by name), and a plain upload appends exactly once
    (interpreted on the fault-free paths with a concrete list; membership and removal go through Adsorbate.__eq__)"""
    from .C08 import setup as setup_store
    from .C09 import mk_ads
    ctx.rule("G-registry: after adsorbate_to_db(new, overwrite=True) ADSORBATE_LIST holds `new` and no longer the same-named object it "
             "replaces; after a plain upload it holds the uploaded object once; other entries stay")
    model, mach = setup_store(ctx.root)
    I = mach.I
    I.user_eq = True
    saved, mach.inject = mach.inject, False
    fi = model.func("pygaps.parsing.sqlite.adsorbate_to_db")
    ci = model.cls("pygaps.core.adsorbate.Adsorbate")
    n = 0
    try:
        for ow in (True, False):
            reg = []

            def thunk(I, ow=ow, reg=reg):
                old = Obj(cls=ci, label="old", attrs={"name": "ADS", "alias": ["ads", "oldalias"], "_state": None, "_backend_mode": None, "properties": {"formula": "F"}})
                other = Obj(cls=ci, label="other", attrs={"name": "OTH", "alias": ["oth"], "_state": None, "_backend_mode": None, "properties": {}})
                new = mk_ads(I)
                new.label = "new"
                reg.clear()
                reg.extend([other, old] if ow else [other])
                I.const_overrides[("pygaps.data", "ADSORBATE_LIST")] = reg
                I.call_func(fi, [new], {"db_path": "USER.db", "overwrite": ow, "verbose": False}, None)
                return [x.label for x in reg]
            for oc, trace in mach.explore(thunk):
                if oc.kind != "ok":
                    continue
                n += 1
                ctx.ob(oc.value == ["other", "new"],
                       Finding("C20.G-registry", fi.where, f"adsorbate_to_db|overwrite={ow}|registry={oc.value}",
                               f"adsorbate_to_db(new, overwrite={ow}) with the list holding {['other', 'old (same name)'] if ow else ['other']} leaves "
                               f"{oc.value}; required ['other', 'new']: the name and the aliases must resolve to the uploaded object only"),
                       nontrivial_key=("registry", ow, tuple(c for _, c in oc.decisions)))
    finally:
        mach.inject = saved
    ctx.floor("completed upload paths inspected for the adsorbate registry", n, 4)


def run(ctx: Ctx):
    model = load(ctx.root)
    js = load_json(ctx.root)
    db = load_db(ctx.root)
    ctx.rule("L-unique/L-agree/L-backend/L-const: exhaustive lint of adsorbates.json and default.db")
    r_unique(ctx, js, "adsorbates.json", "src/pygaps/data/adsorbates.json")
    r_unique(ctx, db, "default.db", "src/pygaps/data/default.db")
    r_agree(ctx, js, db)
    r_backend(ctx, js)
    r_lookup(ctx, model)
    r_lookup_shapes(ctx, model, js)
    # the aliases of an adsorbate loaded from a database file: every stored alias row comes back (shared with C08 D-read)
    from .C08 import r_lists, setup as setup_store
    model8, mach = setup_store(ctx.root)
    r_lists(ctx, model8, mach, prop="C20", rule="G-lookup", kinds=("adsorbate",))
    r_getters(ctx, model)
    r_registry(ctx)
    ctx.extra["exhaustive"] = True
    ctx.analysed["adsorbates"] = len(js)


META = {
    "technique": "exhaustive data lint of the shipped adsorbate list and database + abstract interpretation of the "
                 "Adsorbate getters / lookup functions over all backend/property/unit cases",
    "level_text": "Static: all 176 entries x all aliases of both shipped data sources are checked for unique resolution and "
                  "mutual agreement, every backend_name is looked up in CoolProp's own fluid table and the fallback "
                  "constants are compared with the backend's; the lookup functions and all 14 property getters are "
                  "abstractly interpreted over calculate x backend works/fails x property present/absent x unit, "
                  "requiring positioned reads, documented scaling, fallback to the same-named property and "
                  "CalculationError otherwise. The consistency of CoolProp's numbers themselves is not decided.",
    "level_note": "Trusted: CoolProp's fluid table as reference; CoolProp reads depend on the last update(). "
                  "Not decided: thermodynamic identities of CoolProp values (rho = rho_molar*M, monotone p_sat, h_vap > 0).",
}
