"""C06 - JSON export and import are exact inverses.

Decided statically by a *symbolic round trip*: isotherm_to_json is abstractly interpreted on abstract isotherms
(metadata values, data cells and model parameters are opaque tokens; keys are concrete), producing an abstract
JSON document; isotherm_from_json is interpreted on that document; what reaches the isotherm constructor must be
exactly the exported content: every key, every value token, the material dictionary, every data column and cell
(including all-empty columns), branch marks, model class / parameters / ranges / rmse.  Done for the three
isotherm classes x two unit configurations (with None labels) x string and file targets; both targets must carry
the same document.  Plus constructor/to_dict symmetry and model constructor/to_dict symmetry.
Not decided: the json module itself and pandas' DataFrame<->dict conversion on concrete values (trusted),
dtype changes of re-imported columns.
"""
from __future__ import annotations

from ..core import Ctx
from ..roundtrip import RT
from . import _rt_common as rc


def run(ctx: Ctx):
    rt = RT(ctx.root)
    ctx.assume("json.dumps/loads round-trip JSON-representable values; DataFrame.to_dict(orient='index') / from_dict are inverse")
    ctx.rule("RT-roundtrip: symbolic export->import: constructor input == exported content (keys, value tokens, data cells, model)")
    n = rc.run_format(ctx, rt, "C06", "json", ())
    rc.r_to_dict(ctx, rt, "C06")
    rc.r_registered_material(ctx, rt, "C06")
    rc.r_model_dict(ctx, rt, "C06")
    rc.r_model_state(ctx, rt, "C06")
    rc.r_column_order(ctx, rt, "C06")      # a re-imported table arrives with a branch column: the stored layout must not depend on that
    ctx.floor("symbolic JSON round trips", n, 12)
    ctx.analysed["functions"] = ["isotherm_to_json", "isotherm_from_json", "BaseIsotherm.to_dict", "BaseIsotherm.__init__",
                                 "IsothermBaseModel.to_dict/__init__", "model_from_dict", "get_isotherm_model"]


META = {
    "technique": "symbolic document round trip: abstract interpretation of exporter then importer over token-valued "
                 "isotherms; constructor/to_dict symmetry",
    "level_text": "Static: exporter and importer are abstractly interpreted back to back on abstract isotherms of all three "
                  "classes whose values are opaque tokens, so every key, column, branch mark and model field is traced from "
                  "the object through the document into the constructor; any dropped, renamed, rerouted or re-typed item "
                  "is a difference independent of the concrete value. String and file targets must produce the same "
                  "abstract document. This covers arbitrary metadata keys/values in the JSON domain at once.",
    "level_note": "Trusted: json module, pandas to_dict/from_dict. Not decided: dtypes of re-imported columns (pandas version "
                  "dependent), float text representation.",
}
