"""C02 - permanent isotherm conversions stay consistent over any conversion history.

Single-step typestate check by abstract interpretation of PointIsotherm.convert / convert_pressure /
convert_loading / convert_material and BaseIsotherm.convert_temperature on every (label state, call):
  R-data    ok  => pressure / loading column factor == unit(old)/unit(new) of the physical oracle
  R-label   ok  => labels == the requested representation (None = keep), constructor-valid
  R-refuse  an impossible request is refused with a pygaps error and the object is unchanged
            (for convert(): exactly the effect of the steps completed before the refusal)
  R-write   nothing but the two data columns, the labels and the interpolator caches is written;
            branch marks, other columns, metadata, row order are untouched
  R-valid   the checker's notion of a valid state is the one BaseIsotherm.__init__ accepts (interpreted)
History clause: by DESIGN argument A (single step exact + oracle is a potential quotient) every finite
history leaves data = original x unit(start)/unit(final) and conversion back restores it.
Not decided: bit-exact restoration of floats.
"""
from __future__ import annotations

import itertools
import multiprocessing
import os

from ..absint import Arr, Obj, Raised
from ..core import AnalysisError, Ctx, Finding
from ..domain import (LABELS, Oracle, Tables, kelvin, make_interp, mk_adsorbate, mk_material,
                      mk_point_isotherm, normalise)
from ..num import Num
from ..spec_iso import (FRAC, REFUSE, all_states, canon_temperature, factors, mkstate, target_loading,
                        target_material, target_pressure, target_temperature)
from ..srcmodel import load

PI = "pygaps.core.pointisotherm.PointIsotherm"
BI = "pygaps.core.baseisotherm.BaseIsotherm"
UNKNOWN = "bogus"

ALLOWED_WRITES = {"pressure_mode", "pressure_unit", "loading_basis", "loading_unit", "material_basis",
                  "material_unit", "temperature_unit", "_temperature", "l_interpolator", "p_interpolator"}


def cls_arg(v, cur, table):
    if v is None:
        return "None"
    if v == cur:
        return "same"
    if table is not None and v in table:
        return "other"
    if v == UNKNOWN:
        return "unknown"
    return "foreign"


class Engine:
    def __init__(self, root, backend_ok=True):
        self.model = load(root)
        self.I = make_interp(self.model, backend_ok=backend_ok)
        self.t = Tables(self.I)
        self.o = Oracle(self.I, self.t)
        self.backend_ok = backend_ok
        self.f = {n: self.model.func(f"{PI}.{n}") for n in
                  ("convert", "convert_pressure", "convert_loading", "convert_material")}
        self.f["convert_temperature"] = self.model.func(f"{BI}.convert_temperature")
        self._valid_cache = {}

    def fresh(self, s):
        cache = {"l_interpolator": Obj(kind="InterpCache", label="lcache"),
                 "p_interpolator": Obj(kind="InterpCache", label="pcache")}
        return mk_point_isotherm(self.I, s, cache=cache)

    def run(self, method, s, kwargs):
        """returns list of (outcome, final labels, pressure factor, loading factor, iso)"""
        res = []
        holder = {}

        def thunk(I):
            iso = self.fresh(s)
            holder["iso"] = iso
            return I.call_func(self.f[method], [], dict(kwargs), None, self_obj=iso)
        # explore re-runs thunk per path; capture state per path through a wrapper
        outs = []
        work = [[]]
        I = self.I
        from ..absint import NeedChoice, Outcome
        while work:
            dec = work.pop()
            I.reset(dec)
            try:
                try:
                    v = thunk(I)
                    oc = Outcome("ok", value=v)
                except Raised as r:
                    oc = Outcome("raise", exc=r.exc)
            except NeedChoice as nc:
                for i in reversed(range(nc.n)):
                    work.append(dec + [i])
                continue
            oc.decisions = list(I.dlabels)
            oc.writes = list(I.writes)
            iso = holder["iso"]
            labels = {k: iso.attrs.get(k) for k in LABELS}
            fr = iso.attrs["data_raw"]
            res.append((oc, labels, fr, iso))
        return res

    def valid(self, s):
        """constructor validity, by interpreting BaseIsotherm.__init__ on the labels"""
        key = tuple(s[k] for k in LABELS)
        if key in self._valid_cache:
            return self._valid_cache[key]
        I = self.I
        init = self.model.func(f"{BI}.__init__")
        ci = self.model.cls(BI)

        def thunk(I):
            obj = Obj(cls=ci, label="probe")
            I.call_func(init, [], dict(material=mk_material(I), adsorbate=mk_adsorbate(I),
                                       temperature=Num.atom("Tst"), **s), None, self_obj=obj)
            return {k: obj.attrs.get(k) for k in LABELS}
        saved = dict(I.overrides)
        # the name registries are outside the fragment; identity of material / adsorbate is irrelevant here
        I.overrides["pygaps.core.material.Material.find"] = lambda I, fi, env, n: env["name"]
        I.overrides["pygaps.core.adsorbate.Adsorbate.find"] = lambda I, fi, env, n: env["name"]
        try:
            outs = I.explore(thunk)
        finally:
            I.overrides = saved
        if len(outs) != 1:
            raise AnalysisError("BaseIsotherm.__init__ forks on label input")
        oc = outs[0]
        if oc.kind == "ok":
            r = (True, oc.value)
        else:
            r = (False, oc.exc.name)
        self._valid_cache[key] = r
        return r


def check_step(ctx: Ctx, E: Engine, method, s, kwargs, expected, key, fi):
    """expected: REFUSE or the target state dict"""
    I, o = E.I, E.o
    P, L = Num.atom("P"), Num.atom("L")
    call = f"{method}({', '.join(f'{k}={v!r}' for k, v in kwargs.items())}) on " + \
           "/".join(str(s[k]) for k in LABELS)
    results = E.run(method, s, kwargs)
    for oc, labels, fr, iso in results:
        pcol, lcol = fr.cols["pressure"], fr.cols["loading"]
        pn, ln = normalise(I, pcol.num), normalise(I, lcol.num)
        unchanged = (labels == s and pn == P and ln == L)
        # R-write: only allowed attributes / columns written
        for w in oc.writes:
            tgt, name = w[0], w[1]
            if tgt == "iso" and name not in ALLOWED_WRITES:
                ctx.ob(False, Finding("C02.R-write", fi.where, f"{method}|writes:{name}",
                                      f"{call}: writes self.{name}, which is not part of the representation"))
            if tgt == "data_raw" and name not in ("pressure", "loading"):
                ctx.ob(False, Finding("C02.R-write", fi.where, f"{method}|writes-col:{name}",
                                      f"{call}: writes data column '{name}'"))
            if tgt not in ("iso", "data_raw", "cpstate", "adsorbate"):
                ctx.ob(False, Finding("C02.R-write", fi.where, f"{method}|writes-obj:{tgt}.{name}",
                                      f"{call}: writes {tgt}.{name}"))
            if tgt == "adsorbate" and name not in ("_state", "_backend_mode"):
                ctx.ob(False, Finding("C02.R-write", fi.where, f"{method}|writes-obj:{tgt}.{name}",
                                      f"{call}: writes adsorbate.{name}"))
        for col in ("branch", "enthalpy"):
            c = fr.cols[col]
            if c.num != Num.atom({"branch": "B", "enthalpy": "H"}[col]) or c.sel:
                ctx.ob(False, Finding("C02.R-write", fi.where, f"{method}|col-changed:{col}",
                                      f"{call}: column '{col}' altered"))
        if pcol.sel or lcol.sel or pcol.index != "orig" or lcol.index != "orig" or fr.sel:
            ctx.ob(False, Finding("C02.R-write", fi.where, f"{method}|row-order",
                                  f"{call}: stored columns carry a row selection / re-indexing"))
        if expected == REFUSE:
            if oc.kind == "raise":
                ok = oc.exc.is_a("pgError") and not oc.exc.fault
                ctx.ob(ok, Finding("C02.R-refuse", fi.where, f"{method}|{key}|exc={oc.exc.name}",
                                   f"{call}: impossible request ends in {oc.exc.name} "
                                   f"({'Python fault: ' + oc.exc.msg if oc.exc.fault else 'not a pygaps error'})"),
                       nontrivial_key=(method, key, "refuse"))
                ctx.ob(unchanged, Finding("C02.R-refuse", fi.where, f"{method}|{key}|changed-on-refusal",
                                          f"{call}: refused with {oc.exc.name} but the isotherm changed: labels "
                                          f"{labels}, pressure {pn.canon()}, loading {ln.canon()}"),
                       sample={"rule": "R-refuse", "call": call, "outcome": oc.exc.name, "unchanged": unchanged})
            else:
                ctx.ob(False, Finding("C02.R-refuse", fi.where, f"{method}|{key}|accepted",
                                      f"{call}: names no valid target and must be refused, but returns with labels "
                                      f"{'/'.join(str(labels[k]) for k in LABELS)} "
                                      f"(pressure x{(pn / P).canon()}, loading x{(ln / L).canon()})",
                                      {"labels": labels}),
                       nontrivial_key=(method, key, "refuse"))
        else:
            fp, fl = factors(o, s, expected)
            if oc.kind == "ok":
                okl = labels == expected
                ctx.ob(okl, Finding("C02.R-label", fi.where, f"{method}|{key}|labels",
                                    f"{call}: labels afterwards are {'/'.join(str(labels[k]) for k in LABELS)} "
                                    f"but the request names {'/'.join(str(expected[k]) for k in LABELS)}",
                                    {"got": labels, "expected": expected}),
                       nontrivial_key=(method, key, "label"))
                okd = (pn == P * fp) and (ln == L * fl)
                ctx.ob(okd, Finding("C02.R-data", fi.where, f"{method}|{key}|data",
                                    f"{call}: data factors pressure x{(pn / P).canon()}, loading x{(ln / L).canon()} "
                                    f"but the representation change requires x{fp.canon()}, x{fl.canon()}",
                                    {"derived": [pn.canon(), ln.canon()], "required": [(P * fp).canon(), (L * fl).canon()]}),
                       nontrivial_key=(method, key, "data") if (fp != Num.const(1) or fl != Num.const(1)) else None,
                       sample={"rule": "R-data", "call": call, "pressure": pn.canon(), "loading": ln.canon()})
                v, _ = E.valid(labels) if okl else (True, None)
                ctx.ob(v, Finding("C02.R-valid", fi.where, f"{method}|{key}|constructor",
                                  f"{call}: resulting labels are refused by BaseIsotherm.__init__"))
                # caches must be dropped whenever data changed
                if (pn != P or ln != L):
                    okc = iso.attrs.get("l_interpolator") is None and iso.attrs.get("p_interpolator") is None
                    ctx.ob(okc, Finding("C02.R-reset", fi.where, f"{method}|cache-kept",
                                        f"{call}: data changed but an interpolator cache survives"))
            else:
                if E.backend_ok or not (oc.exc.is_a("pgError") and not oc.exc.fault):
                    ctx.ob(False, Finding("C02.R-label", fi.where, f"{method}|{key}|refused-valid:{oc.exc.name}",
                                          f"{call}: a valid request (target {'/'.join(str(expected[k]) for k in LABELS)}) "
                                          f"is refused with {oc.exc.name}{' (Python fault: ' + oc.exc.msg + ')' if oc.exc.fault else ''}"),
                           nontrivial_key=(method, key, "label"))
                else:
                    # constants unavailable: refusal allowed, but nothing may have changed
                    ctx.ob(unchanged, Finding("C02.R-refuse", fi.where, f"{method}|{key}|changed-on-refusal(no-backend)",
                                              f"{call}: adsorbate constants unavailable -> {oc.exc.name}, but the isotherm "
                                              f"was already modified: labels {'/'.join(str(labels[k]) for k in LABELS)}, "
                                              f"loading {ln.canon()}"),
                           nontrivial_key=(method, key, "nobackend"))


def unit_args(cur, table, thorough, foreign):
    out = [None, UNKNOWN, foreign]
    if table is not None:
        ks = list(table)
        out += ks if thorough else [ks[0], ks[-1]]
    if cur is not None and cur not in out:
        out.append(cur)
    return out


def enumerate_calls(t: Tables, thorough):
    """yield (method, relevant-state-projection, kwargs)"""
    pres, load, mat, tus = all_states(t, thorough)
    return pres, load, mat, tus


def work_pressure(E, ctx, thorough, states):
    t = E.t
    fi = E.f["convert_pressure"]
    pres, load, mat, tus = states
    n = 0
    for p in pres:
        for tu in tus:
            s = mkstate(p, load[0], mat[0], tu)
            for mode_to in [None] + list(t.pressure_mode) + [UNKNOWN]:
                for unit_to in unit_args(p[1], t.pressure, thorough, "g"):
                    exp = target_pressure(t, s, mode_to, unit_to)
                    key = f"{p[0]}->{cls_arg(mode_to, p[0], t.pressure_mode) if mode_to in (None, UNKNOWN) or mode_to == p[0] else mode_to}|unit_to={cls_arg(unit_to, p[1], t.pressure)}"
                    check_step(ctx, E, "convert_pressure", s, {"mode_to": mode_to, "unit_to": unit_to}, exp, key, fi)
                    n += 1
    return n


def work_loading(E, ctx, thorough, states, shard=None):
    t = E.t
    fi = E.f["convert_loading"]
    pres, load, mat, tus = states
    n = 0
    combos = [(l, m, tu) for l in load for m in mat for tu in (tus if not thorough else tus[:1])]
    if shard is not None:
        combos = combos[shard[0]::shard[1]]
    for l, m, tu in combos:
        s = mkstate(pres[0], l, m, tu)
        for basis_to in [None] + list(t.loading_mode) + [UNKNOWN]:
            b_eff = basis_to or l[0]
            tab = t.loading_table(b_eff) if b_eff in t.loading_mode else None
            for unit_to in unit_args(l[1], tab, thorough, "Pa"):
                exp = target_loading(t, s, basis_to, unit_to)
                key = (f"{l[0]}->{'None' if basis_to is None else 'same' if basis_to == l[0] else basis_to}"
                       f"|unit_to={cls_arg(unit_to, l[1], tab)}|mat={m[0]}")
                check_step(ctx, E, "convert_loading", s, {"basis_to": basis_to, "unit_to": unit_to}, exp, key, fi)
                n += 1
    return n


def work_material(E, ctx, thorough, states, shard=None):
    t = E.t
    fi = E.f["convert_material"]
    pres, load, mat, tus = states
    n = 0
    combos = [(l, m, tu) for l in load for m in mat for tu in (tus if not thorough else tus[:1])]
    if shard is not None:
        combos = combos[shard[0]::shard[1]]
    for l, m, tu in combos:
        s = mkstate(pres[0], l, m, tu)
        for basis_to in [None] + list(t.material_mode) + [UNKNOWN, "fraction"]:
            b_eff = basis_to or m[0]
            tab = t.material_table(b_eff) if b_eff in t.material_mode else None
            for unit_to in unit_args(m[1], tab, thorough, "Pa"):
                exp = target_material(t, s, basis_to, unit_to)
                lcls = "frac" if l[0] in FRAC else "phys"
                key = (f"{m[0]}->{'None' if basis_to is None else 'same' if basis_to == m[0] else basis_to}"
                       f"|unit_to={cls_arg(unit_to, m[1], tab)}|loading={lcls}")
                check_step(ctx, E, "convert_material", s, {"basis_to": basis_to, "unit_to": unit_to}, exp, key, fi)
                n += 1
    return n


def work_temperature(E, ctx, states):
    t = E.t
    fi = E.f["convert_temperature"]
    pres, load, mat, tus = states
    n = 0
    I = E.I
    kel = Num.const(__import__("fractions").Fraction("273.15"))
    for tu in tus:
        for p in pres[:3]:
            s = mkstate(p, load[0], mat[0], tu)
            for unit_to in ["K", "°C", "C", "degC", "c", None, UNKNOWN, "F"]:
                exp = target_temperature(t, s, unit_to)
                key = f"{tu}->{canon_temperature(unit_to) if exp != REFUSE else cls_arg(unit_to, tu, t.temperature)}|alias={unit_to not in t.temperature and exp != REFUSE}"
                res = E.run("convert_temperature", s, {"unit_to": unit_to})
                n += 1
                for oc, labels, fr, iso in res:
                    tst = iso.attrs["_temperature"]
                    if exp == REFUSE:
                        ok = oc.kind == "raise" and oc.exc.is_a("pgError") and not oc.exc.fault \
                            and labels == s and tst == Num.atom("Tst")
                        ctx.ob(ok, Finding("C02.R-refuse", fi.where, f"convert_temperature|{key}",
                                           f"convert_temperature({unit_to!r}) on {tu}: must be refused unchanged, got {oc!r} labels {labels['temperature_unit']!r}"),
                               nontrivial_key=("convert_temperature", key))
                    else:
                        want = Num.atom("Tst") if exp["temperature_unit"] == tu else \
                            (Num.atom("Tst") - kel if exp["temperature_unit"] == "°C" else Num.atom("Tst") + kel)
                        okd = oc.kind == "ok" and tst == want
                        ctx.ob(okd, Finding("C02.R-data", fi.where, f"convert_temperature|{key}|data",
                                            f"convert_temperature({unit_to!r}) on {tu}: stored temperature becomes "
                                            f"{I.describe(tst)}, required {want.canon()}"),
                               nontrivial_key=("convert_temperature", key, "data"))
                        okl = oc.kind == "ok" and labels == exp
                        ctx.ob(okl, Finding("C02.R-label", fi.where, f"convert_temperature|{key}|labels",
                                            f"convert_temperature({unit_to!r}) on {tu}: temperature_unit label becomes "
                                            f"{labels['temperature_unit']!r}, which "
                                            f"{'the constructor refuses' if not E.valid(labels)[0] else 'differs from the target'}; "
                                            f"required {exp['temperature_unit']!r}"),
                               nontrivial_key=("convert_temperature", key, "label"))
                        # the kelvin property must be invariant
                        if oc.kind == "ok" and okl:
                            outs = I.explore(lambda I: I.getattr_(iso, "temperature", None))
                            okk = all(o2.kind == "ok" and o2.value == kelvin(tu) for o2 in outs)
                            ctx.ob(okk, Finding("C02.R-data", fi.where, f"convert_temperature|{key}|kelvin",
                                                f"temperature (K) changes under convert_temperature({unit_to!r})"))
    return n


def work_convert(E, ctx, thorough, states, shard=None):
    """combined convert(): order pressure -> material -> loading; refusal keeps completed steps"""
    t = E.t
    fi = E.f["convert"]
    pres, load, mat, tus = states
    n = 0
    p_args = [(None, None), ("relative", None), (None, "kPa"), ("absolute", "Pa"), (UNKNOWN, None), ("absolute", None)]
    m_args = [(None, None), ("volume", "cm3"), (None, "kg"), ("molar", None), (None, UNKNOWN)]
    l_args = [(None, None), ("mass", "g"), (None, "mol"), ("fraction", None), ("mass", None), ("volume_liquid", "cm3")]
    pres_s = pres if thorough else pres[:1] + pres[-2:-1]
    load_s = load if thorough else list({l[0]: l for l in load}.values())
    combos = [(p, l, m) for p in pres_s for l in load_s for m in (mat if thorough else mat[::3])]
    if shard is not None:
        combos = combos[shard[0]::shard[1]]
    for p, l, m in combos:
        if True:
            if True:
                s = mkstate(p, l, m, tus[0])
                for pa, ma, la in itertools.product(p_args, m_args, l_args):
                    kwargs = {"pressure_mode": pa[0], "pressure_unit": pa[1], "material_basis": ma[0],
                              "material_unit": ma[1], "loading_basis": la[0], "loading_unit": la[1]}
                    # expected: sequential composition, stopping at the first refusal
                    cur = dict(s)
                    refused_at = None
                    for step, (a, b), fn in (("pressure", pa, target_pressure), ("material", ma, target_material),
                                             ("loading", la, target_loading)):
                        if not (a or b):
                            continue
                        nxt = fn(t, cur, a, b)
                        if nxt == REFUSE:
                            refused_at = step
                            break
                        cur = nxt
                    check_convert(ctx, E, s, kwargs, cur, refused_at, fi)
                    n += 1
    return n


def check_convert(ctx, E, s, kwargs, exp, refused_at, fi):
    I, o = E.I, E.o
    P, L = Num.atom("P"), Num.atom("L")
    call = f"convert({', '.join(f'{k}={v!r}' for k, v in kwargs.items() if v is not None)}) on " + \
           "/".join(str(s[k]) for k in LABELS)
    key = "steps=" + ",".join(k.split("_")[0] for k, v in kwargs.items() if v is not None) + f"|refused_at={refused_at}"
    fp, fl = factors(o, s, exp)
    for oc, labels, fr, iso in E.run("convert", s, kwargs):
        pn, ln = normalise(I, fr.cols["pressure"].num), normalise(I, fr.cols["loading"].num)
        state_ok = labels == exp and pn == P * fp and ln == L * fl
        if refused_at is None:
            ok = oc.kind == "ok" and state_ok
            msg = "valid combined request"
        else:
            ok = oc.kind == "raise" and oc.exc.is_a("pgError") and not oc.exc.fault and state_ok
            msg = f"refusal expected at the {refused_at} step, earlier steps kept"
        ctx.ob(ok, Finding("C02.R-order", fi.where, f"convert|{key}",
                           f"{call}: {msg}; got {'ok' if oc.kind == 'ok' else oc.exc.name} with labels "
                           f"{'/'.join(str(labels[k]) for k in LABELS)}, pressure x{(pn / P).canon()}, "
                           f"loading x{(ln / L).canon()}; required labels {'/'.join(str(exp[k]) for k in LABELS)}, "
                           f"x{fp.canon()}, x{fl.canon()}"),
               nontrivial_key=("convert", key),
               sample={"rule": "R-order", "call": call, "labels": "/".join(str(labels[k]) for k in LABELS)})


def _shard_worker(args):
    root, tier, kind, shard, backend_ok = args
    thorough = tier == "thorough"
    ctx = Ctx("C02", tier=tier, root=root)
    E = Engine(root, backend_ok=backend_ok)
    states = all_states(E.t, thorough and backend_ok, tunits=("K", "°C") if backend_ok else ("K",))
    th = thorough and backend_ok
    if kind == "loading":
        n = work_loading(E, ctx, th, states, shard)
    elif kind == "material":
        n = work_material(E, ctx, th, states, shard)
    elif kind == "pressure":
        n = work_pressure(E, ctx, th, states)
    elif kind == "temperature":
        n = work_temperature(E, ctx, states)
    elif kind == "convert":
        n = work_convert(E, ctx, th, states, shard)
    elif kind == "valid":
        n = 0
        pres, load, mat, tus = states
        for p, l, m, tu in list(itertools.product(pres, load, mat, tus))[shard[0]::shard[1]]:
            s = mkstate(p, l, m, tu)
            ok, lab = E.valid(s)
            ctx.ob(ok and lab == s, Finding("C02.R-valid", E.model.func(f"{BI}.__init__").where, "start-state",
                                            f"the constructor does not accept the supported state {s} unchanged: {lab}"))
            ctx.extra["states"] = ctx.extra.get("states", 0) + 1
    else:
        raise AssertionError(kind)
    return (n, ctx.obligations, ctx.discharged, [(f.rule, f.where, f.key, f.message, f.detail) for f in ctx.findings],
            list(ctx._nontrivial), ctx.samples[:2], ctx.extra.get("states", 0),
            [f.qualname for f in E.f.values()])


def temperature_rules_for(ctx, prop, label):
    """convert_temperature interpreted on behalf of another property: findings re-labelled <prop>.<label> (used by C05: the unit label
    a conversion leaves behind is part of the identifier, so every spelling of the target must leave the canonical label)"""
    r = _shard_worker((str(ctx.root), "quick", "temperature", None, True))
    n, ob, di, fs = r[0], r[1], r[2], r[3]
    ctx.obligations += ob
    ctx.evaluations += ob
    ctx.discharged += di
    for (rule, where, key, message, detail) in fs:
        ctx.add(Finding(f"{prop}.{label}", where, key, message, detail))
    ctx._nontrivial.update(("c02",) + tuple(x) if isinstance(x, tuple) else ("c02", x) for x in r[4])
    ctx.floor("convert_temperature cases interpreted", n, 10)


def cache_reset_for(ctx, prop, label):
    """the R-reset clause on behalf of another property: convert_pressure / convert_loading / convert_material interpreted on isotherms
    that hold cached interpolators - whenever a conversion changed the stored numbers (also a unit-only one) both caches are gone afterwards.
    Findings re-labelled <prop>.<label>; the other clauses of C02 found on the way are C02's to report."""
    n = 0
    for kind, shard in (("pressure", None), ("loading", (0, 6)), ("material", (0, 6))):
        r = _shard_worker((str(ctx.root), "quick", kind, shard, True))
        n += r[0]
        mine = [f for f in r[3] if f[0] == "C02.R-reset"]
        ctx.obligations += r[0]
        ctx.evaluations += r[0]
        ctx.discharged += r[0] - len(mine)
        for (rule, where, key, message, detail) in mine:
            ctx.add(Finding(f"{prop}.{label}", where, key, message + " - interpolated reads (loading_at / pressure_at) would keep answering with "
                            "the numbers of the old representation", detail))
    ctx._nontrivial.add(("c02-reset", prop))
    ctx.floor("permanent conversions interpreted with cached interpolators", n, 60)


def run(ctx: Ctx):
    thorough = ctx.tier == "thorough"
    load(ctx.root)      # anchors / parse errors surface here, in the parent
    Engine(ctx.root)
    ctx.assume("CoolProp returns SI quantities; rhomass = rhomolar*M")
    ctx.assume("pandas column assignment replaces exactly the named column and keeps the row order")
    ctx.rule("R-data/R-label/R-refuse/R-write/R-order/R-valid: abstract interpretation of convert, "
             "convert_pressure, convert_loading, convert_material, convert_temperature on every (label state, call)")
    jobs = max(1, ctx.jobs)
    k = jobs if thorough else min(jobs, 5)
    root, tier = str(ctx.root), ctx.tier
    tasks = [(root, tier, "pressure", None, True), (root, tier, "temperature", None, True)]
    for kind in ("loading", "material", "convert", "valid"):
        tasks += [(root, tier, kind, (i, k), True) for i in range(k)]
    # constants unavailable: refusal must leave the object untouched (R-refuse under a failing backend)
    tasks += [(root, tier, kind, None, False) for kind in ("loading", "material", "pressure")]
    n = 0
    nstates = 0
    results = []
    if jobs > 1:
        with multiprocessing.Pool(min(jobs, len(tasks))) as pool:
            results = list(pool.imap_unordered(_shard_worker, tasks))
    else:
        results = [_shard_worker(t) for t in tasks]
    for (kk, ob, di, fs, nt, sm, ns, fns) in results:
        n += kk
        nstates += ns
        ctx.obligations += ob
        ctx.evaluations += ob
        ctx.discharged += di
        for f in fs:
            ctx.add(Finding(*f))
        ctx._nontrivial.update(nt)
        for s_ in sm:
            if len(ctx.samples) < 12:
                ctx.samples.append(s_)
        ctx.analysed["functions"] = fns + [f"{BI}.__init__", f"{BI}.temperature"]
    ctx.extra["states"] = nstates
    ctx.extra["transitions"] = n
    ctx.extra["exhaustive"] = thorough
    ctx.floor("abstract (state, call) transitions", n, 3000)
    ctx.floor("label states accepted by the constructor", nstates, 100)


META = {
    "technique": "typestate by abstract interpretation of the convert_* methods over all label states, checked "
                 "against a representation-target specification and the physical-unit oracle",
    "level_text": "Static: each of convert/convert_pressure/convert_loading/convert_material/convert_temperature is "
                  "abstractly interpreted on every label state (quick: two unit names per table, thorough: all "
                  "10x27x19 states) and every call shape (None / same / other / foreign / unknown arguments; a "
                  "failing thermodynamic backend); the derived data factor, final labels, write set and refusal "
                  "behaviour are compared with the specification. Histories follow by induction (single step exact "
                  "+ oracle is a potential quotient), which no finite set of tests gives.",
    "level_note": "Trusted: CoolProp SI outputs; pandas column assignment semantics. Not decided: float rounding of "
                  "products over a history.",
}
