"""C07 - CSV, Excel and AIF round trips preserve the isotherm.

Decided statically by symbolic round trips (see C06 / pgverif/docsim.py) through abstract CSV text (lines of
concrete keys + value tokens, data table token), an abstract Excel cell grid (row/column offsets are folded
constants) and an abstract CIF block (tags, loops): what reaches the constructor must equal the exported content
for the three classes x two unit configurations (with None labels, material properties, falsy values) x targets.
Additional rules: data written with exactly one rounding to _PARSER_PRECISION and no lossy float format;
string and file targets carry the same document; malformed CSV metadata lines are refused with ParsingError.
Not decided: behaviour of pandas/gemmi/xlrd/xlwt on concrete values, text spellings outside each format's value
domain, compatibility with the installed pandas version.
"""
from __future__ import annotations

from ..absint import Obj
from ..core import Ctx, Finding
from ..roundtrip import RT
from . import _rt_common as rc


def r_refuse(ctx: Ctx, rt: RT):
    ctx.rule("RT-refuse: a CSV metadata line with more than two fields is refused with ParsingError")
    I = rt.I
    rf = rt.model.func("pygaps.parsing.csv.isotherm_from_csv")

    def thunk(I):
        doc = Obj(kind="Text", label="text", attrs={"lines": ["material,a,b\n", "adsorbate,N2\n"]})
        return I.call_func(rf, [doc], {}, None)
    for oc, cons in rt.explore(thunk):
        ok = oc.kind == "raise" and oc.exc.is_a("ParsingError")
        ctx.ob(ok, Finding("C07.RT-refuse", rf.where, "csv|malformed-line",
                           f"a metadata line 'material,a,b' is not refused with ParsingError: {oc!r}"), nontrivial_key=("refuse", "csv"))


def r_cast(ctx: Ctx, rt):
    """the text -> value sniffing used by the CSV and AIF importers, interpreted for real (the round-trip rule above treats it as
    the inverse of str()): conversions are instrumented so that the *route* a number takes is visible - an integer must be built
    by int(text) directly; int(float(text)) silently changes integers above 2**53"""
    ctx.rule("RT-cast: cast_string(str(v)) == v on the value domain: digits -> int(text) (not via float), decimal / exponent text -> "
             "float(text), True/False/None spellings -> the constants, '[..]' -> list, any other text unchanged")
    from ..domain import make_interp
    from ..absint import Obj as _Obj
    model = rt.model
    fi = model.func("pygaps.utilities.string_utilities.cast_string")
    I = make_interp(model)

    def conv(kind):
        def f(I, a, k, n):
            v = a[0]
            if isinstance(v, str):
                try:
                    (int if kind == "int" else float)(v)
                except ValueError:
                    raise I.fault("ValueError", n, f"invalid literal for {kind}(): {v!r}")
                return _Obj(kind="Conv", label=f"{kind}({v!r})", attrs={"route": (kind, v)})
            if isinstance(v, _Obj) and v.kind == "Conv":
                return _Obj(kind="Conv", label=f"{kind}({v.label})", attrs={"route": (kind,) + v.attrs["route"]})
            return v
        return f
    I.ext["builtins.int"] = conv("int")
    I.ext["builtins.float"] = conv("float")
    import ast as _a
    I.ext["ast.literal_eval"] = lambda I, a, k, n: I.from_py(_a.literal_eval(a[0])) if isinstance(a[0], str) else a[0]
    cases = {"12": ("int", "12"), "9007199254740993": ("int", "9007199254740993"), "0": ("int", "0"), "1.5": ("float", "1.5"),
             "1e-07": ("float", "1e-07"), "-2.5": ("float", "-2.5"), "True": True, "False": False, "None": None, "": None,
             "hello world": "hello world", "N2": "N2", "1.2.3": "1.2.3",
             # plain text that merely resembles a special spelling (substring / prefix / other case pattern of none, true, false, nan)
             "no": "no", "on": "on", "one": "one", "NE": "NE", "N": "N", "non": "non", "tru": "tru", "rue": "rue", "Fals": "Fals", "als": "als",
             "e": "e", "none of these": "none of these", "true north": "true north", "x": "x", "+": "+", "-": "-", ".": ".", "1e": "1e", "e5": "e5"}
    for text, want in cases.items():
        outs = I.explore(lambda I: I.call_func(fi, [text], {}, None))
        got = None
        ok = len(outs) == 1 and outs[0].kind == "ok"
        if ok:
            v = outs[0].value
            got = v.attrs["route"] if isinstance(v, _Obj) and v.kind == "Conv" else v
            ok = got == want and type(got) is type(want)
        ctx.ob(ok, Finding("C07.RT-cast", fi.where, f"cast_string|{text!r}",
                           f"cast_string({text!r}) yields {got!r} (conversion route shown for numbers); required {want!r}"
                           + (" - an integer must be parsed by int(text); through float() integers above 2**53 come back changed"
                              if isinstance(want, tuple) and want[0] == "int" else "")),
               nontrivial_key=("cast", text))
    outs = I.explore(lambda I: I.call_func(fi, ["[1 2 3]"], {}, None))
    ctx.ob(len(outs) == 1 and outs[0].kind == "ok" and isinstance(outs[0].value, list) and len(outs[0].value) == 3,
           Finding("C07.RT-cast", fi.where, "cast_string|list", f"cast_string('[1 2 3]') yields {outs[0]!r}; required a 3-element list"),
           nontrivial_key=("cast", "list"))
    # the writer's half of the pair: _to_string spells a list / tuple of numbers the way the reader's '[..]' rule (and the model-range
    # lines, read through _from_list) expects, and spells everything as text
    ts = model.func("pygaps.utilities.string_utilities._to_string")
    I2 = make_interp(model)
    for val, want in ((["1", "2", "3"], "[1 2 3]"), (("1", "2"), "(1 2)"), (["7"], "[7]"), ("abc", "abc")):
        outs = I2.explore(lambda I: I.call_func(ts, [I.from_py(val)], {}, None))
        got = outs[0].value if len(outs) == 1 and outs[0].kind == "ok" else outs
        ctx.ob(got == want, Finding("C07.RT-cast", ts.where, f"_to_string|{val!r}",
                                    f"_to_string({val!r}) yields {got!r}; the importers read {want!r} (space-separated items inside the brackets)"),
               nontrivial_key=("tostring", repr(val)))


def run(ctx: Ctx):
    rt = RT(ctx.root)
    ctx.assume("pandas to_csv/read_csv, xlwt/xlrd and gemmi carry in-domain scalar values unchanged")
    ctx.rule("RT-roundtrip: symbolic export->import for CSV, Excel, AIF: constructor input == exported content")
    n = 0
    n += rc.run_format(ctx, rt, "C07", "csv", (("round", "8"),))
    n += rc.run_format(ctx, rt, "C07", "excel", None)
    n += rc.run_format(ctx, rt, "C07", "aif", None)
    rc.r_branch_canon(ctx, rt, "C07")
    rc.r_model_state(ctx, rt, "C07")
    rc.r_column_order(ctx, rt, "C07")      # a re-imported table arrives with a branch column: the stored layout must not depend on that
    r_refuse(ctx, rt)
    r_cast(ctx, rt)
    # AIF: every data loop of the exported document carries exactly one rounding, to the documented precision (read off the
    # abstract CIF document - independent of how the writer spells its loops)
    wf = rt.model.func("pygaps.parsing.aif.isotherm_to_aif")
    rt.branch_pattern = "two"
    loops = 0
    for oc, cons, orig, iso, doc in rt.roundtrip("pygaps.parsing.aif.isotherm_to_aif", "pygaps.parsing.aif.isotherm_from_aif", "point", "abs-molar-K",
                                                 "file", path_ext=".aif"):
        if isinstance(doc, Obj) and doc.kind == "CifDoc":
            for it in doc.attrs["block"].attrs["items"]:
                if it[0] == "loop":
                    loops += 1
                    tg = tuple(t for t in it[1].attrs.get("value_tags", ()) if t[0] == "round")
                    ctx.ob(tg == (("round", "8"),), Finding("C07.RT-precision", wf.where, f"aif|loop-rounding:{it[1].attrs['prefix']}:{tg}",
                                                             f"the {it[1].attrs['prefix']} loop of the AIF document is written with rounding {tg or 'none'}; "
                                                             "the documented precision is one rounding to 8 decimals"),
                           nontrivial_key=("aif-round", it[1].attrs["prefix"]))
    ctx.floor("AIF data loops inspected", loops, 2)
    prec = rt.I.global_value("pygaps.parsing", "_PARSER_PRECISION")
    ctx.ob(prec == 8, Finding("C07.RT-precision", "src/pygaps/parsing/__init__.py", f"_PARSER_PRECISION={rt.I.describe(prec)}",
                              "the documented precision of the tabular formats is 8 decimals"), nontrivial_key=("prec",))
    ctx.floor("symbolic CSV/Excel/AIF round trips", n, 30)
    ctx.analysed["functions"] = ["isotherm_to_csv/from_csv", "isotherm_to_xl/from_xl", "isotherm_to_aif/from_aif", "cast_string",
                                 "_to_string", "_from_list"]


META = {
    "technique": "symbolic document round trips over abstract CSV text, Excel cell grid and CIF block; precision and refusal rules",
    "level_text": "Static: each exporter/importer pair is abstractly interpreted back to back on token-valued isotherms; keys, "
                  "tags, section markers, prefix slices (key[8:], key[12:]), row/column offsets and branch encodings are "
                  "concrete in the source and therefore decided exactly; values travel as tokens, so a dropped falsy value, a "
                  "re-typed number, a mis-sliced tag or a wrong cell offset shows up for all values at once.",
    "level_note": "Trusted: pandas/gemmi/xlrd/xlwt carry in-domain scalars unchanged. Not decided: spellings outside each "
                  "format's value domain, pandas-version specific API (errors='ignore'), whole-file equality on concrete data.",
}
