"""C09 - database operations are atomic under statement failures and process death.

Decided on abstract SQL traces (engine E5, pgverif/txn.py): every public write operation of
parsing/sqlite.py is abstractly interpreted through the real `with_connection` decorator, with one injected
fault {IntegrityError, InterfaceError, OperationalError} at every statement position (and none), for
every abstract database answer (row found / absent, property type known / unknown).  Rules per path:
  T-conn    exactly one connection, opened on the caller's file, default (deferred, journalled) transaction mode
  T-pragma  `PRAGMA foreign_keys = ON` first; no other PRAGMA, no executescript
  T-commit  success: exactly one commit, after the last statement, then close; failure: no commit, close
            (=> a process death at any statement position leaves an uncommitted transaction, which SQLite discards)
  T-nest    every statement of the operation, including nested auto-inserts, runs on that one connection
  T-swallow a failed write statement never ends in a successful (committed) operation
  T-order   a parent row is deleted only after the rows that reference its primary key
  T-absent  deleting / overwriting an absent item is refused before any write
  T-registry no write of an operation is decided by membership in an in-memory registry (which no rollback restores)
Not decided: behaviour of SQLite itself under real crashes / I/O errors (trusted: atomic commit, close discards).
"""
from __future__ import annotations

import ast
import re

from ..absint import Arr, Frame, Obj, Opaque, UnknownBool
from ..core import AnalysisError, Ctx, Finding
from ..domain import mk_material
from ..num import Num
from ..srcmodel import load
from ..txn import FAULTS, SQLITE, WRITE_KINDS, SqlMachine, install_decorator, wrapper_of

LABELS_OK = {"pressure_mode": "absolute", "pressure_unit": "bar", "loading_basis": "molar", "loading_unit": "mmol",
             "material_basis": "mass", "material_unit": "g", "temperature_unit": "K"}


def setup_machine(root, inject=True):
    model = load(root)
    mach = SqlMachine(model, inject_faults=inject)
    I = mach.I
    install_decorator(mach)
    I.const_overrides[("pygaps.data", "DATABASE")] = "DEFAULT.db"

    def registry(name):
        return Obj(kind="Registry", label=name, attrs={})
    I.const_overrides[("pygaps.data", "MATERIAL_LIST")] = registry("MATERIAL_LIST")
    I.const_overrides[("pygaps.data", "ADSORBATE_LIST")] = registry("ADSORBATE_LIST")
    I.libmeth[("Registry", "__contains__")] = lambda I, v, a, k, n: (mach.ev("registry-read", v.label), UnknownBool(f"in {v.label}"))[1]

    def reg_mut(op):
        def f(I, v, a, k, n):
            mach.ev("registry-write", v.label, op, getattr(n, "lineno", None))
            return None
        return f
    for op in ("append", "remove", "extend", "pop", "clear", "insert"):
        I.libmeth[("Registry", op)] = reg_mut(op)
    I.libmeth[("Registry", "__iter__")] = lambda I, v, a, k, n: []
    I.overrides["pygaps.utilities.hashgen.isotherm_to_hash"] = lambda I, fi, env, n: "ISOID"
    I.libattr[("Arr", "empty")] = lambda I, v, n: False      # data emptiness is irrelevant to the transaction shape

    def signature(I, a, k, n):
        from ..absint import FuncRef
        f = a[0]
        if not isinstance(f, FuncRef):
            I.err(n, "inspect.signature of a non-function")
        ar = f.fi.node.args
        names = [x.arg for x in ar.posonlyargs + ar.args + ar.kwonlyargs]
        return Obj(kind="Signature", label="signature", attrs={"parameters": {p: None for p in names}})
    I.ext["inspect.signature"] = signature
    return model, mach


def mk_ads(I, small=False, empty=False):
    ci = I.model.cls("pygaps.core.adsorbate.Adsorbate")
    props = {} if empty else {"formula": "F"} if small else {"formula": "F", "molar_mass": Num.atom("mm")}
    return Obj(cls=ci, label="adsorbate", attrs={"name": "ADS", "alias": ["ads"] if small else ["ads", "a2"], "_state": None,
                                                 "_backend_mode": None, "properties": props})


def mk_mat(I, small=False, empty=False):
    ci = I.model.cls("pygaps.core.material.Material")
    props = {} if empty else {"density": Num.atom("d")} if small else {"density": Num.atom("d"), "tags": ["t1", "t2"]}
    return Obj(cls=ci, label="material", attrs={"name": "MAT", "properties": props})


def mk_iso(I, kind):
    attrs = dict(LABELS_OK)
    attrs.update({"_temperature": Num.atom("T"), "_adsorbate": mk_ads(I, small=True), "_material": mk_mat(I, small=True),
                  "properties": {"user": "me", "flag": True}})
    if kind == "point":
        ci = I.model.cls("pygaps.core.pointisotherm.PointIsotherm")
        attrs.update({"data_raw": Frame({"pressure": Arr(Num.atom("P")), "loading": Arr(Num.atom("L")),
                                         "branch": Arr(Num.atom("B")), "enthalpy": Arr(Num.atom("H"))}, label="data_raw"),
                      "pressure_key": "pressure", "loading_key": "loading", "l_interpolator": None, "p_interpolator": None})
    elif kind == "model":
        ci = I.model.cls("pygaps.core.modelisotherm.ModelIsotherm")
        attrs.update({"model": Obj(kind="ModelStub", label="model", attrs={"name": "Henry"}), "branch": "ads"})
        I.libmeth[("ModelStub", "to_dict")] = lambda I, v, a, k, n: {"name": "Henry"}
    else:
        ci = I.model.cls("pygaps.core.baseisotherm.BaseIsotherm")
    return Obj(cls=ci, label="iso", attrs=attrs)


def operations(model):
    """(FuncInfo, list of (description, thunk-args builder))"""
    m = model.module(SQLITE)
    ops = []
    for name, fi in m.functions.items():
        if "with_connection" in fi.decorators and re.search(r"(_to_db|_delete_db)$", name):
            ops.append(fi)
    return ops


def variants(fi, I):
    n = fi.name
    P = "USER.db"
    if n in ("adsorbate_to_db", "material_to_db"):
        mk = mk_ads if n.startswith("adsorbate") else mk_mat
        for ow in (False, True):
            for ai in (True, False):
                yield f"overwrite={ow},autoinsert_properties={ai}", (lambda mk=mk, ow=ow, ai=ai: ([mk(I)], {"db_path": P, "overwrite": ow, "autoinsert_properties": ai, "verbose": False}))
        # an item without any property (overwriting with it must still clear the stored ones)
        for ow in (False, True):
            yield f"no-properties,overwrite={ow}", (lambda mk=mk, ow=ow: ([mk(I, empty=True)], {"db_path": P, "overwrite": ow, "verbose": False}))
    elif n in ("adsorbate_delete_db", "material_delete_db"):
        mk = mk_ads if n.startswith("adsorbate") else mk_mat
        yield "object", (lambda mk=mk: ([mk(I)], {"db_path": P, "verbose": False}))
        yield "name", (lambda: (["NAME"], {"db_path": P, "verbose": False}))
    elif n.endswith("type_to_db"):
        for ow in (False, True):
            yield f"overwrite={ow}", (lambda ow=ow: ([{"type": "t", "unit": "u", "description": "d"}], {"db_path": P, "overwrite": ow, "verbose": False}))
    elif n.endswith("type_delete_db"):
        yield "name", (lambda: (["t"], {"db_path": P, "verbose": False}))
    elif n == "isotherm_to_db":
        for kind in ("point", "model", "base"):
            for am, aa in ((True, True), (False, False), (True, False)):
                yield f"{kind},autoinsert_material={am},autoinsert_adsorbate={aa}", (
                    lambda kind=kind, am=am, aa=aa: ([mk_iso(I, kind)], {"db_path": P, "autoinsert_material": am, "autoinsert_adsorbate": aa, "verbose": False}))
    elif n == "isotherm_delete_db":
        yield "id", (lambda: (["ISOID"], {"db_path": P, "verbose": False}))
        yield "object", (lambda: ([mk_iso(I, "base")], {"db_path": P, "verbose": False}))
    else:
        raise AnalysisError(f"new public write operation {n}: add its abstract inputs to pgverif/props/C09.py")


def child_tables(tables):
    """parent table -> child tables whose FK references the parent's primary key"""
    out = {}
    for t in tables.values():
        for col, ref, refcol in t.fks:
            if ref in tables and tables[ref].columns.get(refcol, {}).get("pk"):
                out.setdefault(ref, set()).add(t.name)
    return out


def check_trace(ctx: Ctx, fi, vdesc, oc, trace, children, expected_path="USER.db"):
    op = fi.name
    where = fi.where
    sqls = [e for e in trace if e[0] == "sql"]
    writes = [e for e in sqls if e[1] in WRITE_KINDS]
    faults = [e for e in trace if e[0] == "fault"]
    conns = [e for e in trace if e[0] == "connect"]
    commits = [i for i, e in enumerate(trace) if e[0] == "commit"]
    closes = [i for i, e in enumerate(trace) if e[0] == "close"]
    fdesc = f"fault {faults[0][1]} at {faults[0][2]} {faults[0][3]}" if faults else "no fault"
    path_desc = f"{op}({vdesc}) [{fdesc}; answers {[c for l, c in oc.decisions if not l.startswith('fault')]}]"

    def sample():
        return {"rule": "trace", "operation": f"{op}({vdesc})", "fault": fdesc, "outcome": oc.kind if oc.kind == "ok" else oc.exc.name,
                "trace": [f"{e[0]}:{e[1]}:{e[2]}" if e[0] == "sql" else ":".join(str(x) for x in e[:3]) for e in trace if e[0] not in ("enter", "exit")][:14]}
    # T-conn
    okc = len(conns) == 1 and conns[0][1] == repr(expected_path) and not conns[0][2]
    ctx.ob(okc, Finding("C09.T-conn", where, f"{op}|connections={len(conns)}" + ("" if len(conns) != 1 else f"|path={conns[0][1]}|kw={','.join(conns[0][2])}"),
                        f"{path_desc}: opens {len(conns)} connection(s) {[(c[1], c[2]) for c in conns]}; one operation must run in one "
                        f"transaction on the caller's file {expected_path!r} with the default transaction mode"),
           nontrivial_key=(op, vdesc, fdesc, tuple(c for l, c in oc.decisions)), sample=sample())
    # T-pragma
    prag = [e for e in sqls if e[1] == "PRAGMA"]
    first_sql = sqls[0] if sqls else None
    okp = len(prag) == 1 and prag[0] is first_sql and re.fullmatch(r"foreign_keys\s*=\s*ON", prag[0][2] or "", re.I) is not None
    ctx.ob(okp, Finding("C09.T-pragma", where, f"{op}|pragmas={[p[2] for p in prag]}",
                        f"{path_desc}: PRAGMA statements issued: {[p[2] for p in prag]}; exactly `foreign_keys = ON` must be issued, "
                        "first, and nothing that weakens journaling / synchronisation"))
    scripts = [e for e in trace if e[0] == "script"]
    ctx.ob(not scripts, Finding("C09.T-pragma", where, f"{op}|executescript", f"{path_desc}: executescript() commits implicitly"))
    # T-nest
    other = [e for e in sqls if e[4] != 1]
    ctx.ob(not other, Finding("C09.T-nest", where, f"{op}|foreign-connection:{sorted({e[6] for e in other})}",
                              f"{path_desc}: statements {[(e[1], e[2], e[6]) for e in other][:4]} run on another connection "
                              "(a nested store call without cursor=): they commit separately from the operation"))
    # T-commit
    last_sql = max([i for i, e in enumerate(trace) if e[0] in ("sql", "script")], default=-1)
    if oc.kind == "ok":
        ok = len(commits) == 1 and commits[0] > last_sql and len(closes) >= 1 and closes[-1] > commits[0] and \
            all(e[0] in ("exit", "close") for e in trace[closes[-1]:])
        ctx.ob(ok, Finding("C09.T-commit", where, f"{op}|ok|commits={len(commits)},closes={len(closes)}",
                           f"{path_desc}: returns normally with {len(commits)} commit(s) at trace positions {commits}, last statement "
                           f"at {last_sql}, close at {closes}: a successful operation commits exactly once, after its last "
                           "statement, and then closes the connection"))
    else:
        ok = not commits and len(closes) >= 1
        ctx.ob(ok, Finding("C09.T-commit", where, f"{op}|raise|commits={len(commits)},closes={len(closes)}",
                           f"{path_desc}: fails with {oc.exc.name} but the trace has {len(commits)} commit(s) and {len(closes)} close(s): "
                           "a failed operation must leave nothing committed and must release the connection "
                           "(uncommitted work on a connection that stays open is committed by the next operation)"))
        if faults and faults[0][1] in ("IntegrityError", "InterfaceError"):
            ctx.ob(oc.exc.is_a("ParsingError") or oc.exc.is_a("pgError"),
                   Finding("C09.T-commit", where, f"{op}|fault-not-reported-as-pgerror:{oc.exc.name}",
                           f"{path_desc}: the storage error surfaces as {oc.exc.name}, not as a pyGAPS parsing error"))
    # T-swallow
    if faults and faults[0][2] in WRITE_KINDS:
        ctx.ob(oc.kind == "raise", Finding("C09.T-swallow", where, f"{op}|swallowed:{faults[0][2]}:{faults[0][3]}",
                                           f"{path_desc}: the write statement failed but the operation continues and commits: "
                                           "the database keeps a partial effect"))
    # T-order
    seen_del = set()
    for e in sqls:
        if e[1] == "DELETE":
            need = children.get(e[2], set())
            miss = need - seen_del
            ctx.ob(not miss, Finding("C09.T-order", where, f"{op}|delete:{e[2]}|children-not-deleted:{sorted(miss)}",
                                     f"{path_desc}: deletes from {e[2]} before deleting the rows of {sorted(miss)} that reference it: "
                                     "properties/data of a deleted item would remain (or the delete is refused half-way)"))
            seen_del.add(e[2])
    # T-registry: the outcome of an operation must not depend on in-memory registries
    for i, e in enumerate(trace):
        if e[0] == "registry-read":
            later = [x for x in trace[i + 1:] if x[0] == "sql" and x[1] in WRITE_KINDS]
            ctx.ob(not later, Finding("C09.T-registry", where, f"{op}|{e[1]}-read-before-write",
                                      f"{path_desc}: membership in {e[1]} is consulted before {[(x[1], x[2]) for x in later][:3]}: "
                                      "the in-memory registry is not rolled back with the transaction, so after a failed upload "
                                      "(or an upload to another file) the same operation takes a different path and fails"))
    return len(sqls)


def r_absent(ctx, fi, vdesc, oc, trace):
    """deletion / overwrite of an absent item: refused before any write"""
    decisions = oc.decisions
    firsts = [(l, c) for l, c in decisions if l.startswith("fetchone")]
    if not firsts:
        return
    if firsts[0][1] == 1 and not any(e[0] == "fault" for e in trace):     # existence SELECT answered "no row"
        name = fi.name
        if name.endswith("_delete_db") or "overwrite=True" in vdesc:
            writes = [e for e in trace if e[0] == "sql" and e[1] in WRITE_KINDS]
            ok = oc.kind == "raise" and (oc.exc.is_a("ParsingError") or oc.exc.is_a("pgError")) and not writes
            ctx.ob(ok, Finding("C09.T-absent", fi.where, f"{name}|absent-item|{'writes' if writes else oc.kind}",
                               f"{name}({vdesc}) on an item that is not in the database: outcome {oc!r}, writes before the refusal "
                               f"{[(e[1], e[2]) for e in writes]}; it must be refused with a parsing error before any write"),
                   nontrivial_key=(name, vdesc, "absent"))


def r_static(ctx: Ctx, model):
    """module-wide who-may rules that need no path reasoning"""
    ctx.rule("S-who: commit/rollback/close/connect/executescript/isolation_level/autocommit occur only inside "
             "with_connection (and db_execute_general for DDL); PRAGMA strings in the package are only foreign_keys = ON")
    from ..sites import helper_closure
    # plus private helpers every reference to which is a direct call from one of the two (the extracted body of a permitted function)
    allowed = helper_closure(model, {"pygaps.parsing.sqlite.with_connection", "pygaps.utilities.sqlite_utilities.db_execute_general"})
    n = 0
    for fi in model.all_functions():
        for node in ast.walk(fi.node):
            if isinstance(node, ast.Call) and isinstance(node.func, ast.Attribute) and \
                    node.func.attr in ("commit", "rollback", "executescript", "connect"):
                recv = ast.unparse(node.func.value)
                if node.func.attr == "connect" and recv != "sqlite3":
                    continue
                n += 1
                ok = fi.qualname in allowed
                ctx.ob(ok, Finding("C09.S-who", fi.where, f"{fi.short}|{node.func.attr}",
                                   f"line {node.lineno}: {fi.short} calls {recv}.{node.func.attr}() - transaction control belongs to "
                                   "with_connection only (a commit inside a body makes the operation non-atomic)"),
                       nontrivial_key=("who", fi.qualname, node.func.attr))
            if isinstance(node, ast.keyword) and node.arg in ("isolation_level", "autocommit"):
                ctx.ob(False, Finding("C09.S-who", fi.where, f"{fi.short}|{node.arg}",
                                      f"{fi.short} sets {node.arg}: statements would commit individually"))
            if isinstance(node, ast.Attribute) and node.attr in ("isolation_level", "autocommit") and isinstance(node.ctx, ast.Store):
                ctx.ob(False, Finding("C09.S-who", fi.where, f"{fi.short}|{node.attr}",
                                      f"{fi.short} sets {node.attr}: statements would commit individually"))
    ctx.floor("transaction-control call sites", n, 4)
    for m in model.modules.values():
        for node in ast.walk(m.tree):
            if isinstance(node, ast.Constant) and isinstance(node.value, str):
                for pm in re.finditer(r"\bPRAGMA\s+([A-Za-z_]+)\s*(=\s*\w+)?", node.value):
                    txt = re.sub(r"\s+", " ", pm.group(0))
                    ok = re.fullmatch(r"PRAGMA foreign_keys = ON", txt, re.I) is not None
                    ctx.ob(ok, Finding("C09.S-who", f"{m.relpath}:{node.lineno}", f"pragma:{txt}",
                                       f"{m.relpath}:{node.lineno}: `{txt}` - only `PRAGMA foreign_keys = ON` may be issued"),
                           nontrivial_key=("pragma", m.name, txt))


def r_nest_static(ctx: Ctx, model):
    """every call of a @with_connection function from inside another @with_connection function hands the open cursor on
    (keyword `cursor=`), on every path and for every argument combination - otherwise the callee opens, commits and closes
    its own connection in the middle of the caller's transaction"""
    ctx.rule("S-nest: inside a @with_connection function every call to a @with_connection function passes cursor=<the open cursor>")
    deco = {fi.name: fi for fi in model.all_functions()
            if fi.qualname.startswith("pygaps.parsing.sqlite.") and any(d.split(".")[-1] == "with_connection" for d in fi.decorators)}
    ctx.floor("@with_connection functions", len(deco), 15)
    n = 0
    for fi in deco.values():
        for node in ast.walk(fi.node):
            if isinstance(node, ast.Call):
                callee = node.func.id if isinstance(node.func, ast.Name) else node.func.attr if isinstance(node.func, ast.Attribute) else None
                if callee in deco:
                    n += 1
                    kw = {k.arg: ast.unparse(k.value) for k in node.keywords if k.arg}
                    star = any(k.arg is None for k in node.keywords)
                    ok = kw.get("cursor") in ("cursor", "kwargs['cursor']", 'kwargs["cursor"]') or (star and "cursor" not in kw)
                    ctx.ob(ok, Finding("C09.S-nest", fi.where, f"{fi.short}|{callee}|no-cursor",
                                       f"line {node.lineno}: {fi.short} calls {callee}(...) without cursor=cursor: the nested operation runs and "
                                       "commits on its own connection while the caller's transaction is still open (a later failure of the "
                                       "caller cannot undo it)"),
                           nontrivial_key=("nest", fi.qualname, callee, node.lineno))
    # (a refactoring may fold several call sites into one helper: the trace rule T-conn decides the same obligation per explored path)
    ctx.floor("nested @with_connection call sites", n, 2)


def _explore_task(task):
    root, opname, vi = task
    model, mach = setup_machine(root, inject=True)
    I = mach.I
    ctx = Ctx("C09", root=root)
    children = child_tables(mach.tables)
    fi = model.func(f"{SQLITE}.{opname}")
    vdesc, build = list(variants(fi, I))[vi]

    def thunk(I):
        args, kwargs = build()
        return I.call_func(fi, args, kwargs, None)
    npaths = nstat = 0
    positions = set()
    for oc, trace in mach.explore(thunk):
        npaths += 1
        nstat += check_trace(ctx, fi, vdesc, oc, trace, children)
        r_absent(ctx, fi, vdesc, oc, trace)
        for e in trace:
            if e[0] == "fault":
                positions.add((fi.name, vdesc, e[1], e[2], e[3]))
    return (npaths, nstat, positions, ctx.obligations, ctx.discharged,
            [(f.rule, f.where, f.key, f.message, f.detail) for f in ctx.findings], list(ctx._nontrivial), ctx.samples[:1])


def run(ctx: Ctx):
    model, mach = setup_machine(ctx.root, inject=True)
    I = mach.I
    ctx.assume("SQLite commits atomically with the default rollback journal; closing a sqlite3 connection discards an "
               "uncommitted transaction; a deferred transaction starts at the first DML statement")
    ctx.rule("T-conn/T-pragma/T-commit/T-nest/T-swallow/T-order/T-absent/T-registry on the abstract SQL trace of every "
             "public write operation x abstract database answers x one injected fault per statement position")
    children = child_tables(mach.tables)
    ctx.analysed["fk_children"] = {k: sorted(v) for k, v in children.items()}
    ops = operations(model)
    ctx.floor("public write operations", len(ops), 14)
    r_static(ctx, model)
    r_nest_static(ctx, model)
    from .C08 import r_module_state
    r_module_state(ctx, model, prop="C09", rule="S-state")
    npaths = 0
    nstat = 0
    positions = set()
    tasks = []
    for fi in ops:
        for vi, (vdesc, build) in enumerate(variants(fi, I)):
            if ctx.tier != "thorough" and fi.name == "isotherm_to_db" and vdesc.endswith("autoinsert_adsorbate=True") and not vdesc.startswith("point"):
                continue        # quick: the full auto-insert nesting is explored for the point isotherm only
            tasks.append((str(ctx.root), fi.name, vi))
    import multiprocessing
    if ctx.jobs > 1:
        with multiprocessing.Pool(min(ctx.jobs, len(tasks))) as pool:
            results = pool.map(_explore_task, tasks, chunksize=1)
    else:
        results = [_explore_task(t) for t in tasks]
    for (np_, ns_, pos_, ob, di, fs, nt, sm) in results:
        npaths += np_
        nstat += ns_
        positions |= pos_
        ctx.obligations += ob
        ctx.evaluations += ob
        ctx.discharged += di
        for f in fs:
            ctx.add(Finding(*f))
        ctx._nontrivial.update(nt)
        for s_ in sm:
            if len(ctx.samples) < 12:
                ctx.samples.append(s_)
    # default database when db_path is omitted / None / positional
    for fi in ops[:3]:
        for vdesc, build in list(variants(fi, I))[:1]:
            for shape in ("omitted", "none", "positional"):
                def thunk(I, build=build, fi=fi, shape=shape):
                    args, kwargs = build()
                    kwargs = dict(kwargs)
                    p = kwargs.pop("db_path")
                    if shape == "none":
                        kwargs["db_path"] = None
                    elif shape == "positional":
                        args = list(args) + [p]
                    return I.call_func(fi, args, kwargs, None)
                mach.inject = False
                try:
                    res = mach.explore(thunk)
                finally:
                    mach.inject = True
                exp = "USER.db" if shape == "positional" else "DEFAULT.db"
                for oc, trace in res:
                    conns = [e for e in trace if e[0] == "connect"]
                    ok = len(conns) == 1 and conns[0][1] == repr(exp)
                    ctx.ob(ok, Finding("C09.T-conn", fi.where, f"{fi.name}|db_path-{shape}|connects:{[c[1] for c in conns]}",
                                       f"{fi.name}(..., db_path {shape}): connects to {[c[1] for c in conns]}, expected {exp!r}"),
                           nontrivial_key=("dbpath", fi.name, shape))
    ctx.extra["paths"] = npaths
    ctx.extra["statements_on_paths"] = nstat
    ctx.extra["fault_positions"] = len(positions)
    ctx.extra["exhaustive"] = True
    ctx.floor("abstract operation paths", npaths, 300)
    ctx.floor("distinct (operation, statement, fault) positions", len(positions), 150)
    ctx.analysed["operations"] = [f.name for f in ops]
    ctx.analysed["wrapper"] = wrapper_of(model)[1].where


META = {
    "technique": "abstract interpretation of every store operation through the real decorator into SQL event traces "
                 "with symbolic fault injection at each statement; trace rules + DDL foreign-key graph",
    "level_text": "Static: all 14+ public write operations x input variants x abstract database answers x {no fault, "
                  "IntegrityError, InterfaceError, OperationalError at statement k} are enumerated exhaustively as "
                  "abstract traces of connect/execute/commit/rollback/close/registry events obtained by interpreting "
                  "the source (including with_connection itself and nested auto-inserts); trace rules decide single "
                  "transaction, commit-last-exactly-once, no commit/always close on failure, no swallowed write "
                  "failure, child-before-parent deletes, refusal before write, registry after last statement. This is "
                  "the statement-position x fault-kind quantifier the tests cannot cover.",
    "level_note": "Trusted: SQLite's atomic commit and discard-on-close; Python sqlite3 default (deferred) transactions. "
                  "Not decided: real crashes and I/O errors inside SQLite.",
}
