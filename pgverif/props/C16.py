"""C16 - mesopore size distributions conserve volume and follow the Kelvin equation.

Decided statically by abstract interpretation with *symbolic terms* (sympy used as the number domain / normaliser)
of psd_pygapsdh, psd_bjh, psd_dollimore_heal on symbolic 4-point branches (volumes V_i, pressures p_i, layer
thickness t_i, Kelvin radii r_i as symbols), for every pore geometry each method accepts:
  P-width   reported widths are 2*(t_i + r_i) at the measured pressures, in increasing-pressure order
  P-volume  with a zero-thickness layer every pore volume is the successive change V_{i+1} - V_i (sum telescopes)
  P-dist    distribution * width increment == pore volume, element by element
  P-cumul   psd_mesoporous: for every window the pressure limits can select, the cumulative curve is the running sum
            shifted to end at the adsorbed volume of the LAST POINT USED
  P-kelvin  kelvin_radius == -2*gamma*(M/rho) / (f*R*T*ln p) with f = 2 / 1 / 0.5 for cylindrical / hemispherical /
            hemicylindrical menisci (nm for mN/m, g/mol, g/cm3); KJS adds 0.3 nm; get_meniscus_geometry is total over
            branches x pore geometries with the documented table
Not decided: monotonicity of widths for arbitrary thickness models, single-peak behaviour, accuracy.
"""
from __future__ import annotations

import itertools

import sympy as sp

from ..absint import Obj, Opaque, Raised
from ..alg import Translator, decide_zero
from ..core import AnalysisError, Ctx, Finding
from ..domain import make_interp
from ..libsum import Vec, install_vec
from ..num import Num
from ..srcmodel import load

PM = "pygaps.characterisation.psd_meso"
MK = "pygaps.characterisation.models_kelvin"
N = 4
MENISCUS = {("ads", "slit"): "hemicylindrical", ("ads", "cylinder"): "cylindrical", ("ads", "halfopen-cylinder"): "hemispherical",
            ("ads", "sphere"): "hemispherical", ("des", "slit"): "hemicylindrical", ("des", "cylinder"): "hemispherical",
            ("des", "halfopen-cylinder"): "hemispherical", ("des", "sphere"): "hemispherical"}
GEOMETRY_FACTOR = {"cylindrical": 2, "hemispherical": 1, "hemicylindrical": sp.Rational(1, 2)}


def S(name):
    return sp.Symbol(name, positive=True)


def mk_interp(model):
    I = make_interp(model)
    install_vec(I)
    I.sympy_mode = True
    return I


def show(x):
    from ..alg import time_limit
    try:
        with time_limit(5):
            return str(sp.simplify(x))
    except Exception:
        return str(x)


def zero(expr):
    return decide_zero(expr)[0] == "zero"


def r_methods(ctx: Ctx, model):
    ctx.rule("P-width/P-volume/P-dist: symbolic interpretation of the three recurrences on a 4-point branch")
    I = mk_interp(model)
    V = [S(f"V{i}") for i in range(N)]
    p = [S(f"p{i}") for i in range(N)]
    t = [S(f"t{i}") for i in range(N)]
    r = [S(f"r{i}") for i in range(N)]

    def tmodel(zero_t):
        def f(I, v, a, k, n):
            ps = a[0].items
            return Vec([sp.Integer(0) if zero_t else t[p.index(x)] for x in ps])
        return f

    def kmodel(I, v, a, k, n):
        return Vec([r[p.index(x)] for x in a[0].items])
    I.libmeth[("TModel", "__call__")] = tmodel(False)
    I.libmeth[("TModel0", "__call__")] = tmodel(True)
    I.libmeth[("KModel", "__call__")] = kmodel
    cases = {"psd_pygapsdh": ("slit", "cylinder", "sphere"), "psd_bjh": ("cylinder",), "psd_dollimore_heal": ("cylinder",)}
    for fname, geoms in cases.items():
        fi = model.func(f"{PM}.{fname}")
        for geom in geoms:
            for zero_t in (False, True):
                outs = I.explore(lambda I: I.call_func(fi, [Vec(list(V)), Vec(list(p)), geom,
                                                            Obj(kind="TModel0" if zero_t else "TModel"), Obj(kind="KModel")], {}, None))
                if len(outs) != 1 or outs[0].kind != "ok" or not isinstance(outs[0].value, dict):
                    ctx.ob(False, Finding("C16.P-method", fi.where, f"{fname}|{geom}|outcome", f"{fname}({geom}) -> {outs}"))
                    continue
                res = outs[0].value
                w, pv, dist = res["pore_widths"].items, res["pore_volumes"].items, res["pore_distribution"].items
                tt = [sp.Integer(0)] * N if zero_t else t
                want_w = [2 * (tt[i] + r[i]) for i in range(0, N - 1)]    # each interval is reported at its lower-pressure point
                okw = len(w) == N - 1 and all(zero(a - b) for a, b in zip(w, want_w))
                ctx.ob(okw, Finding("C16.P-width", fi.where, f"{fname}|{geom}|widths",
                                    f"{fname}({geom}): reported widths {[show(x) for x in w]}; required 2*(t_i + r_i) for points 0..{N - 2}: "
                                    f"{[str(x) for x in want_w]}"),
                       nontrivial_key=(fname, geom, zero_t, "w"), sample={"rule": "P-width", "method": fname, "geometry": geom, "widths": [str(x) for x in w]})
                full_w = [2 * (tt[i] + r[i]) for i in range(N)]
                okd = len(dist) == N - 1 and all(zero(dist[k] * (full_w[k + 1] - full_w[k]) - pv[k]) for k in range(N - 1))
                ctx.ob(okd, Finding("C16.P-dist", fi.where, f"{fname}|{geom}|distribution",
                                    f"{fname}({geom}): distribution * (w_(k+1) - w_k) differs from the pore volumes"),
                       nontrivial_key=(fname, geom, zero_t, "d"))
                if zero_t:
                    okv = len(pv) == N - 1 and all(zero(pv[k] - (V[k + 1] - V[k])) for k in range(N - 1))
                    ctx.ob(okv, Finding("C16.P-volume", fi.where, f"{fname}|{geom}|zero-thickness-volumes",
                                        f"{fname}({geom}) with a zero-thickness layer: pore volumes {[show(x) for x in pv]}; required the "
                                        "successive changes V_(k+1) - V_k (so that they sum to the total change)"),
                           nontrivial_key=(fname, geom, "v"), sample={"rule": "P-volume", "method": fname, "volumes": [show(x) for x in pv]})
        # geometries a method does not support are refused
        if fname != "psd_pygapsdh":
            outs = I.explore(lambda I: I.call_func(fi, [Vec(list(V)), Vec(list(p)), "slit", Obj(kind="TModel"), Obj(kind="KModel")], {}, None))
            ctx.ob(all(o.kind == "raise" and o.exc.is_a("ParameterError") for o in outs),
                   Finding("C16.P-method", fi.where, f"{fname}|slit-not-refused", f"{fname} must refuse non-cylindrical pores"),
                   nontrivial_key=(fname, "refuse"))


def r_cumulative(ctx: Ctx, model):
    ctx.rule("P-cumul: psd_mesoporous over every selectable window: cumulative[k] = sum_{j<=k} dv_j - sum_all + V[last used]")
    I = mk_interp(model)
    NP = 6
    V = [S(f"V{i}") for i in range(NP)]
    p = [S(f"p{i}") for i in range(NP)]
    fi = model.func(f"{PM}.psd_mesoporous")
    seen = {}

    def fake_method(I, fi_, env, n):
        vol, pr = env["volume_adsorbed"], env["relative_pressure"]
        seen["used"] = (list(vol.items), list(pr.items))
        m = len(vol.items) - 1
        R_ = lambda nm: sp.Symbol(nm, real=True)       # a method may return negative volumes (thinning larger than the step)
        return {"__used__": list(vol.items), "pore_widths": Vec([S(f"w{i}") for i in range(m)]), "pore_areas": Vec([S(f"a{i}") for i in range(m)]),
                "pore_volumes": Vec([R_(f"dv{i}") for i in range(m)]), "pore_distribution": Vec([R_(f"d{i}") for i in range(m)])}
    for nm in ("psd_pygapsdh", "psd_bjh", "psd_dollimore_heal"):
        I.overrides[f"{PM}.{nm}"] = fake_method
    I.overrides["pygaps.utilities.pygaps_utilities.get_iso_loading_and_pressure_ordered"] = lambda I, fi_, env, n: (Vec(list(p)), Vec(list(V)))
    I.overrides["pygaps.characterisation.models_thickness.get_thickness_model"] = lambda I, fi_, env, n: Obj(kind="TModel")
    I.overrides[f"{MK}.get_kelvin_model"] = lambda I, fi_, env, n: Obj(kind="KModel")
    I.ext["numpy.searchsorted"] = lambda I, a, k, n: sp.Integer(I.choose(len(a[0].items) + 1, f"searchsorted({I.describe(a[1])})"))
    ads = Obj(kind="AdsStub", label="ads")
    for g in ("molar_mass", "liquid_density", "surface_tension"):
        I.libmeth[("AdsStub", g)] = (lambda g: lambda I, v, a, k, n: S(g))(g)
    iso = lambda: Obj(kind="IsoStub", label="iso", attrs={"adsorbate": ads, "temperature": S("T")})
    npaths = 0
    for psd_model, limits in itertools.product(("pygaps-DH", "BJH", "DH"), (None, (S("lo"), S("hi")), (None, S("hi")))):
        kw = {"psd_model": psd_model, "pore_geometry": "cylinder", "branch": "des", "p_limits": limits}
        outs = I.explore(lambda I: I.call_func(fi, [iso()], dict(kw), None))
        for oc in outs:
            npaths += 1
            if oc.kind == "raise":
                ok = oc.exc.is_a("CalculationError") or oc.exc.is_a("ParameterError")
                ctx.ob(ok and not oc.exc.fault, Finding("C16.P-cumul", fi.where, f"psd_mesoporous|{psd_model}|raises:{oc.exc.name}",
                                                        f"psd_mesoporous({kw}) [{oc.decisions}] raises {oc.exc.name}: {oc.exc.msg}"))
                continue
            res = oc.value
            cum = res["pore_volume_cumulative"].items
            used_v = res["__used__"]
            lim_ = res.get("limits")
            if isinstance(lim_, tuple) and len(lim_) == 2 and all(getattr(x, "is_Integer", False) for x in lim_):
                window = V[int(lim_[0]):int(lim_[1]) + 1]
                ctx.ob(used_v == window, Finding("C16.P-cumul", fi.where, f"psd_mesoporous|{psd_model}|points-filtered",
                                                 f"psd_mesoporous(limits={limits}) [{[l for l, c in oc.decisions if c == 0 and not l.startswith('searchsorted')]}]: the method "
                                                 f"receives the points {[str(x) for x in used_v]} instead of the window {[str(x) for x in window]}: widths are no "
                                                 "longer reported at every measured pressure inside the limits"))
            m = len(used_v) - 1
            dv = [sp.Symbol(f"dv{i}", real=True) for i in range(m)]
            # post-processing passes the method's volumes, distribution and widths on unchanged (they are mutually consistent only together)
            same = all(isinstance(res.get(kk), Vec) and [str(x) for x in res[kk].items] == [f"{pre}{i}" for i in range(m)]
                       for kk, pre in (("pore_volumes", "dv"), ("pore_distribution", "d"), ("pore_widths", "w")))
            ctx.ob(same, Finding("C16.P-dist", fi.where, f"psd_mesoporous|{psd_model}|results-altered",
                                 f"psd_mesoporous alters the method's results after the calculation (pore_volumes {res.get('pore_volumes')!r}, "
                                 f"pore_distribution {res.get('pore_distribution')!r}): distribution x width increment no longer equals the reported volumes"),
                   nontrivial_key=(psd_model, "passthrough"))
            want = [sum(dv[:k + 1]) - sum(dv) + used_v[-1] for k in range(m)]
            ok = len(cum) == m and all(zero(a - b) for a, b in zip(cum, want))
            ctx.ob(ok, Finding("C16.P-cumul", fi.where, f"psd_mesoporous|{psd_model}|cumulative-anchor",
                               f"psd_mesoporous(limits={limits}) using points {[str(x) for x in used_v]}: the cumulative curve ends at "
                               f"{show(cum[-1]) if cum else None}; it must end at the volume adsorbed at the highest pressure used ({used_v[-1]})"),
                   nontrivial_key=(psd_model, str(limits), tuple(c for l, c in oc.decisions)),
                   sample={"rule": "P-cumul", "model": psd_model, "window": [str(x) for x in used_v], "last": str(cum[-1]) if cum else None} if npaths % 9 == 0 else None)
            lim = res.get("limits")
            ctx.ob(isinstance(lim, tuple) and len(lim) == 2, Finding("C16.P-cumul", fi.where, "psd_mesoporous|limits-missing", "result lacks the (minimum, maximum) limits"))
    ctx.floor("psd_mesoporous window paths", npaths, 40)
    # P-limits: which points are used, on a concrete pressure grid with limits that fall strictly between grid points
    import bisect
    R = sp.Rational
    grid = [R(5, 100), R(2, 10), R(4, 10), R(6, 10), R(8, 10), R(95, 100), R(995, 1000)]
    Vc = [S(f"U{i}") for i in range(len(grid))]

    def searchsorted(I, a, k, n):
        arr = [sp.nsimplify(x) for x in a[0].items]
        side = k.get("side", a[2] if len(a) > 2 else "left")
        x = sp.nsimplify(a[1])
        return sp.Integer(bisect.bisect_right(arr, x) if side == "right" else bisect.bisect_left(arr, x))
    saved_ss = I.ext["numpy.searchsorted"]
    I.ext["numpy.searchsorted"] = searchsorted
    I.overrides["pygaps.utilities.pygaps_utilities.get_iso_loading_and_pressure_ordered"] = lambda I, fi_, env, n: (Vec(list(grid)), Vec(list(Vc)))
    ctx.rule("P-limits: on a concrete pressure grid the points handed to the method are exactly those strictly inside the requested limits "
             "(default limits 0.1 .. 0.99), in order")
    for limits in ((R(1, 10), R(7, 10)), (R(3, 10), None), (None, R(9, 10)), None, (R(1, 10), R(99, 100))):
        lo = limits[0] if limits and limits[0] else (R(1, 10) if limits is None else None)
        hi = limits[1] if limits and limits[1] else (R(99, 100) if limits is None else None)
        want = [g for g in grid if (lo is None or g > lo) and (hi is None or g < hi)]
        kw = {"psd_model": "BJH", "pore_geometry": "cylinder", "branch": "des", "p_limits": limits}
        seen.clear()
        outs = I.explore(lambda I: I.call_func(fi, [iso()], dict(kw), None))
        oks = [o for o in outs if o.kind == "ok"]
        got = [sp.nsimplify(x) for x in seen["used"][1]] if oks and "used" in seen else [repr(o)[:80] for o in outs[:2]]
        ctx.ob(bool(oks) and got == want, Finding("C16.P-limits", fi.where, f"psd_mesoporous|points-used|limits={limits}",
                                                  f"psd_mesoporous(p_limits={limits}) on pressures {[str(g) for g in grid]} uses the points "
                                                  f"{[str(x) for x in got]}; required {[str(x) for x in want]}: only points inside the pressure limits may enter "
                                                  "the calculation (the cumulative curve must end at the highest pressure inside them)"),
               nontrivial_key=("limits", str(limits)))
    I.ext["numpy.searchsorted"] = saved_ss
    I.overrides["pygaps.utilities.pygaps_utilities.get_iso_loading_and_pressure_ordered"] = lambda I, fi_, env, n: (Vec(list(p)), Vec(list(V)))
    # an explicitly requested meniscus geometry is the one the Kelvin model gets (the inferred one is only a default)
    cap = {}

    def kel(I, fi_, env, n, cap=cap):
        cap["meniscus"] = (env.get("model_args") or {}).get("meniscus_geometry", env.get("meniscus_geometry"))
        return Obj(kind="KModel")
    I.overrides[f"{MK}.get_kelvin_model"] = kel
    for explicit, branch, geom in (("hemispherical", "ads", "cylinder"), ("cylindrical", "des", "cylinder"), (None, "ads", "cylinder"), (None, "des", "slit")):
        cap.clear()
        kw = {"psd_model": "pygaps-DH", "pore_geometry": geom, "branch": branch, "p_limits": (None, None)}
        if explicit:
            kw["meniscus_geometry"] = explicit
        outs = [o for o in I.explore(lambda I: I.call_func(fi, [iso()], dict(kw), None)) if o.kind == "ok"]
        want = explicit or MENISCUS[(branch, geom)]
        ctx.ob(bool(outs) and cap.get("meniscus") == want,
               Finding("C16.P-kelvin", fi.where, f"psd_mesoporous|meniscus|explicit={explicit}|{branch}|{geom}",
                       f"psd_mesoporous(branch={branch}, pore_geometry={geom}, meniscus_geometry={explicit}) builds the Kelvin model with "
                       f"meniscus {cap.get('meniscus')!r}; required {want!r}" + (" (the caller's explicit choice)" if explicit else " (inferred default)")),
               nontrivial_key=("meniscus", explicit, branch, geom))


def r_kelvin(ctx: Ctx, model):
    ctx.rule("P-kelvin [ALG]: Kelvin radius formula, geometry factors, KJS offset; meniscus table total")
    tr = Translator(model)
    p, T, rho, M, g = tr.sym("p"), tr.sym("T"), tr.sym("rho"), tr.sym("M"), tr.sym("gamma")
    R = tr.sym("R")
    kr = model.func(f"{MK}.kelvin_radius")
    for men, f in GEOMETRY_FACTOR.items():
        val = tr.function(kr, [p, men, T, rho, M, g])
        want = -2 * g * (M / rho) / (f * R * T * sp.log(p))
        verdict, wit = decide_zero(val - want)
        ctx.ob(verdict == "zero", Finding("C16.P-kelvin", kr.where, f"kelvin_radius|{men}",
                                          f"kelvin_radius({men}) = {val}; the Kelvin equation requires {want} (nm for mN/m, g/mol, g/cm3)"),
               nontrivial_key=("kelvin", men), sample={"rule": "P-kelvin", "meniscus": men, "derived": str(val)})
    kjs = model.func(f"{MK}.kelvin_radius_kjs")
    val = tr.function(kjs, [p, "cylindrical", T, rho, M, g])
    want = -2 * g * (M / rho) / (R * T * sp.log(p)) + sp.Rational(3, 10)
    verdict, wit = decide_zero(val - want)
    ctx.ob(verdict == "zero", Finding("C16.P-kelvin", kjs.where, "kelvin_radius_kjs", f"KJS radius = {val}; required {want}"),
           nontrivial_key=("kjs",))
    # KJS is calibrated for the cylindrical meniscus only: every other geometry is refused (a silently accepted one reports radii of
    # the wrong equation - "Kelvin radii obey the Kelvin equation for each meniscus geometry")
    Ik = make_interp(model)
    Ik.sympy_mode = True
    for men in ("hemispherical", "hemicylindrical", "flat", "spherical"):
        outs = Ik.explore(lambda I: I.call_func(kjs, [sp.Rational(1, 2), men, sp.Integer(77), sp.Integer(1), sp.Integer(28), sp.Integer(9)], {}, None))
        ok = bool(outs) and all(o.kind == "raise" and o.exc.is_a("ParameterError") for o in outs)
        ctx.ob(ok, Finding("C16.P-kelvin", kjs.where, f"kelvin_radius_kjs|{men}|not-refused",
                           f"kelvin_radius_kjs(meniscus_geometry={men!r}) -> {[repr(o)[:60] for o in outs[:1]]}; the KJS correction applies to the cylindrical "
                           "meniscus only and must refuse any other with a ParameterError"), nontrivial_key=("kjs-refuse", men))
    # standard-isotherm thickness curves: outside the tabulated pressures the interpolator holds the end values (0 below, the LAST
    # tabulated thickness above) - widths must keep increasing with pressure
    mt = "pygaps.characterisation.models_thickness"
    ls = model.func(f"{mt}.load_std_isotherm")
    Il = mk_interp(model)
    capi = {}
    Il.overrides["pygaps.parsing.csv.isotherm_from_csv"] = lambda I, fi_, env, n: Obj(kind="StdIso", label="std", attrs={"properties": {"monolayer uptake [mmol/g]": S("nm0")}})
    Il.libmeth[("StdIso", "pressure")] = lambda I, v, a, k, n: Vec([S("q0"), S("q1"), S("q2")])
    Il.libmeth[("StdIso", "loading")] = lambda I, v, a, k, n: Vec([S("l0"), S("l1"), S("l2")])
    Il.overrides[f"{mt}.convert_to_thickness"] = lambda I, fi_, env, n: Vec([S("t0"), S("t1"), S("t2")])

    def interp1d(I, a, k, n):
        capi["x"], capi["y"], capi["kw"] = a[0], a[1], dict(k)
        return Obj(kind="Interp1d", label="interp")
    Il.ext["scipy.interpolate.interp1d"] = interp1d
    for nm_ in ("importlib.resources.files", "importlib_resources.files"):
        Il.ext[nm_] = lambda I, a, k, n: Obj(kind="ResourceDir", label="resources")
    Il.libmeth[("ResourceDir", "joinpath")] = lambda I, v, a, k, n: Obj(kind="ResourceDir", label="resource")
    Il.libmeth[("ResourceDir", "__truediv__")] = Il.libmeth[("ResourceDir", "joinpath")]
    std = Il.global_value(mt, "STANDARD_ISOTHERMS")
    if not isinstance(std, dict) or not std:
        raise AnalysisError("anchor missing: models_thickness.STANDARD_ISOTHERMS")
    name0 = next(iter(std))
    Il.const_overrides[(mt, "_LOADED")] = {}
    outs = Il.explore(lambda I: (capi.clear(), I.call_func(ls, [name0], {}, None), dict(capi))[2])
    okl = len(outs) >= 1 and all(o.kind == "ok" for o in outs)
    if okl and "x" not in outs[0].value:
        raise AnalysisError("load_std_isotherm no longer builds its curve with scipy.interpolate.interp1d: the extrapolation rule of the "
                            "thickness curve cannot be read off (construct outside the interpreted fragment)")
    if okl:
        c = outs[0].value
        fv = c.get("kw", {}).get("fill_value")
        xs, ys = c.get("x"), c.get("y")
        okl = isinstance(xs, Vec) and isinstance(ys, Vec) and [str(x) for x in xs.items] == ["q0", "q1", "q2"] and [str(x) for x in ys.items] == ["t0", "t1", "t2"] \
            and isinstance(fv, tuple) and len(fv) == 2 and zero(sp.sympify(fv[0])) and fv[1] == S("t2") and c["kw"].get("bounds_error") is False
        why = f"interp1d(x={xs!r}, y={ys!r}, {c.get('kw')})"
    else:
        why = f"outcomes {[repr(o)[:80] for o in outs[:2]]}"
    ctx.ob(okl, Finding("C16.P-width", ls.where, "load_std_isotherm|extrapolation",
                        f"the standard-isotherm thickness curve is built as {why}; required interp1d(pressure, thickness, bounds_error=False, "
                        "fill_value=(0, thickness[-1])): above the tabulated range the thickness must hold its last (largest) value, otherwise reported "
                        "widths collapse and decrease with pressure"), nontrivial_key=("std-thickness",))
    I = make_interp(model)
    gm = model.func(f"{MK}.get_meniscus_geometry")
    for (branch, geom), want in MENISCUS.items():
        outs = I.explore(lambda I: I.call_func(gm, [branch, geom], {}, None))
        ok = len(outs) == 1 and outs[0].kind == "ok" and outs[0].value == want
        ctx.ob(ok, Finding("C16.P-kelvin", gm.where, f"meniscus|{branch}|{geom}", f"get_meniscus_geometry({branch},{geom}) -> {outs[0]!r}; required {want}"),
               nontrivial_key=("meniscus", branch, geom))
    for bad in (("ads", "cube"), ("up", "slit")):
        outs = I.explore(lambda I: I.call_func(gm, list(bad), {}, None))
        ctx.ob(all(o.kind == "raise" and o.exc.is_a("ParameterError") for o in outs),
               Finding("C16.P-kelvin", gm.where, f"meniscus|{bad}|not-refused", f"get_meniscus_geometry{bad} must raise ParameterError"))


def r_reader(ctx: Ctx, model):
    from .C03 import r_order
    r_order(ctx, model, prop="C16")      # widths are reported at the measured *relative* pressures: the shared reader must convert


def run(ctx: Ctx):
    model = load(ctx.root)
    ctx.assume("sympy normalisation is sound; numpy.diff / cumsum / slicing have their documented elementwise meaning")
    r_methods(ctx, model)
    r_cumulative(ctx, model)
    r_kelvin(ctx, model)
    r_reader(ctx, model)
    from ..sites import no_memoisation
    # hand-written caches: every function of the module, as an entry point, writes no module-level object (shared with C04 R-module) -
    # adsorbate / material constants looked up once and kept per name or temperature would answer for a later, different isotherm
    from ..effects import Effects
    from .C04 import r_module
    _m = load(ctx.root)
    r_module(ctx, _m, Effects(_m), [f for n_, f in _m.module("pygaps.characterisation.psd_meso").functions.items()], prop="C16", rule="P-fresh", write_once=[], memo=False)
    ctx.rule("P-fresh: no caching decorator on any function of pygaps.characterisation.")
    no_memoisation(ctx, load(ctx.root), "C16", "P-fresh", ('pygaps.characterisation.',),
                   "cached adsorbate constants / radii are keyed by adsorbate name and temperature only and survive a change of the adsorbate's properties or backend")


META = {
    "technique": "abstract interpretation with symbolic terms of the three PSD recurrences and of psd_mesoporous over every sele"
                 "ctable window and on a concrete pressure grid (points used); algebraic normal form of the Kelvin radius; refus"
                 "al / extrapolation rules of the KJS and standard-isotherm models",
    "level_text": "Static: the three recurrences are interpreted on a symbolic 4-point branch (all quantities symbols) and the "
                  "resulting terms are normalised against 2(t+r), V_(k+1)-V_k (zero thickness) and distribution*dw = volume; "
                  "psd_mesoporous is interpreted for every window its limits can select to fix the anchor of the cumulative "
                  "curve; the Kelvin formula and geometry tables are compared with the physical oracle. Symbolic points make "
                  "the identities hold for arbitrary data values; the number of points is fixed at 4 (methods) / 6 (window).",
    "level_note": "Trusted: sympy; numpy elementwise semantics. The recurrences are loops over the points; identities are checked "
                  "for 4 symbolic points (each loop iteration is exercised). Not decided: monotone widths, single-peak behaviour, the thickness-correction terms of the recurrences with a non-zero layer (method-specific numerical results, no stated oracle) and the reported pore areas.",
}
