"""C19 - enthalpy methods recover the enthalpy built into consistent synthetic data.

Decided statically (abstract interpretation with symbolic terms + [ALG]):
  E-isosteric  isosteric_enthalpy_raw regresses ln(p) of each loading against 1/T and returns -R*slope/1000 (kJ/mol);
               only the slope enters, so the result does not depend on number / order / spacing of temperatures, and a
               common pressure unit (an additive constant of ln p) cancels; stderr is scaled R/1000
  E-whittaker  for every loading that is not skipped the value appended is
               [R*T*ln( p_sat / b^(1/t) * (theta^t/(1-theta^t))^((t-1)/t) ) + h_vap(max(p, p_triple))*1000 + R*T] / 1000
               with b = K^(-t), t = 1 for Langmuir, theta = n/n_m, p the model pressure at n; a loading is skipped exactly
               when p is nan, negative, above p_critical or above p_sat
  E-point      initial_enthalpy_point returns the first element of the enthalpy column of the requested branch
(The in-place conversion of the caller's isotherm by the Whittaker routine is decided in C04; unit pinning in C15.)
Not decided: interpolation accuracy for point isotherms, CoolProp values, regression numerics.
"""
from __future__ import annotations

import sympy as sp

from ..absint import Obj, Opaque, Raised
from ..alg import SelfCtx, Translator, decide_zero
from ..core import AnalysisError, Ctx, Finding
from ..domain import make_interp
from ..libsum import Vec, install_vec
from ..srcmodel import load

CH = "pygaps.characterisation"


def S(n, **kw):
    return sp.Symbol(n, **(kw or {"positive": True}))


def mk(model):
    I = make_interp(model)
    install_vec(I)
    I.sympy_mode = True
    from .C17 import patch_constants
    patch_constants(I)
    return I


def r_isosteric(ctx: Ctx, model):
    ctx.rule("E-isosteric: ln p vs 1/T regression per loading, result -R*slope/1000, stderr R*stderr/1000, for 2, 3 and 4 temperatures")
    for NT in (2, 3, 4):
        _r_isosteric_n(ctx, model, NT)
    r_isosteric_wrapper(ctx, model)


def r_isosteric_wrapper(ctx: Ctx, model, prop="C19"):
    """isosteric_enthalpy: column j of the pressure table and temperatures[j] belong to the same isotherm, in any order of the list"""
    ctx.rule("E-isosteric (pairing): isosteric_enthalpy hands isosteric_enthalpy_raw, for every isotherm j, that isotherm's pressures "
             "as column j and that isotherm's temperature as temperatures[j] - for isotherms listed in any temperature order")
    I = mk(model)
    fi = model.func(f"{CH}.isosteric_enth.isosteric_enthalpy")
    cap = {}

    def raw(I, fi_, env, n):
        cap["pressures"], cap["temperatures"] = env.get("pressures"), env.get("temperatures")
        return ([S("h0")], [S("s0", real=True)], [S("c0", real=True)], [S("e0")])
    I.overrides[f"{CH}.isosteric_enth.isosteric_enthalpy_raw"] = raw
    temps = [sp.Integer(300), sp.Integer(260), sp.Integer(340)]          # deliberately not sorted
    acc_calls = []
    for j in range(3):
        kind = f"IsoT{j}"
        I.libmeth[(kind, "pressure_at")] = (lambda j: lambda I, v, a, k, n: (acc_calls.append((j, "pressure_at", dict(k))), Vec([S(f"pa{j}"), S(f"pb{j}")]))[1])(j)
        # concrete, overlapping loading ranges (the default loading grid takes minima / maxima over the isotherms)
        I.libmeth[(kind, "loading")] = (lambda j: lambda I, v, a, k, n: (acc_calls.append((j, "loading", dict(k))), Vec([sp.Integer(1 + j), sp.Integer(7 + j)]))[1])(j)
    # the three isotherms are stored in three different representations (same bases, as the function requires)
    reps = [("absolute", "bar", "mmol", "g"), ("absolute", "Pa", "mol", "kg"), ("relative", None, "mmol", "mg")]
    isos = [Obj(kind=f"IsoT{j}", label=f"iso{j}", attrs={"temperature": temps[j], "material": "M", "loading_basis": "molar", "material_basis": "mass",
                                                          "loading_unit": reps[j][2], "material_unit": reps[j][3], "pressure_mode": reps[j][0],
                                                          "pressure_unit": reps[j][1], "units": {}}) for j in range(3)]

    def np_array(I, a, k, n):
        v = a[0]
        if isinstance(v, list) and v and all(isinstance(x, Vec) for x in v):
            return Obj(kind="Mat", attrs={"rows": list(v)})
        return v
    I.ext["numpy.array"] = np_array
    I.ext["numpy.asarray"] = np_array
    I.libattr[("Mat", "T")] = lambda I, v, n: Obj(kind="MatT", attrs={"cols": v.attrs["rows"]})
    I.libmeth[("Mat", "transpose")] = lambda I, v, a, k, n: Obj(kind="MatT", attrs={"cols": v.attrs["rows"]})
    I.ext["numpy.linspace"] = lambda I, a, k, n: Vec([a[0], a[1]])
    # first without loading_points (the common loading range is derived from every isotherm's loadings), then with explicit points
    outs0 = I.explore(lambda I: I.call_func(fi, [list(isos)], {"branch": "ads"}, None))
    n_default = len(acc_calls)
    ctx.ob(bool(outs0) and all(o.kind == "ok" for o in outs0) and any(a_ == "loading" for _, a_, _ in acc_calls),
           Finding(f"{prop}.{'E-isosteric' if prop == 'C19' else 'R-pin'}", fi.where, "isosteric_enthalpy|default-loading-range",
                   f"isosteric_enthalpy without loading_points: outcome {[repr(o)[:80] for o in outs0[:2]]}; the common loading range must be "
                   "derived from the loadings of every isotherm"), nontrivial_key=("iso", "default-range"))
    outs = I.explore(lambda I: I.call_func(fi, [list(isos)], {"loading_points": Vec([S("n0"), S("n1")]), "branch": "ads"}, None))
    pr, tt = cap.get("pressures"), cap.get("temperatures")
    cols = pr.attrs["cols"] if isinstance(pr, Obj) and pr.kind == "MatT" else None
    tl = list(tt.items) if isinstance(tt, Vec) else list(tt) if isinstance(tt, (list, tuple)) else None
    ok = bool(outs) and all(o.kind == "ok" for o in outs) and cols is not None and tl is not None and len(cols) == 3 and len(tl) == 3
    if ok:
        for j in range(3):
            owner = next((m for m in range(3) if cols[j].items[0] == S(f"pa{m}")), None)
            ok = ok and owner is not None and sp.simplify(sp.sympify(tl[j]) - temps[owner]) == 0
    # every read of every isotherm is made in ONE representation - that of the first isotherm of the list
    want = {"pressure_mode": reps[0][0], "pressure_unit": reps[0][1], "loading_unit": reps[0][2], "material_unit": reps[0][3]}
    bad = []
    for j, acc, kw_ in acc_calls:
        keys = ("loading_unit", "material_unit") + (("pressure_mode", "pressure_unit") if acc == "pressure_at" else ())
        miss = {k_: kw_.get(k_, "<absent>") for k_ in keys if kw_.get(k_, "<absent>") != want[k_]}
        if miss or kw_.get("branch") != "ads":
            bad.append(f"iso{j}.{acc}({miss or 'branch=' + str(kw_.get('branch'))})")
    ctx.ob(bool(acc_calls) and not bad, Finding(f"{prop}.{'E-isosteric' if prop == 'C19' else 'R-pin'}", fi.where, "isosteric_enthalpy|common-representation",
                                                f"isotherms stored as {reps}: reads not made in the first isotherm's representation {want}: {bad[:4]} - the "
                                                "pressures of one loading must be comparable across the isotherms"),
           nontrivial_key=("iso", "representation"))
    if prop != "C19":
        return
    # "whatever the number of temperatures": two isotherms are a complete Clausius-Clapeyron set and must be accepted
    outs2 = I.explore(lambda I: I.call_func(fi, [list(isos[:2])], {"loading_points": Vec([S("n0"), S("n1")]), "branch": "ads"}, None))
    ctx.ob(bool(outs2) and all(o.kind == "ok" for o in outs2),
           Finding("C19.E-isosteric", fi.where, "isosteric_enthalpy|two-isotherms",
                   f"isosteric_enthalpy on two isotherms: {[repr(o)[:100] for o in outs2[:2]]}; two temperatures determine the slope and must be analysed"),
           nontrivial_key=("iso", "two"))
    ctx.ob(ok, Finding("C19.E-isosteric", fi.where, "isosteric_enthalpy|pairing",
                       f"isotherms at {temps} K (in that order): pressure columns {[str(c.items[0]) for c in cols] if cols else pr!r} are paired with "
                       f"temperatures {tl}: each column must be regressed against its own isotherm's temperature "
                       f"(outcome {[o.kind for o in outs]})"),
           nontrivial_key=("iso", "pairing"))


def _r_isosteric_n(ctx: Ctx, model, NT):
    I = mk(model)
    fi = model.func(f"{CH}.isosteric_enth.isosteric_enthalpy_raw")
    NL = 2
    T = [S(f"T{j}") for j in range(NT)]
    P = [[S(f"p{i}_{j}") for j in range(NT)] for i in range(NL)]
    regs = []

    def linregress(I, a, k, n):
        regs.append((a[0], a[1]))
        i = len(regs) - 1
        vals = (S(f"slope{i}", real=True), S(f"icpt{i}", real=True), S(f"corr{i}", real=True), S(f"pv{i}", real=True), S(f"se{i}"))
        # scipy returns a result object that unpacks like a 5-tuple and has named fields
        return Obj(kind="LinregressResult", label=f"fit{i}", attrs=dict(zip(("slope", "intercept", "rvalue", "pvalue", "stderr"), vals), _vals=vals))
    I.ext["scipy.stats.linregress"] = linregress
    I.libmeth[("LinregressResult", "__iter__")] = lambda I, v, a, k, n: list(v.attrs["_vals"])
    I.libmeth[("LinregressResult", "__getitem__")] = lambda I, v, a, k, n: v.attrs["_vals"][a[0]] if isinstance(a[0], slice) else v.attrs["_vals"][int(I.to_py(a[0], n))]
    I.ext["numpy.asarray"] = lambda I, a, k, n: Vec([Vec(r) if isinstance(r, list) else r for r in a[0]]) if isinstance(a[0], list) else a[0]
    outs = I.explore(lambda I: (regs.clear(), I.call_func(fi, [[list(r) for r in P], list(T)], {}, None), list(regs))[1:])
    if len(outs) != 1 or outs[0].kind != "ok":
        ctx.ob(False, Finding("C19.E-isosteric", fi.where, f"isosteric_raw|outcome|T{NT}", f"isosteric_enthalpy_raw ({NT} temperatures) -> {outs}"))
        return
    (enth, slopes, corr, stderrs), rg = outs[0].value
    R = S("R")
    ok = len(enth) == NL and all(decide_zero(enth[i] - (-R * S(f"slope{i}", real=True) / 1000))[0] == "zero" for i in range(NL))
    ok = ok and len(rg) == NL
    ctx.ob(ok, Finding("C19.E-isosteric", fi.where, f"isosteric_raw|formula|T{NT}",
                       f"{NT} temperatures: isosteric enthalpies are {[str(x) for x in enth]}; required -R*slope/1000 of a ln p vs 1/T regression "
                       f"per loading (kJ/mol); regressions performed: {len(rg)}"),
           nontrivial_key=("iso", "formula", NT), sample={"rule": "E-isosteric", "derived": [str(x) for x in enth]})
    okr = len(rg) == NL and all(isinstance(x, Vec) and isinstance(y, Vec) and
                                all(decide_zero(x.items[j] - 1 / T[j])[0] == "zero" for j in range(NT)) and
                                all(decide_zero(y.items[j] - sp.log(P[i][j]))[0] == "zero" for j in range(NT))
                                for i, (x, y) in enumerate(rg))
    ctx.ob(okr, Finding("C19.E-isosteric", fi.where, f"isosteric_raw|regression-variables|T{NT}",
                        f"each loading must regress ln(p) at that loading against 1/T; regressions: {[(I.describe(x), I.describe(y)) for x, y in rg]}"),
           nontrivial_key=("iso", "vars", NT))
    oks = len(stderrs) == NL and all(decide_zero(stderrs[i] - R * S(f"se{i}") / 1000)[0] == "zero" for i in range(NL))
    ctx.ob(oks, Finding("C19.E-isosteric", fi.where, f"isosteric_raw|stderr|T{NT}", f"standard errors {[str(x) for x in stderrs]}; required R*stderr/1000"),
           nontrivial_key=("iso", "stderr", NT))
    ctx.ob(list(slopes) == [S(f"slope{i}", real=True) for i in range(NL)], Finding("C19.E-isosteric", fi.where, f"isosteric_raw|slopes|T{NT}", "slopes are not returned verbatim"))


def r_whittaker(ctx: Ctx, model):
    ctx.rule("E-whittaker: closed form per loading and exact skip conditions, for Langmuir and Toth descriptions")
    fi = model.func(f"{CH}.enth_sorp_whittaker.enthalpy_sorption_whittaker")
    tr = Translator(model)
    for mname in ("Langmuir", "Toth"):
        I = mk(model)
        nm, K, tt = S("n_m"), S("K"), S("t")
        n = S("n")
        params = {"n_m": nm, "K": K} if mname == "Langmuir" else {"n_m": nm, "K": K, "t": tt}
        ci = model.cls(f"pygaps.modelling.{mname.lower()}.{mname}")
        p_model = tr.method(SelfCtx(ci, params=dict(params)), "pressure", [n])
        mi = model.cls("pygaps.core.modelisotherm.ModelIsotherm")
        ads = Obj(kind="AdsW", label="ads")
        I.libmeth[("AdsW", "p_critical")] = lambda I, v, a, k, n_: S("p_c")
        I.libmeth[("AdsW", "p_triple")] = lambda I, v, a, k, n_: S("p_t")
        I.libmeth[("AdsW", "t_critical")] = lambda I, v, a, k, n_: S("T_c")
        I.libmeth[("AdsW", "saturation_pressure")] = lambda I, v, a, k, n_: S("p_sat")
        I.libmeth[("AdsW", "enthalpy_vaporisation")] = lambda I, v, a, k, n_: sp.Function("hvap")(k.get("press", a[0] if a else None))
        I.libmeth[("AdsW", "__str__")] = lambda I, v, a, k, n_: "ads"
        modelobj = Obj(kind="ModelW", label="model", attrs={"name": mname, "params": dict(params), "loading_range": [S("l0"), S("l1")]})
        iso = lambda: Obj(cls=mi, label="iso", attrs={"model": modelobj, "_adsorbate": ads, "_temperature": S("T"), "temperature_unit": "K",
                                                       "pressure_mode": "absolute", "pressure_unit": "Pa", "loading_basis": "molar", "loading_unit": "mmol",
                                                       "material_basis": "mass", "material_unit": "g", "properties": {}, "branch": "ads", "_material": Obj(kind="Mat")})
        I.overrides["pygaps.core.modelisotherm.ModelIsotherm.pressure_at"] = lambda I, fi_, env, n_: S("WRONG_UNIT") if env.get("pressure_unit") != "Pa" else \
            Vec([p_model.subs(n, x) for x in env["loading"].items]) if isinstance(env["loading"], Vec) else p_model.subs(n, env["loading"])
        I.ext["numpy.isnan"] = lambda I, a, k, n_: False
        I.ext["builtins.max"] = lambda I, a, k, n_: sp.Max(*a)
        nval = S("nq")
        outs = I.explore(lambda I: I.call_func(fi, [iso()], {"loading": [nval]}, None))
        RT = S("R") * S("T")
        theta = nval / nm
        t_ = sp.Integer(1) if mname == "Langmuir" else tt
        b = K**(-t_)
        pq = p_model.subs(n, nval)
        want = (RT * sp.log(S("p_sat") / b**(1 / t_) * (theta**t_ / (1 - theta**t_))**((t_ - 1) / t_)) +
                sp.Function("hvap")(sp.Max(pq, S("p_t"))) * 1000 + RT) / 1000
        nkept = 0
        for oc in outs:
            if oc.kind != "ok":
                ctx.ob(False, Finding("C19.E-whittaker", fi.where, f"whittaker|{mname}|raises:{oc.exc.name}", f"Whittaker({mname}) raises {oc.exc}"))
                continue
            res = oc.value
            as_list = lambda v: list(v.items) if isinstance(v, Vec) else list(v)
            kept = as_list(res["enthalpy_sorption"])
            if kept:
                nkept += 1
                verdict, wit = decide_zero(kept[0] - want, symbols_domain={"nq": (sp.Rational(1, 10), sp.Rational(4, 10)), "n_m": (1, 2), "t": (sp.Rational(1, 2), sp.Rational(3, 2))})
                ctx.ob(verdict == "zero" and len(kept) == 1 and as_list(res["loading"]) == [nval],
                       Finding("C19.E-whittaker", fi.where, f"whittaker|{mname}|closed-form",
                               f"Whittaker enthalpy for a {mname} description is {sp.simplify(kept[0])}; the closed form is lambda + h_vap + RT with "
                               f"lambda = RT ln(p_sat/b^(1/t) (theta^t/(1-theta^t))^((t-1)/t)) (witness {wit})"),
                       nontrivial_key=("whittaker", mname, "formula"), sample={"rule": "E-whittaker", "model": mname, "derived": str(kept[0])[:300]})
            else:
                ctx.ob(as_list(res["loading"]) == [], Finding("C19.E-whittaker", fi.where, f"whittaker|{mname}|omitted-loading-reported",
                                                               "a loading without an enthalpy is reported"), nontrivial_key=("whittaker", mname, "omit"))
        # several loadings at once, concrete pressures: which loadings are kept, and that every kept loading is paired with ITS enthalpy
        ls = [S(f"nq{j}") for j in range(7)]
        pmap = dict(zip(ls, [sp.Integer(70), sp.Integer(10), sp.Integer(-1), sp.Integer(200), sp.Integer(20), sp.Integer(50), sp.Integer(0)]))      # p_c = 100, p_sat = 50
        consts = {"p_critical": sp.Integer(100), "saturation_pressure": sp.Integer(50), "p_triple": sp.Integer(15)}
        I2 = mk(model)
        for nm_, val in consts.items():
            I2.libmeth[("AdsW", nm_)] = (lambda val: lambda I, v, a, k, n_: val)(val)
        I2.libmeth[("AdsW", "t_critical")] = lambda I, v, a, k, n_: S("T_c")
        I2.libmeth[("AdsW", "enthalpy_vaporisation")] = lambda I, v, a, k, n_: sp.Function("hvap")(k.get("press", a[0] if a else None))
        I2.libmeth[("AdsW", "__str__")] = lambda I, v, a, k, n_: "ads"

        def p_at(I, fi_, env, n_):
            if env.get("pressure_unit") != "Pa":
                return S("WRONG_UNIT")
            l = env["loading"]
            return Vec([pmap[x] for x in l.items]) if isinstance(l, Vec) else pmap[l]
        I2.overrides["pygaps.core.modelisotherm.ModelIsotherm.pressure_at"] = p_at
        I2.ext["numpy.isnan"] = lambda I, a, k, n_: Vec([False] * len(a[0].items)) if isinstance(a[0], Vec) else False
        I2.ext["builtins.max"] = lambda I, a, k, n_: sp.Max(*a)
        I2.ext["builtins.min"] = lambda I, a, k, n_: sp.Min(*a)
        outs_m = I2.explore(lambda I: I.call_func(fi, [iso()], {"loading": list(ls)}, None))
        nsc = 0
        for oc in outs_m:
            if oc.kind != "ok":
                ctx.ob(False, Finding("C19.E-whittaker", fi.where, f"whittaker|{mname}|several-loadings-raises:{oc.exc.name}", f"Whittaker({mname}, five loadings) raises {oc.exc}"))
                continue
            below_tc = not any("T_c" in l and c == 1 for l, c in oc.decisions if "<" in l) or True
            res = oc.value
            psat_used = None
            keptl = list(res["loading"].items) if isinstance(res["loading"], Vec) else list(res["loading"])
            enth = list(res["enthalpy_sorption"].items) if isinstance(res["enthalpy_sorption"], Vec) else list(res["enthalpy_sorption"])
            # T < T_c: p_sat = 50 -> loadings with 0 <= p <= 50 are kept (nq1, nq4); T >= T_c: p_sat = p_c (T/T_c)^2, symbolic -> not inspected
            if any(isinstance(e, sp.Basic) and e.has(S("T_c")) for e in enth) or any("T_c" in l and c != 0 for l, c in oc.decisions):
                continue
            nsc += 1
            want_kept = [ls[1], ls[4], ls[5], ls[6]]
            okk = keptl == want_kept and len(enth) == len(want_kept)
            ctx.ob(okk, Finding("C19.E-whittaker", fi.where, f"whittaker|{mname}|kept-set",
                                f"model pressures {[str(pmap[x]) for x in ls]} (p_c = 100, p_sat = 50): the loadings kept are {keptl}; required exactly those "
                                f"with 0 <= p <= min(p_c, p_sat) (only p < 0, p > p_c, p > p_sat omit a loading): {want_kept}, each with one enthalpy (got {len(enth)})"),
                   nontrivial_key=("whittaker", mname, "kept-set"))
            if not okk:
                continue
            for l_, e_ in zip(keptl, enth):
                th = l_ / nm
                want_l = (RT * sp.log(sp.Integer(50) / b**(1 / t_) * (th**t_ / (1 - th**t_))**((t_ - 1) / t_)) +
                          sp.Function("hvap")(sp.Max(pmap[l_], sp.Integer(15))) * 1000 + RT) / 1000
                verdict, wit = decide_zero(e_ - want_l, symbols_domain={str(l_): (sp.Rational(1, 10), sp.Rational(4, 10)), "n_m": (1, 2), "t": (sp.Rational(1, 2), sp.Rational(3, 2))})
                ctx.ob(verdict == "zero", Finding("C19.E-whittaker", fi.where, f"whittaker|{mname}|pairing",
                                                  f"with a loading omitted before it, the enthalpy reported for loading {l_} is not the closed form evaluated at "
                                                  f"that loading and its own pressure {pmap[l_]} (witness {wit}): loadings and pressures / enthalpies are misaligned"),
                       nontrivial_key=("whittaker", mname, "pairing", str(l_)))
        ctx.floor(f"Whittaker {mname} several-loading paths inspected", nsc, 1)
        ctx.ob(nkept >= 1, Finding("C19.E-whittaker", fi.where, f"whittaker|{mname}|never-kept", "no path keeps the loading"), nontrivial_key=("kept", mname))


def r_whittaker_point(ctx: Ctx, model, prop="C19", rule="E-whittaker"):
    """a point isotherm handed to the Whittaker analysis is first copied, the COPY converted to absolute pressure in Pa, and a model
    fitted to the copy; the caller's object is never converted (route interpreted with recording stubs)"""
    ctx.rule("E-whittaker (point isotherms): copy -> convert_pressure(mode_to='absolute', unit_to='Pa') on the copy -> model_iso(copy, "
             "model=<requested>) -> closed form; the input object is not converted")
    fi = model.func(f"{CH}.enth_sorp_whittaker.enthalpy_sorption_whittaker")
    pi = model.cls("pygaps.core.pointisotherm.PointIsotherm")
    mi = model.cls("pygaps.core.modelisotherm.ModelIsotherm")
    for mname in ("Langmuir", "Toth"):
        I = mk(model)
        log = []
        ads = Obj(kind="AdsW", label="ads")
        for nm_, val in (("p_critical", S("p_c")), ("p_triple", S("p_t")), ("t_critical", S("T_c")), ("saturation_pressure", S("p_sat"))):
            I.libmeth[("AdsW", nm_)] = (lambda val: lambda I, v, a, k, n_: val)(val)
        I.libmeth[("AdsW", "enthalpy_vaporisation")] = lambda I, v, a, k, n_: sp.Function("hvap")(k.get("press", a[0] if a else None))
        I.libmeth[("AdsW", "__str__")] = lambda I, v, a, k, n_: "ads"
        params = {"n_m": S("n_m"), "K": S("K")} if mname == "Langmuir" else {"n_m": S("n_m"), "K": S("K"), "t": S("t")}
        modelobj = Obj(kind="ModelW", label="model", attrs={"name": mname, "params": dict(params), "loading_range": [S("l0"), S("l1")]})
        fitted = lambda: Obj(cls=mi, label="fitted", attrs={"model": modelobj, "_adsorbate": ads, "_temperature": S("T"), "temperature_unit": "K",
                                                             "pressure_mode": "absolute", "pressure_unit": "Pa", "loading_basis": "molar", "loading_unit": "mmol",
                                                             "material_basis": "mass", "material_unit": "g", "properties": {}, "branch": "ads", "_material": Obj(kind="Mat")})
        frame = Obj(kind="FrameW", label="data_raw")
        I.libmeth[("FrameW", "copy")] = lambda I, v, a, k, n_: Obj(kind="FrameW", label="data_raw.copy")
        inp = lambda: Obj(cls=pi, label="input", attrs={"data_raw": frame, "pressure_key": "pressure", "loading_key": "loading", "pressure_mode": "relative",
                                                        "pressure_unit": None, "_adsorbate": ads, "_temperature": S("T"), "temperature_unit": "K"})

        def from_iso(I, fi_, env, n_):
            log.append(("from_isotherm", getattr(env.get("isotherm"), "label", None), "shared" if env.get("isotherm_data") is frame else "fresh"))
            return Obj(cls=pi, label="copy", attrs={"pressure_mode": "relative", "pressure_unit": None})
        I.overrides["pygaps.core.pointisotherm.PointIsotherm.from_isotherm"] = from_iso
        I.overrides["pygaps.core.pointisotherm.PointIsotherm.convert_pressure"] = \
            lambda I, fi_, env, n_: log.append(("convert_pressure", getattr(env.get("self"), "label", None), {k_: v for k_, v in env.items() if k_ in ("mode_to", "unit_to")}))
        I.overrides["pygaps.modelling.model_iso"] = \
            lambda I, fi_, env, n_: (log.append(("model_iso", getattr(env.get("isotherm"), "label", None), env.get("model"), env.get("branch"))), fitted())[1]
        I.overrides["pygaps.core.modelisotherm.ModelIsotherm.pressure_at"] = \
            lambda I, fi_, env, n_: Vec([S(f"p_model{j}") for j in range(len(env["loading"].items))]) if isinstance(env.get("loading"), Vec) else S("p_model")
        I.ext["numpy.isnan"] = lambda I, a, k, n_: Vec([False] * len(a[0].items)) if isinstance(a[0], Vec) else False
        I.ext["builtins.max"] = lambda I, a, k, n_: sp.Max(*a)
        I.ext["builtins.min"] = lambda I, a, k, n_: sp.Min(*a)
        outs = I.explore(lambda I: (log.clear(), I.call_func(fi, [inp()], {"model": mname, "loading": [S("nq")]}, None), list(log))[1:])
        oks = [o for o in outs if o.kind == "ok"]
        lg = oks[0].value[1] if oks else []
        conv = [e for e in lg if e[0] == "convert_pressure"]
        # what matters: the object converted (and then fitted) is a copy with its own data table, the conversion names mode AND unit, the
        # requested model is fitted to the converted object's adsorption branch; how the copy is spelled is free
        ok = bool(oks) and [e for e in lg if e[0] == "from_isotherm"] == [("from_isotherm", "input", "fresh")] \
            and bool(conv) and all(e[1] == "copy" for e in conv) and conv[-1][2] == {"mode_to": "absolute", "unit_to": "Pa"} \
            and [e for e in lg if e[0] == "model_iso"] == [("model_iso", "copy", mname, "ads")] \
            and lg.index(conv[-1]) < lg.index(next(e for e in lg if e[0] == "model_iso"))
        ctx.ob(ok, Finding(f"{prop}.{rule}", fi.where, f"whittaker|point-route|{mname}",
                           f"enthalpy_sorption_whittaker(<PointIsotherm in relative pressure>, model={mname!r}): "
                           f"{lg if oks else [repr(o)[:90] for o in outs[:2]]}; required from_isotherm(input, isotherm_data=data_raw.copy()) -> "
                           "convert_pressure(mode_to='absolute', unit_to='Pa') on the copy -> model_iso(copy, model, branch='ads')"),
               nontrivial_key=("whittaker", "point-route", mname))
        # a model isotherm is used as it is: only one stored in (absolute) Pa is accepted
        for unit, mode, want_ok in (("Pa", "absolute", True), ("bar", "absolute", False), (None, "relative", False)):
            def given():
                o = fitted()
                o.attrs["pressure_unit"], o.attrs["pressure_mode"], o.label = unit, mode, "given-model"
                return o
            outs2 = I.explore(lambda I: (log.clear(), I.call_func(fi, [given()], {"loading": [S("nq")]}, None), list(log))[1:])
            if want_ok:
                ok2 = bool(outs2) and all(o.kind == "ok" for o in outs2) and not any(e[0] in ("convert_pressure", "model_iso") for o in outs2 for e in o.value[1])
            else:
                ok2 = bool(outs2) and all(o.kind == "raise" and o.exc.is_a("ParameterError") for o in outs2)
            ctx.ob(ok2, Finding(f"{prop}.{rule}", fi.where, f"whittaker|model-guard|{mname}|{mode}-{unit}",
                                f"enthalpy_sorption_whittaker(<ModelIsotherm stored in {mode} pressure, unit {unit}>): {[repr(o)[:90] for o in outs2[:2]]}; "
                                + ("required: used as it is" if want_ok else "required: refused with a parameter error (its parameters are not in Pa)")),
                   nontrivial_key=("whittaker", "model-guard", mname, str(unit)))


def r_point(ctx: Ctx, model):
    ctx.rule("E-point: initial_enthalpy_point == other_data(key, branch=branch)[0]")
    I = mk(model)
    fi = model.func(f"{CH}.initial_enth.initial_enthalpy_point")
    got = {}

    def other_data(I, v, a, k, n):
        got["args"] = (a, dict(k))
        return Vec([S("h0"), S("h1"), S("h2")])
    I.libmeth[("IsoP", "other_data")] = other_data
    I.libmeth[("IsoP", "loading")] = lambda I, v, a, k, n: Vec([S("n0"), S("n1"), S("n2")])
    for br in ("ads", "des"):
        outs = I.explore(lambda I: (got.clear(), I.call_func(fi, [Obj(kind="IsoP"), "enthalpy"], {"branch": br}, None), dict(got))[1:])
        for oc in outs:
            ok = oc.kind == "ok" and isinstance(oc.value[0], dict) and oc.value[0].get("initial_enthalpy") == S("h0") and \
                oc.value[1].get("args") == (["enthalpy"], {"branch": br})
            ctx.ob(ok, Finding("C19.E-point", fi.where, f"initial_enthalpy_point|{br}",
                               f"initial_enthalpy_point(branch={br!r}) -> {oc!r} with other_data{oc.value[1].get('args') if oc.kind == 'ok' else ''}; "
                               "required the first element of the enthalpy column of that branch"),
                   nontrivial_key=("point", br))


def run(ctx: Ctx):
    model = load(ctx.root)
    # the adsorbate constants the enthalpy routines ask for (triple / critical point, saturation pressure, vaporisation enthalpy) come from
    # the thermodynamic backend by default and in the documented units (getter outcome table shared with C20)
    from .C20 import r_getters
    r_getters(ctx, model, prop="C19", rule="E-adsorbate",
              only=("p_triple", "p_critical", "t_critical", "saturation_pressure", "enthalpy_vaporisation", "enthalpy_liquefaction"))
    ctx.assume("linregress on affine data returns the generating slope; CoolProp h_vap is a function of pressure only")
    r_isosteric(ctx, model)
    r_whittaker(ctx, model)
    r_whittaker_point(ctx, model)
    r_point(ctx, model)
    from ..sites import no_memoisation
    from .C02 import cache_reset_for
    cache_reset_for(ctx, "C19", "E-fresh")   # isosteric / Whittaker read pressure_at of converted isotherms: no cache survives a conversion
    ctx.rule("E-fresh (interpolated reads): pressure_at / loading_at answer from an interpolator built for the requested branch / kind / fill, "
             "whatever an earlier query left in the cache (cache discipline of C03, interpreted): an adsorption-branch isosteric analysis "
             "after a desorption-branch one must not read desorption pressures")
    from . import C03 as _C03
    from ..spec_iso import all_states as _all_states, mkstate as _mkstate
    _E3 = _C03.Engine(ctx.root, False)
    _pres, _load, _mat, _tus = _all_states(_E3.t, False)
    ctx.floor("cache-discipline cases", _C03.cache_discipline(ctx, _E3, _mkstate(_pres[0], _load[0], _mat[0], _tus[0]), prop="C19"), 30)
    ctx.rule("E-fresh: no caching decorator on any function of pygaps.characterisation.")
    no_memoisation(ctx, load(ctx.root), "C19", "E-fresh", ('pygaps.characterisation.',),
                   "cached adsorbate constants survive a change of the adsorbate's properties or backend")


META = {
    "technique": "abstract interpretation with symbolic terms of the three enthalpy routines; algebraic comparison with the clos"
                 "ed forms; a concrete multi-loading scenario for the omission rule and the loading / enthalpy pairing; getter o"
                 "utcome table for the adsorbate constants used",
    "level_text": "Static: isosteric_enthalpy_raw, enthalpy_sorption_whittaker (with Langmuir and Toth model pressures substituted "
                  "symbolically) and initial_enthalpy_point are interpreted with all quantities symbolic; the returned terms are "
                  "normalised against -R*slope/1000 and the Whittaker closed form for all parameters and loadings, and every "
                  "path that omits a loading is checked to be one of the documented conditions.",
    "level_note": "Trusted: linregress on affine data, CoolProp, sympy. Not decided: interpolation accuracy for point isotherms.",
}
