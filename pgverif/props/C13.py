"""C13 - IAST results satisfy the IAST equations (structural clauses).

Decided statically by abstract interpretation with symbolic terms of iast_point and reverse_iast on three-component
mixtures (pure-component spreading pressures and loadings are uninterpreted functions pi_i, n_i; the root finder is
summarised and its objective is evaluated on symbolic unknowns):
  I-residual  objective k is pi_k(p_k/x_k) - pi_(k+1)(p_(k+1)/x_(k+1)) with x_last = 1 - sum(others)
              (reverse: P*y_k/x_k with y_last = 1 - sum), every query made with the caller's branch
  I-guard     on every path that returns, the solver's success flag was tested (failure -> CalculationError) and every
              mole fraction was compared with 0 and with 1 (violation -> CalculationError)
  I-mixing    returned loadings are x_i * n_t with 1/n_t = sum_j x_j / n_j(p_j/x_j), in the caller's component order
  I-entry     the model whitelist and the absolute-pressure requirement refuse from all five entry points
  I-wrappers  partial pressures = fraction * total pressure; selectivity = (n0/y0)/(n1/y1); x = n0/(n0+n1); wrappers
              thread branch / guess to iast_point
  I-dtype     no accumulator array inherits the dtype of a caller-supplied array (integer partial pressures)
Not decided: that the equations hold numerically, closed forms, permutation invariance, forward/reverse inversion.
"""
from __future__ import annotations

import ast
import itertools

import sympy as sp

from ..absint import opt_args, ExcVal, Obj, Opaque, Raised, UnknownBool
from ..alg import decide_zero
from ..core import AnalysisError, Ctx, Finding
from ..domain import make_interp
from ..libsum import Vec, install_vec
from ..srcmodel import load

IA = "pygaps.iast.pgiast"
NC = 3


def S(n, **kw):
    return sp.Symbol(n, **(kw or {"positive": True}))


def mk(model):
    I = make_interp(model)
    install_vec(I)
    I.sympy_mode = True
    E = I.ext
    E["numpy.size"] = lambda I, a, k, n: sp.Integer(len(a[0].items)) if isinstance(a[0], Vec) else sp.Integer(len(a[0]))
    E["numpy.zeros"] = lambda I, a, k, n: Vec([sp.Integer(0)] * int(I.to_py(a[0][0] if isinstance(a[0], tuple) else a[0], n)))
    E["numpy.concatenate"] = lambda I, a, k, n: Vec([x for part in a[0] for x in (part.items if isinstance(part, Vec) else part)])
    E["numpy.testing.assert_almost_equal"] = lambda I, a, k, n: None
    E["numpy.append"] = lambda I, a, k, n: Vec(list(a[0].items if isinstance(a[0], Vec) else a[0]) + list(a[1].items if isinstance(a[1], Vec) else a[1] if isinstance(a[1], (list, tuple)) else [a[1]]))

    def asarr(I, a, k, n):
        v = a[0]
        return v if isinstance(v, Vec) else Vec(list(v))
    E["numpy.asarray"] = asarr
    E["numpy.array"] = asarr

    def np_any(I, a, k, n):
        v = a[0]
        items = v.items if isinstance(v, Vec) else [v]
        out = False
        for x in items:
            if I.truth(x, n):
                out = True
        return out
    E["numpy.any"] = np_any

    def np_sum(I, a, k, n):
        v = a[0]
        if isinstance(v, Vec):
            acc = sp.Integer(0)
            for x in v.items:
                if isinstance(x, (bool, UnknownBool)):
                    acc = acc + (1 if I.truth(x, n) else 0)
                else:
                    acc = acc + x
            return acc
        return v
    E["numpy.sum"] = np_sum

    def argsort(I, a, k, n):
        m = len(a[0].items)
        if all(getattr(x, "is_Integer", False) for x in a[0].items):
            vals = [int(x) for x in a[0].items]
            return Vec([sp.Integer(i) for i in sorted(range(m), key=lambda i: vals[i])])
        perms = list(itertools.permutations(range(m)))
        return Vec([sp.Integer(i) for i in perms[I.choose(len(perms), "argsort")]])
    E["numpy.argsort"] = argsort
    return I


def mk_isos(I, log):
    def spa(i):
        def f(I, v, a, k, n):
            log.append(("spreading_pressure_at", i, a[0], dict(k)))
            return sp.Function(f"pi{i}")(a[0])
        return f

    def lat(i):
        def f(I, v, a, k, n):
            log.append(("loading_at", i, a[0], dict(k)))
            return sp.Function(f"n{i}", positive=True)(a[0])
        return f
    isos = []
    for i in range(NC):
        kind = f"IsoI{i}"
        I.libmeth[(kind, "spreading_pressure_at")] = spa(i)
        I.libmeth[(kind, "loading_at")] = lat(i)
        I.libmeth[(kind, "pressure")] = (lambda i: lambda I, v, a, k, n: Obj(kind="PArr", attrs={"i": i}))(i)
        isos.append(Obj(kind=kind, label=f"iso{i}", attrs={"pressure_mode": "absolute", "pressure_unit": "bar"}))
    I.libmeth[("PArr", "max")] = lambda I, v, a, k, n: S(f"pmax{v.attrs['i']}")
    return isos


def run_point(ctx: Ctx, model, which):
    I = mk(model)
    fi = model.func(f"{IA}.{which}")
    log = []
    cap = {}

    def root(I, a, k, n):
        fun, x0 = a[0], a[1]
        unk = Vec([S(f"u{j}", real=True) for j in range(NC - 1)])
        cap["residual"] = I.call_value(fun, [unk] + opt_args(k), {}, n)
        cap["x0"] = x0
        cap["method"] = k.get("method")
        cap["log_at_solve"] = list(log)
        ok = I.choose(2, "root.success") == 0
        return Obj(kind="RootRes", attrs={"x": Vec([S(f"u{j}", real=True) for j in range(NC - 1)]), "success": ok, "message": "m"})
    I.ext["scipy.optimize.root"] = root
    p = [S(f"p{i}") for i in range(NC)]
    xs = [S(f"x{i}") for i in range(NC)]
    P = S("P")
    if which == "iast_point":
        args = lambda isos: ([isos, Vec(list(p))], {"branch": "BR", "warningoff": True})
    else:
        args = lambda isos: ([isos, Vec(list(xs)), P], {"branch": "BR", "warningoff": True})

    def thunk(I):
        log.clear()
        cap.clear()
        isos = mk_isos(I, log)
        a, k = args(isos)
        return I.call_func(fi, a, k, None), dict(cap), list(log)
    # reverse_iast compares sum(x) != 1.0 symbolically: make the supplied fractions sum to one
    if which == "reverse_iast":
        xs[NC - 1] = 1 - sum(xs[:NC - 1])
    outs = I.explore(thunk, max_paths=20000)
    u = [S(f"u{j}", real=True) for j in range(NC - 1)]
    u_all = u + [1 - sum(u)]
    nret = 0
    for oc in outs:
        dec = dict((l, c) for l, c in oc.decisions)
        succ = dec.get("root.success")
        guard_dec = [(l, c) for l, c in oc.decisions if ("<" in l or ">" in l) and "pmax" not in l]
        if oc.kind == "raise":
            ok = oc.exc.is_a("CalculationError") and not oc.exc.fault
            ctx.ob(ok, Finding("C13.I-guard", fi.where, f"{which}|n={NC}|raises:{oc.exc.name}", f"{which} raises {oc.exc} on path {oc.decisions}"),
                   nontrivial_key=(which, NC, "raise", tuple(c for l, c in oc.decisions)))
            continue
        nret += 1
        val, cp, lg = oc.value
        # I-guard: a returning path has success == True and all 2*NC comparisons decided False
        okg = succ == 0 and len(guard_dec) >= 2 * NC and all(c == 1 for l, c in guard_dec)
        ctx.ob(okg, Finding("C13.I-guard", fi.where, f"{which}|n={NC}|returns-unchecked",
                            f"{which} returns on a path with root.success={'True' if succ == 0 else 'False/untested'} and mole-fraction "
                            f"comparisons {guard_dec}: before returning, success must be tested and every fraction compared with 0 and 1"),
               nontrivial_key=(which, NC, "guard", tuple(c for l, c in oc.decisions)))
        # I-residual: every entry equates the spreading pressures of two components, each evaluated at its own fictitious
        # pressure p_c / X_c (reverse: P * Y_c / x_c); the assignment c -> X_c is a bijection onto {u_0..u_(n-2), 1 - sum u};
        # the equated pairs connect all components.  (Any order of components / any spanning chain is accepted.)
        res = cp.get("residual")
        X, edges, bad = {}, [], None
        for item in (res.items if isinstance(res, Vec) else [res]):
            item = sp.expand(item) if isinstance(item, sp.Basic) else item
            apps = sorted(item.atoms(sp.core.function.AppliedUndef), key=str) if isinstance(item, sp.Basic) else []
            if len(apps) != 2 or sp.simplify(item - (item.coeff(apps[0]) * apps[0] + item.coeff(apps[1]) * apps[1])) != 0 \
                    or {item.coeff(apps[0]), item.coeff(apps[1])} != {1, -1}:
                bad = f"entry `{item}` is not a difference of two pure-component spreading pressures"
                break
            pair = []
            for ap in apps:
                nm = ap.func.__name__
                if not nm.startswith("pi"):
                    bad = f"entry `{item}` uses {nm}"
                    break
                c = int(nm[2:])
                arg = ap.args[0]
                frac = sp.simplify(p[c] / arg) if which == "iast_point" else sp.simplify(arg * xs[c] / P)
                if c in X and sp.simplify(X[c] - frac) != 0:
                    bad = f"component {c} is evaluated with two different fractions ({X[c]} and {frac})"
                X[c] = frac
                pair.append(c)
            if bad:
                break
            edges.append(tuple(pair))
        if not bad:
            if sorted(X) != list(range(NC)):
                bad = f"components equated: {sorted(X)}; all of {list(range(NC))} required"
            else:
                rest = list(u_all)
                for c in range(NC):
                    hit = [r for r in rest if sp.simplify(r - X[c]) == 0]
                    if not hit:
                        bad = f"component {c} is evaluated at p_c/({X[c]}): not one of the unknown fractions / 1 - sum(unknowns) (or used twice)"
                        break
                    rest.remove(hit[0])
            comp = {c: c for c in range(NC)}
            def find(c):
                while comp[c] != c:
                    c = comp[c]
                return c
            for a_, b_ in edges:
                comp[find(a_)] = find(b_)
            if not bad and len({find(c) for c in range(NC)}) != 1:
                bad = f"equated pairs {edges} do not connect all components"
        ctx.ob(not bad, Finding("C13.I-residual", fi.where, f"{which}|n={NC}|residual",
                                f"{which}: solver objective {[str(x) for x in getattr(res, 'items', [res])]}: {bad}"),
               nontrivial_key=(which, NC, "residual"), sample={"rule": "I-residual", "function": which, "objective": [str(x) for x in getattr(res, "items", [])]} if nret == 1 else None)
        okb = all(e[3].get("branch") == "BR" for e in cp.get("log_at_solve", []) if e[0] == "spreading_pressure_at")
        ctx.ob(okb, Finding("C13.I-residual", fi.where, f"{which}|branch", "spreading pressures must be queried with the caller's branch"),
               nontrivial_key=(which, NC, "branch"))
        # the pure-component loadings of the mixing rule belong to the same branch as the spreading pressures that were equated
        lat_calls = [e for e in lg[len(cp.get("log_at_solve", [])):] if e[0] == "loading_at"]      # reads made after the solve (the starting guess is not content)
        okl = bool(lat_calls) and all(e[3].get("branch") == "BR" for e in lat_calls)
        ctx.ob(okl, Finding("C13.I-mixing", fi.where, f"{which}|mixing-branch",
                            f"{which}(branch='BR'): the pure-component loadings of the ideal-mixing rule are read with "
                            f"{sorted({repr(e[3].get('branch', '<default>')) for e in lat_calls})}: for an isotherm with hysteresis the total loading is "
                            "then computed from another branch than the one whose spreading pressures were equated"),
               nontrivial_key=(which, NC, "mixing-branch"))
        if bad:
            continue
        # I-mixing: in the caller's component order
        if which == "iast_point":
            xf = [X[c] for c in range(NC)]
            p0 = [p[i] / xf[i] for i in range(NC)]
            loadings = val
            gas = None
            ygas = None
        else:
            gas, loadings = val
            xf = xs
            ygas = [X[c] for c in range(NC)]
            p0 = [P * ygas[i] / xs[i] for i in range(NC)]
        inv = sum(xf[i] / sp.Function(f"n{i}", positive=True)(p0[i]) for i in range(NC))
        want_l = [xf[i] / inv for i in range(NC)]
        okm = isinstance(loadings, Vec) and len(loadings.items) == NC and all(sp.simplify(a - b) == 0 for a, b in zip(loadings.items, want_l))
        ctx.ob(okm, Finding("C13.I-mixing", fi.where, f"{which}|n={NC}|loadings",
                            f"{which}: returned loadings {[str(sp.simplify(x)) for x in getattr(loadings, 'items', [loadings])]}; required x_i*n_t with "
                            f"1/n_t = sum x_j/n_j(p0_j), in the caller's order: {[str(x) for x in want_l]}"),
               nontrivial_key=(which, NC, "mixing"))
        if gas is not None:
            okgz = isinstance(gas, Vec) and len(gas.items) == NC and all(sp.simplify(a - b) == 0 for a, b in zip(gas.items, ygas))
            ctx.ob(okgz, Finding("C13.I-mixing", fi.where, "reverse_iast|gas-fractions", "returned gas fractions must be the solved fractions (last = 1 - sum of the others) in the caller's order"),
                   nontrivial_key=(which, NC, "gas"))
    ctx.floor(f"{which} returning paths", nret, 1)


def r_entry(ctx: Ctx, model):
    ctx.rule("I-entry: whitelist and absolute-pressure refusal reached from all five entry points")
    mi = model.cls("pygaps.core.modelisotherm.ModelIsotherm")
    for name in ("iast_point", "reverse_iast", "iast_point_fraction", "iast_binary_svp", "iast_binary_vle"):
        fi = model.func(f"{IA}.{name}")
        for bad in ("model", "relative", "relative%"):
            I = mk(model)
            I.ext["numpy.linspace"] = lambda I, a, k, n: Vec([S("y0"), S("y1")])
            I.ext["numpy.array"] = lambda I, a, k, n: Obj(kind="Arr2", attrs={"rows": a[0]})
            I.libmeth[("Arr2", "transpose")] = lambda I, v, a, k, n: [Vec([S("y0"), 1 - S("y0")]), Vec([S("y1"), 1 - S("y1")])]
            I.ext["numpy.column_stack"] = lambda I, a, k, n: [Vec([S("y0"), 1 - S("y0")]), Vec([S("y1"), 1 - S("y1")])]
            I.ext["scipy.optimize.root"] = lambda I, a, k, n: Obj(kind="RootRes", attrs={"x": Vec([S("u0")]), "success": True})

            def iso(flag):
                attrs = {"pressure_mode": bad if (bad.startswith("relative") and flag) else "absolute", "pressure_unit": "bar",
                         "model": Obj(kind="M", attrs={"name": "Freundlich" if (bad == "model" and flag) else "Langmuir"})}
                return Obj(cls=mi, label="iso", attrs=attrs)
            isos = [iso(False), iso(True)]
            args = {"iast_point": [isos, Vec([S("p0"), S("p1")])], "reverse_iast": [isos, Vec([S("x0"), 1 - S("x0")]), S("P")],
                    "iast_point_fraction": [isos, Vec([S("y0"), 1 - S("y0")]), S("P")],
                    "iast_binary_svp": [isos, [sp.Rational(1, 2), sp.Rational(1, 2)], Vec([S("P0")])], "iast_binary_vle": [isos, S("P")]}[name]
            for nm in ("spreading_pressure_at", "loading_at"):
                I.overrides[f"pygaps.core.modelisotherm.ModelIsotherm.{nm}"] = lambda I, fi_, env, n: S("v")
            outs = I.explore(lambda I: I.call_func(fi, list(args), {"warningoff": True}, None), max_paths=5000)
            ok = outs and all(o.kind == "raise" and o.exc.is_a("ParameterError") for o in outs)
            ctx.ob(ok, Finding("C13.I-entry", fi.where, f"{name}|{bad}-not-refused",
                               f"{name} with {'a Freundlich model isotherm (not IAST-capable)' if bad == 'model' else 'an isotherm in ' + bad + ' pressure'} "
                               f"must raise ParameterError; outcomes {[repr(o)[:80] for o in outs[:3]]}"),
                   nontrivial_key=("entry", name, bad))


def r_wrappers(ctx: Ctx, model):
    ctx.rule("I-wrappers: partial pressure = fraction * total; selectivity and x formulas; threading of branch/guess")
    I = mk(model)
    fpf = model.func(f"{IA}.iast_point_fraction")
    cap = {}
    I.overrides[f"{IA}.iast_point"] = lambda I, fi, env, n: (cap.update(env), Vec([S("n0"), S("n1")]))[1]
    y = [S("y0"), S("y1")]
    outs = I.explore(lambda I: I.call_func(fpf, [["i0", "i1"], Vec(list(y)), S("P")], {"branch": "BR", "adsorbed_mole_fraction_guess": "G"}, None))
    pp = cap.get("partial_pressures")
    ok = len(outs) == 1 and outs[0].kind == "ok" and isinstance(pp, Vec) and all(sp.simplify(a - b * S("P")) == 0 for a, b in zip(pp.items, y)) \
        and cap.get("branch") == "BR" and cap.get("adsorbed_mole_fraction_guess") == "G"
    ctx.ob(ok, Finding("C13.I-wrappers", fpf.where, "iast_point_fraction|partial-pressures",
                       f"iast_point_fraction passes partial pressures {[str(x) for x in getattr(pp, 'items', [pp])]} (branch {cap.get('branch')}); required "
                       "fraction_i * total_pressure for the fractions as given (they need not sum to one), branch and guess threaded"),
           nontrivial_key=("wrap", "fraction"))
    # iast_binary_svp / iast_binary_vle: interpreted with symbolic numpy arrays (ndsym: the array algebra is carried out by numpy on
    # symbolic elements); iast_point_fraction is replaced by a recorder that returns fresh loadings (n0_k, n1_k) per call
    import numpy as _np
    from ..ndsym import eq_arrays, install_nd, to_np

    def arr(*xs):
        return _np.array(list(xs), dtype=object)
    for which in ("iast_binary_svp", "iast_binary_vle"):
        fi = model.func(f"{IA}.{which}")
        I = mk(model)
        install_nd(I)
        calls = []

        def rec(I, fi_, env, n, calls=calls):
            k = len(calls)
            calls.append(dict(env))
            return arr(S(f"n0_{k}"), S(f"n1_{k}"))
        I.overrides[f"{IA}.iast_point_fraction"] = rec
        I.ext["numpy.linspace"] = lambda I, a, k, n: arr(*[S(f"yl{j}") for j in range(int(I.to_py(a[2], n)))])
        isos = [Obj(kind="IsoW", label=f"iso{i}", attrs={"pressure_mode": "absolute", "pressure_unit": "bar", "adsorbate": f"A{i}"}) for i in range(2)]
        P = S("P")
        y0 = S("y0")
        if which == "iast_binary_vle":
            args, kw = [isos, P], {"npoints": sp.Integer(2), "branch": "BR", "adsorbed_mole_fraction_guess": "G", "warningoff": True}
        else:
            args, kw = [isos, arr(y0, 1 - y0), arr(S("P0"), S("P1"))], {"branch": "BR", "adsorbed_mole_fraction_guess": "G", "warningoff": True}
        outs = I.explore(lambda I: (calls.clear(), I.call_func(fi, list(args), dict(kw), None))[1])
        ok = len(outs) == 1 and outs[0].kind == "ok" and isinstance(outs[0].value, dict)
        why = f"outcome {outs[:1]}"

        def vec2(v):
            v = to_np(I, v)
            return list(v) if isinstance(v, (_np.ndarray, list, tuple)) and len(v) == 2 else None
        if ok:
            res = outs[0].value
            thread = all(c.get("branch") == "BR" and c.get("adsorbed_mole_fraction_guess") == "G" and c.get("isotherms") is isos for c in calls)
            if which == "iast_binary_vle":
                ys = [S("yl0"), S("yl1")]
                good_calls = len(calls) == 2 and all(vec2(c.get("gas_mole_fraction")) is not None and
                                                     eq_arrays(arr(*vec2(c["gas_mole_fraction"])), arr(ys[j], 1 - ys[j]))
                                                     and c.get("total_pressure") == P for j, c in enumerate(calls))
                xs_ = to_np(I, res.get("x"))
                want = arr(0, *[S(f"n0_{j}") / (S(f"n0_{j}") + S(f"n1_{j}")) for j in range(2)], 1)
                good_x = xs_ is not None and isinstance(xs_, (_np.ndarray, list, tuple)) and eq_arrays(_np.array(list(xs_), dtype=object), want)
                ok = thread and good_calls and good_x
                why = f"calls threaded={thread}, fractions/pressure passed correctly={good_calls}, x = n0/(n0+n1) with end points 0 and 1: {good_x} (x = {xs_})"
            else:
                good_calls = len(calls) == 2 and all(c.get("total_pressure") == S(f"P{j}") and vec2(c.get("gas_mole_fraction")) is not None
                                                     and sp.simplify(vec2(c["gas_mole_fraction"])[0] - y0) == 0 for j, c in enumerate(calls))
                sel = to_np(I, res.get("selectivity"))
                want = arr(*[(S(f"n0_{j}") / y0) / (S(f"n1_{j}") / (1 - y0)) for j in range(2)])
                good_s = isinstance(sel, (_np.ndarray, list, tuple)) and eq_arrays(_np.array(list(sel), dtype=object), want)
                ok = thread and good_calls and good_s
                why = f"calls threaded={thread}, fractions/pressures passed correctly={good_calls}, selectivity = (n0/y0)/(n1/y1): {good_s} ({sel})"
        ctx.ob(ok, Finding("C13.I-wrappers", fi.where, f"{which}|formula", f"{which}: {why}"), nontrivial_key=("wrap", which))


def r_dtype(ctx: Ctx, model):
    ctx.rule("I-dtype: accumulators are not created with *_like of a caller-supplied array (integer input would truncate)")
    m = model.module(IA)
    n = 0
    for fi in m.functions.values():
        params = set(fi.params())
        for call in ast.walk(fi.node):
            if isinstance(call, ast.Call) and ast.unparse(call.func) in ("numpy.zeros_like", "numpy.empty_like", "numpy.ones_like", "numpy.full_like"):
                n += 1
                base = call.args[0] if call.args else None
                names = {x.id for x in ast.walk(base) if isinstance(x, ast.Name)} if base is not None else set()
                has_dtype = any(k.arg == "dtype" for k in call.keywords)
                ctx.ob(has_dtype or not (names & params), Finding(
                    "C13.I-dtype", fi.where, f"{fi.name}|{ast.unparse(call)[:50]}",
                    f"line {call.lineno}: `{ast.unparse(call)}` inherits the dtype of a caller-supplied array: with integer partial pressures / "
                    "fractions the computed loadings stored in it are truncated"))
    ctx.ob(True, nontrivial_key=("dtype", n))
    ctx.analysed["like_calls"] = n


def run(ctx: Ctx):
    model = load(ctx.root)
    ctx.assume("scipy.optimize.root: res.success is truthful and res.x is a root of the objective when it is True")
    ctx.rule("I-residual / I-guard / I-mixing: symbolic interpretation of iast_point and reverse_iast for 3 components")
    global NC
    for NC in ((2, 3, 4) if ctx.tier == "thorough" else (2, 3)):        # mixtures of 2, 3 (and 4) components
        run_point(ctx, model, "iast_point")
        run_point(ctx, model, "reverse_iast")
    NC = 3
    r_entry(ctx, model)
    r_wrappers(ctx, model)
    r_dtype(ctx, model)
    from ..sites import methods_store_nothing
    ctx.rule("I-fresh: the pure-component spreading pressures IAST equates are computed from the isotherm's current data (no state kept in spreading_pressure_at)")
    methods_store_nothing(ctx, model, "C13", "I-fresh", ("pygaps.core.pointisotherm.PointIsotherm.spreading_pressure_at",
                                                         "pygaps.core.modelisotherm.ModelIsotherm.spreading_pressure_at"),
                          "IAST would equate spreading pressures of data the isotherm no longer holds (after a conversion)")
    from ..sites import no_absolute_tolerance
    ctx.rule("I-scale: no absolute-tolerance comparison on pressures / fractions / loadings inside pygaps.iast (any positive partial pressure counts)")
    no_absolute_tolerance(ctx, model, "C13", "I-scale", ("pygaps.iast.",), "partial pressures / mole fractions")
    from ..sites import no_memoisation
    ctx.rule("I-fresh (point isotherms): the interpolated reads IAST makes on a point isotherm (loading_at / pressure_at with the default "
             "arguments) do not reuse an interpolator an earlier call built for another branch / kind / fill value - the equations are "
             "solved for the given isotherm, not for what an earlier query left in its cache (cache discipline of C03, interpreted)")
    from . import C03
    from ..spec_iso import all_states, mkstate
    E3 = C03.Engine(ctx.root, False)
    pres, load_, mat, tus = all_states(E3.t, False)
    ncd = C03.cache_discipline(ctx, E3, mkstate(pres[0], load_[0], mat[0], tus[0]), prop="C13")
    ctx.floor("cache-discipline cases", ncd, 30)
    ctx.rule("I-args: no function of pygaps.iast. writes in place to a value that may be its own argument (numpy.asarray does not copy; "
             "a default starting guess may BE the requested composition)")
    from ..sites import no_inplace_on_arguments
    no_inplace_on_arguments(ctx, load(ctx.root), "C13", "I-args", ('pygaps.iast.',),
                            "the composition / pressures the equations are solved for would be rewritten before (or for the next) solve - forward and "
                            "reverse IAST stop inverting each other, default and user guesses disagree")
    ctx.rule("I-fresh: no caching decorator on any function of pygaps.iast., pygaps.modelling.")
    no_memoisation(ctx, load(ctx.root), "C13", "I-fresh", ('pygaps.iast.', 'pygaps.modelling.'),
                   "IAST would equate spreading pressures computed for other parameters")


META = {
    "technique": "abstract interpretation with symbolic terms of iast_point / reverse_iast (root finder summarised, objective "
                 "evaluated on symbolic unknowns, all guard outcomes enumerated); entry-point and wrapper rules",
    "level_text": "Static: for a three-component mixture with uninterpreted pure-component functions the solver objective, the "
                  "success test, the [0,1] guard on every fraction (all 2^6 comparison outcomes x solver success), the ideal "
                  "mixing post-processing and the component order of the result are derived from the source and compared with "
                  "the IAST equations; whitelist / absolute-pressure refusals are checked from all five entry points.",
    "level_note": "Trusted: scipy root result fields. Not decided: numerical satisfaction of the equations, closed forms, "
                  "permutation invariance, forward/reverse inversion.",
}
