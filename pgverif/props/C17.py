"""C17 - Horvath-Kawazoe pore widths solve the method's potential equation.

Decided statically (abstract interpretation with symbolic terms + [ALG] normal forms + protocol rules):
  H-slit     the slit potential closure built by psd_horvath_kawazoe equals the published Horvath-Kawazoe equation
             (transcribed here from Horvath & Kawazoe 1983, eq. for slit pores; sigma = (2/5)^(1/6) d0), including the
             nm -> m factors, N_A/(RT), and the Kirkwood-Mueller dispersion constants (1e-27 nm3 -> m3)
  H-solve    _solve_hk / _solve_hk_cy: one bounded scalar minimisation per pressure point, objective
             (exp(phi(l) [- sf]) - p_i)^2 of THAT point, bounds (geometric minimum, 50) independent of earlier
             results, exactly one width appended per point until the documented stop; no point is skipped
  H-report   reported widths are L - d_mat (slit) / 2L - d_mat (cylinder, sphere) of the minimisers; cumulative volume =
             loading * M / rho / 1000 (cm3 for mmol, g/mol, g/cm3) aligned with the widths; distribution = diff(V)/diff(w)
  H-dispatch psd_microporous calls the HK / RY routine with use_cy True exactly for HK-CY / RY-CY and passes the window
             [minimum : maximum + 1] of both arrays
  H-params   shipped adsorbent parameter sets carry the four HK keys
  H-cylinder(RY) / H-sphere(RY) / H-slit(RY) / H-cylinder   the multilayer and series potentials against the documented equations
Not decided: where the infinite series are truncated, minimiser accuracy, monotonicity of widths.
"""
from __future__ import annotations

import ast

import sympy as sp

from ..absint import opt_args, LambdaRef, FuncRef, Obj, Opaque, Raised
from ..alg import decide_zero
from ..core import AnalysisError, Ctx, Finding
from ..domain import make_interp
from ..libsum import Vec, install_vec
from ..num import Num
from ..srcmodel import load

PMI = "pygaps.characterisation.psd_micro"


def S(name):
    return sp.Symbol(name, positive=True)


CONST = {"scipy.constants.Avogadro": S("N_A"), "scipy.constants.gas_constant": S("R"), "scipy.constants.pi": sp.pi,
         "scipy.constants.electron_mass": S("m_e"), "scipy.constants.speed_of_light": S("c_l")}


def mk(model):
    I = make_interp(model)
    install_vec(I)
    I.sympy_mode = True
    return I


def patch_constants(I):
    """library constants become symbols in symbolic mode"""
    orig = I.getattr_

    def getattr_(v, name, node):
        from ..absint import ExtRef
        if isinstance(v, ExtRef) and f"{v.dotted}.{name}" in CONST:
            return CONST[f"{v.dotted}.{name}"]
        return orig(v, name, node)
    I.getattr_ = getattr_


def props(prefix):
    return {"molecular_diameter": S(f"d_{prefix}"), "polarizability": S(f"alpha_{prefix}"),
            "magnetic_susceptibility": S(f"chi_{prefix}"), "surface_density": S(f"N_{prefix}"),
            "liquid_density": S("rho"), "adsorbate_molar_mass": S("M")}


def r_slit_and_report(ctx: Ctx, model):
    ctx.rule("H-slit [ALG]: potential closure == published slit HK equation; H-report: width transform, volume, distribution")
    I = mk(model)
    patch_constants(I)
    fi = model.func(f"{PMI}.psd_horvath_kawazoe")
    NP = 3
    captured = {}

    def fake_solver(cy):
        def f(I, fi_, env, n):
            captured["fun"] = env["hk_fun"]
            captured["bound"] = env["bound"]
            captured["geo"] = env["geo"]
            captured["cy"] = cy
            captured["pressure"] = env["pressure"]
            return [S(f"Lw{i}") for i in range(NP)]
        return f
    I.overrides[f"{PMI}._solve_hk"] = fake_solver(False)
    I.overrides[f"{PMI}._solve_hk_cy"] = fake_solver(True)
    p = Vec([S(f"p{i}") for i in range(NP)])
    n = Vec([S(f"n{i}") for i in range(NP)])
    T = S("T")
    a, m = props("a"), {k: v for k, v in props("m").items() if k not in ("liquid_density", "adsorbate_molar_mass")}
    want_transform = {"slit": lambda L: L - m["molecular_diameter"], "cylinder": lambda L: 2 * L - m["molecular_diameter"],
                      "sphere": lambda L: 2 * L - m["molecular_diameter"]}
    for geom in ("slit", "cylinder", "sphere"):
        for use_cy in (False, True):
            captured.clear()
            outs = I.explore(lambda I: I.call_func(fi, [p, n, T, geom, dict(a), dict(m)], {"use_cy": use_cy}, None))
            if len(outs) != 1 or outs[0].kind != "ok":
                ctx.ob(False, Finding("C17.H-report", fi.where, f"hk|{geom}|outcome", f"psd_horvath_kawazoe({geom}) -> {outs}"))
                continue
            ctx.ob(captured.get("cy") is use_cy, Finding("C17.H-solve", fi.where, f"hk|{geom}|solver-choice",
                                                         f"use_cy={use_cy} dispatches to the {'CY' if captured.get('cy') else 'plain'} solver"),
                   nontrivial_key=("solver", geom, use_cy))
            avgw, dist, vol = outs[0].value
            w = [want_transform[geom](S(f"Lw{i}")) for i in range(NP)]
            V = [n.items[i] * S("M") / S("rho") / 1000 for i in range(NP)]
            ok = len(avgw.items) == NP - 1 and all(decide_zero(avgw.items[k] - (w[k] + w[k + 1]) / 2)[0] == "zero" for k in range(NP - 1))
            ctx.ob(ok, Finding("C17.H-report", fi.where, f"hk|{geom}|widths",
                               f"{geom}: reported widths {[str(sp.simplify(x)) for x in avgw.items]} are not the interval means of the documented "
                               f"transform of the minimisers ({'L - d_mat' if geom == 'slit' else '2L - d_mat'})"),
                   nontrivial_key=("widths", geom, use_cy), sample={"rule": "H-report", "geometry": geom, "widths": [str(x) for x in avgw.items]})
            okv = len(vol.items) == NP - 1 and all(decide_zero(vol.items[k] - V[k + 1])[0] == "zero" for k in range(NP - 1))
            ctx.ob(okv, Finding("C17.H-report", fi.where, f"hk|{geom}|cumulative-volume",
                                f"{geom}: cumulative volume {[str(x) for x in vol.items]}; required loading*M/rho/1000 of points 1.. (cm3/g)"),
                   nontrivial_key=("volume", geom, use_cy))
            okd = len(dist.items) == NP - 1 and all(decide_zero(dist.items[k] - (V[k + 1] - V[k]) / (w[k + 1] - w[k]))[0] == "zero" for k in range(NP - 1))
            ctx.ob(okd, Finding("C17.H-report", fi.where, f"hk|{geom}|distribution", f"{geom}: distribution is not diff(volume)/diff(width)"),
                   nontrivial_key=("dist", geom, use_cy))
            if geom == "slit" and not use_cy:
                phi_f = captured["fun"]
                l = S("l")
                outs2 = I.explore(lambda I: I.call_value(phi_f, [l], {}, None))
                if len(outs2) != 1 or outs2[0].kind != "ok":
                    raise AnalysisError(f"slit potential closure cannot be evaluated: {outs2}")
                phi = outs2[0].value
                d0 = (a["molecular_diameter"] + m["molecular_diameter"]) / 2
                # sigma = c * d0: the candidates for c are the exact (2/5)^(1/6) and every float literal of the function near it
                exact_c = sp.Rational(2, 5) ** sp.Rational(1, 6)
                cands = [exact_c] + [sp.Rational(repr(k_.value)) for k_ in ast.walk(fi.node)
                                     if isinstance(k_, ast.Constant) and isinstance(k_.value, float) and abs(k_.value - float(exact_c)) < 1e-2]
                A_a = sp.Rational(3, 2) * S("m_e") * S("c_l")**2 * (a["polarizability"] * sp.Rational(1, 10**27)) * (a["magnetic_susceptibility"] * sp.Rational(1, 10**27))
                pa, pm_ = a["polarizability"] * sp.Rational(1, 10**27), m["polarizability"] * sp.Rational(1, 10**27)
                ca, cm = a["magnetic_susceptibility"] * sp.Rational(1, 10**27), m["magnetic_susceptibility"] * sp.Rational(1, 10**27)
                A_m = 6 * S("m_e") * S("c_l")**2 * pa * pm_ / (pa / ca + pm_ / cm)
                verdict, wit, cval = "nonzero", None, None
                for cand in cands:
                    sig = cand * d0
                    want = (S("N_A") / (S("R") * T)) * (a["surface_density"] * A_a + m["surface_density"] * A_m) / ((sig * sp.Rational(1, 10**9))**4 * (l - 2 * d0)) * \
                        (sig**4 / (3 * (l - d0)**3) - sig**10 / (9 * (l - d0)**9) - sig**4 / (3 * d0**3) + sig**10 / (9 * d0**9))
                    v_, w_ = decide_zero(phi - want, symbols_domain={"l": (2, 3), "d_a": (sp.Rational(3, 10), sp.Rational(4, 10)), "d_m": (sp.Rational(3, 10), sp.Rational(4, 10))})
                    if v_ == "zero":
                        verdict, wit, cval = v_, w_, cand
                        break
                    wit = wit or w_
                if cval is not None:
                    ctx.ob(abs(float(cval) - float(exact_c)) < 1e-6, Finding("C17.H-slit", fi.where, f"slit|sigma-constant={float(cval):.7f}",
                                                                          f"sigma = {float(cval)} * d0; the zero-energy distance is (2/5)^(1/6) d0 = {float(exact_c):.7f} d0"),
                           nontrivial_key=("sigma",))
                ctx.ob(verdict == "zero", Finding("C17.H-slit", fi.where, "slit|potential!=published-equation",
                                                  f"the slit potential built by psd_horvath_kawazoe differs from the published Horvath-Kawazoe equation "
                                                  f"(with Kirkwood-Mueller constants, nm->m factors, N_A/RT); witness {wit}"),
                       nontrivial_key=("slit", "phi"), sample={"rule": "H-slit", "derived": str(phi)[:300]})
                ctx.ob(decide_zero(captured["bound"] - 2 * d0)[0] == "zero" and captured["geo"] == 1,
                       Finding("C17.H-solve", fi.where, "slit|solver-bounds", f"slit solver lower bound {captured['bound']}, geo {captured['geo']}; required 2*d0, 1"),
                       nontrivial_key=("slit", "bound"))
            if geom == "sphere" and not use_cy:
                # Cheng & Yang (1994) spherical cavity: 6 (n1 A12/(4 d0^6) + n2 A22/(4 d_ads^6)) L^3/(L-d0)^3 *
                #   [ -(d0/L)^6 (T1/12 + T2/8) + (d0/L)^12 (T3/90 + T4/80) ],  n1 = 4 pi L^2 N_mat, n2 = 4 pi (L-d0)^2 N_ads,
                #   T1 = (1-s)^-3 - (1+s)^-3, T2 = (1+s)^-2 - (1-s)^-2, T3 = (1-s)^-9 - (1+s)^-9, T4 = (1+s)^-8 - (1-s)^-8, s = (L-d0)/L
                phi_f = captured["fun"]
                l = S("l")
                outs2 = I.explore(lambda I: I.call_value(phi_f, [l], {}, None))
                if len(outs2) != 1 or outs2[0].kind != "ok":
                    raise AnalysisError(f"sphere potential closure cannot be evaluated: {outs2}")
                phi = outs2[0].value
                d0 = (a["molecular_diameter"] + m["molecular_diameter"]) / 2
                nm9 = sp.Rational(1, 10**9)
                pa, pm_ = a["polarizability"] * sp.Rational(1, 10**27), m["polarizability"] * sp.Rational(1, 10**27)
                ca, cm = a["magnetic_susceptibility"] * sp.Rational(1, 10**27), m["magnetic_susceptibility"] * sp.Rational(1, 10**27)
                A22 = sp.Rational(3, 2) * S("m_e") * S("c_l")**2 * pa * ca
                A12 = 6 * S("m_e") * S("c_l")**2 * pa * pm_ / (pa / ca + pm_ / cm)
                e12 = A12 / (4 * (d0 * nm9)**6)
                e22 = A22 / (4 * (a["molecular_diameter"] * nm9)**6)
                n1 = 4 * sp.pi * (l * nm9)**2 * m["surface_density"]
                n2 = 4 * sp.pi * ((l - d0) * nm9)**2 * a["surface_density"]
                s_ = (l - d0) / l
                T1, T2 = (1 - s_)**-3 - (1 + s_)**-3, (1 + s_)**-2 - (1 - s_)**-2
                T3, T4 = (1 - s_)**-9 - (1 + s_)**-9, (1 + s_)**-8 - (1 - s_)**-8
                want = (S("N_A") / (S("R") * T)) * 6 * (n1 * e12 + n2 * e22) * (l / (l - d0))**3 * \
                    (-(d0 / l)**6 * (T1 / 12 + T2 / 8) + (d0 / l)**12 * (T3 / 90 + T4 / 80))
                verdict, wit = decide_zero(phi - want, symbols_domain={"l": (2, 3), "d_a": (sp.Rational(3, 10), sp.Rational(4, 10)), "d_m": (sp.Rational(5, 10), sp.Rational(6, 10))})
                ctx.ob(verdict == "zero", Finding("C17.H-sphere", fi.where, "hk-sphere|potential!=published-equation",
                                                  "the spherical-cavity potential built by psd_horvath_kawazoe differs from the Cheng-Yang equation "
                                                  "6 (n1 A12/(4 d0^6) + n2 A22/(4 d_ads^6)) L^3/(L-d0)^3 [-(d0/L)^6 (T1/12 + T2/8) + (d0/L)^12 (T3/90 + T4/80)] "
                                                  f"(Kirkwood-Mueller constants, nm->m factors, N_A/RT); witness {wit}"),
                       nontrivial_key=("sphere-hk", "phi"), sample={"rule": "H-sphere", "derived": str(phi)[:300]})
                ctx.ob(decide_zero(captured["bound"] - d0)[0] == "zero" and captured["geo"] == 2,
                       Finding("C17.H-solve", fi.where, "sphere|solver-bounds", f"sphere solver lower bound {captured['bound']}, geo {captured['geo']}; required d0, 2"),
                       nontrivial_key=("sphere", "bound"))


def r_ry_sphere(ctx: Ctx, model):
    """Rege-Yang spherical pore: the potential closure, evaluated for pores holding 1, 2 and 3 adsorbate layers, against the
    equations the method documents (Rege & Yang 2000 as restated in the function's docstring):
      eps_1 = 2 n_0 A_gh/(4 d_0^6) F(a_1),   eps_i = 2 n_(i-1) A_gg/(4 d_g^6) F(a_i)  (i >= 2),   b = 1 - a,
      F(a) = a^12/(10 b) ((1-b)^-10 - (1+b)^-10) - a^6/(4 b) ((1-b)^-4 - (1+b)^-4),
      a_1 = d_0/L,  a_i = d_g/(L - d_0 - (i-2) d_g),  n_0 = 4 pi L^2 n_h,  n_i = 4 pi (L - d_0 - (i-1) d_g)^2 n_g,
      potential = N_A/(RT) * sum_(i=1..M) n_i eps_i / sum_(i=1..M) n_i"""
    ctx.rule("H-sphere(RY) [ALG]: the Rege-Yang sphere potential for 1, 2 and 3 layers equals the documented layer equations "
             "(layer i interacts with the population of layer i-1; weights n_1..n_M)")
    I = mk(model)
    patch_constants(I)
    fi = model.func(f"{PMI}.psd_horvath_kawazoe_ry")
    captured = {}

    def fake_solver(I, fi_, env, n):
        captured["fun"] = env["hk_fun"]
        return [S("Lw0"), S("Lw1"), S("Lw2")]
    I.overrides[f"{PMI}._solve_hk"] = fake_solver
    I.overrides[f"{PMI}._solve_hk_cy"] = fake_solver
    p = Vec([S(f"p{i}") for i in range(3)])
    nload = Vec([S(f"n{i}") for i in range(3)])
    T = S("T")
    a, m = props("a"), {k: v for k, v in props("m").items() if k not in ("liquid_density", "adsorbate_molar_mass")}
    outs = I.explore(lambda I: I.call_func(fi, [p, nload, T, "sphere", dict(a), dict(m)], {}, None))
    if not outs or outs[0].kind != "ok" or "fun" not in captured:
        raise AnalysisError(f"psd_horvath_kawazoe_ry(sphere) cannot be interpreted: {outs[:1]}")
    phi_f = captured["fun"]
    l = S("l")
    layers = {}
    orig_int = I.ext.get("builtins.int")

    def int_fork(I, a_, k, n):
        v = a_[0]
        if _is_symbolic(v):
            m_ = I.choose(3, "layers-1")         # int(...) + 1 layers: 1, 2 or 3
            layers["M"] = m_ + 1
            return sp.Integer(m_)
        return orig_int(I, a_, k, n)
    I.ext["builtins.int"] = int_fork
    d_g, d_h = a["molecular_diameter"], m["molecular_diameter"]
    d0 = (d_g + d_h) / 2
    nm = sp.Rational(1, 10**9)
    pa, pm_ = a["polarizability"] * sp.Rational(1, 10**27), m["polarizability"] * sp.Rational(1, 10**27)
    ca, cm = a["magnetic_susceptibility"] * sp.Rational(1, 10**27), m["magnetic_susceptibility"] * sp.Rational(1, 10**27)
    A_gg = sp.Rational(3, 2) * S("m_e") * S("c_l")**2 * pa * ca
    A_gh = 6 * S("m_e") * S("c_l")**2 * pa * pm_ / (pa / ca + pm_ / cm)

    def F(a_):
        b_ = 1 - a_
        return a_**12 / (10 * b_) * ((1 - b_)**-10 - (1 + b_)**-10) - a_**6 / (4 * b_) * ((1 - b_)**-4 - (1 + b_)**-4)
    npaths = 0
    for oc in I.explore(lambda I: (layers.clear(), I.call_value(phi_f, [l], {}, None), layers.get("M"))[1:]):
        if oc.kind != "ok":
            raise AnalysisError(f"RY sphere potential closure cannot be evaluated: {oc}")
        phi, M = oc.value
        npaths += 1
        n0 = 4 * sp.pi * (l * nm)**2 * m["surface_density"]
        ni = lambda i: 4 * sp.pi * ((l - d0 - (i - 1) * d_g) * nm)**2 * a["surface_density"]
        eps = [2 * n0 * A_gh / (4 * (d0 * nm)**6) * F(d0 / l)]
        for i in range(2, M + 1):
            eps.append(2 * ni(i - 1) * A_gg / (4 * (d_g * nm)**6) * F(d_g / (l - d0 - (i - 2) * d_g)))
        want = (S("N_A") / (S("R") * T)) * sum(ni(i) * eps[i - 1] for i in range(1, M + 1)) / sum(ni(i) for i in range(1, M + 1))
        verdict, wit = decide_zero(phi - want, symbols_domain={"l": (sp.Rational(5, 2), 3), "d_a": (sp.Rational(3, 10), sp.Rational(35, 100)),
                                                               "d_m": (sp.Rational(3, 10), sp.Rational(35, 100))})
        ctx.ob(verdict == "zero", Finding("C17.H-sphere", fi.where, f"ry-sphere|layers={M}|potential!=documented-equation",
                                          f"Rege-Yang sphere potential with {M} layer(s) differs from the documented equations (eps_i uses the population "
                                          f"of layer i-1, a_i = d_g/(L - d_0 - (i-2) d_g), weights n_1..n_M); witness {wit}"),
               nontrivial_key=("ry-sphere", M), sample={"rule": "H-sphere", "layers": M})
    ctx.floor("RY sphere layer cases", npaths, 3)


def r_ry_slit(ctx: Ctx, model):
    """Rege-Yang slit pore against the equations the method documents:
      M = (L - d_h)/d_g;  M < 2: eps = n_h A_gh/(2 s^4) [ (s/d0)^10 - (s/d0)^4 - (s/(L-d0))^10 + (s/(L-d0))^4 ]   (sign as coded: the
      wall terms enter with the same sign convention as the published slit equation);
      M >= 2: eps_hgg = n_h A_gh/(2 s^4)[(s/d0)^10 - (s/d0)^4] + n_g A_gg/(2 sg^4)[(sg/dg)^10 - (sg/dg)^4],
              eps_ggg = 2 n_g A_gg/(2 sg^4)[(sg/dg)^10 - (sg/dg)^4],  eps = [2 eps_hgg + (M-2) eps_ggg]/M,
      s = (2/5)^(1/6) d0, sg = (2/5)^(1/6) d_g, potential = N_A/(RT) eps"""
    ctx.rule("H-slit(RY) [ALG]: the Rege-Yang slit potential for fewer than two layers and for M >= 2 layers equals the documented equations "
             "(guest-guest terms scaled with sigma_g = (2/5)^(1/6) d_g, wall terms with sigma = (2/5)^(1/6) d_0)")
    I = mk(model)
    patch_constants(I)
    fi = model.func(f"{PMI}.psd_horvath_kawazoe_ry")
    captured = {}

    def fake_solver(I, fi_, env, n):
        captured["fun"] = env["hk_fun"]
        return [S("Lw0"), S("Lw1"), S("Lw2")]
    I.overrides[f"{PMI}._solve_hk"] = fake_solver
    I.overrides[f"{PMI}._solve_hk_cy"] = fake_solver
    p = Vec([S(f"p{i}") for i in range(3)])
    nload = Vec([S(f"n{i}") for i in range(3)])
    T = S("T")
    a, m = props("a"), {k: v for k, v in props("m").items() if k not in ("liquid_density", "adsorbate_molar_mass")}
    outs = I.explore(lambda I: I.call_func(fi, [p, nload, T, "slit", dict(a), dict(m)], {}, None))
    if not outs or outs[0].kind != "ok" or "fun" not in captured:
        raise AnalysisError(f"psd_horvath_kawazoe_ry(slit) cannot be interpreted: {outs[:1]}")
    phi_f = captured["fun"]
    l = S("l")
    d_g, d_h = a["molecular_diameter"], m["molecular_diameter"]
    d0 = (d_g + d_h) / 2
    nm = sp.Rational(1, 10**9)
    pa, pm_ = a["polarizability"] * sp.Rational(1, 10**27), m["polarizability"] * sp.Rational(1, 10**27)
    ca, cm = a["magnetic_susceptibility"] * sp.Rational(1, 10**27), m["magnetic_susceptibility"] * sp.Rational(1, 10**27)
    A_gg = sp.Rational(3, 2) * S("m_e") * S("c_l")**2 * pa * ca
    A_gh = 6 * S("m_e") * S("c_l")**2 * pa * pm_ / (pa / ca + pm_ / cm)
    exact_c = sp.Rational(2, 5) ** sp.Rational(1, 6)
    cands = [exact_c] + sorted({sp.Rational(repr(k_.value)) for k_ in ast.walk(fi.node)
                                if isinstance(k_, ast.Constant) and isinstance(k_.value, float) and abs(k_.value - float(exact_c)) < 1e-2}, key=float)
    npaths = 0
    for oc in I.explore(lambda I: I.call_value(phi_f, [l], {}, None)):
        if oc.kind != "ok":
            raise AnalysisError(f"RY slit potential closure cannot be evaluated: {oc}")
        few = any(c == 0 for lbl, c in oc.decisions if "<" in lbl) or not any(c == 1 for lbl, c in oc.decisions)
        # which branch: decided by evaluating both documented forms (the fork on M < 2 is a comparison on symbols)
        phi = oc.value
        npaths += 1
        M = (l - d_h) / d_g
        verdicts = {}
        for c_ in cands:
            s_, sg = c_ * d0, c_ * d_g
            wall = m["surface_density"] * A_gh / (2 * (s_ * nm)**4)
            gg = a["surface_density"] * A_gg / (2 * (sg * nm)**4) * ((sg / d_g)**10 - (sg / d_g)**4)
            one = wall * ((s_ / d0)**10 - (s_ / d0)**4 + (s_ / (l - d0))**10 - (s_ / (l - d0))**4)
            hgg = wall * ((s_ / d0)**10 - (s_ / d0)**4) + gg
            many = (2 * hgg + (M - 2) * 2 * gg) / M
            for tag, want in (("M<2", one), ("M>=2", many)):
                v_, w_ = decide_zero(phi - (S("N_A") / (S("R") * T)) * want,
                                     symbols_domain={"l": (sp.Rational(5, 2), 3), "d_a": (sp.Rational(3, 10), sp.Rational(35, 100)),
                                                     "d_m": (sp.Rational(4, 10), sp.Rational(45, 100))})
                if v_ == "zero":
                    verdicts[tag] = c_
        ok = bool(verdicts)
        ctx.ob(ok, Finding("C17.H-slit", fi.where, f"ry-slit|path={npaths}|potential!=documented-equation",
                           "a branch of the Rege-Yang slit potential equals neither documented form (eps_hgh for fewer than two layers, "
                           "[2 eps_hgg + (M-2) eps_ggg]/M otherwise; guest-guest terms with sigma_g = (2/5)^(1/6) d_g, wall terms with sigma = (2/5)^(1/6) d_0)"),
               nontrivial_key=("ry-slit", npaths))
        for tag, c_ in verdicts.items():
            captured.setdefault("seen", set()).add(tag)
            ctx.ob(abs(float(c_) - float(exact_c)) < 1e-6, Finding("C17.H-slit", fi.where, f"ry-slit|sigma-constant={float(c_):.7f}",
                                                                  f"sigma = {float(c_)} * d; the zero-energy distance is (2/5)^(1/6) d"), nontrivial_key=("ry-sigma", tag))
    ctx.ob(captured.get("seen") == {"M<2", "M>=2"}, Finding("C17.H-slit", fi.where, "ry-slit|branches",
                                                             f"the two layer regimes of the Rege-Yang slit potential were matched as {sorted(captured.get('seen', []))}; "
                                                             "both the fewer-than-two-layers and the multilayer form are required"), nontrivial_key=("ry-slit", "both"))
    ctx.floor("RY slit potential paths", npaths, 2)


def r_hk_cylinder(ctx: Ctx, model):
    """Saito-Foley cylindrical pore (psd_horvath_kawazoe, geometry 'cylinder'): the terms of the series, for truncations after
    1, 2 and 3 terms, against the documented equation (alpha_k, beta_k by their recurrences, prefactor 3/4 pi N_A/(RT) (n_g A_gg +
    n_h A_gh)/d_0^4).  Where the code truncates the infinite series is a numerical choice and is not decided."""
    ctx.rule("H-cylinder [ALG]: the k-th term of the Saito-Foley series is 1/(k+1) (1-d0/L)^(2k) [21/32 alpha_k (d0/L)^10 - beta_k (d0/L)^4] "
             "with alpha_k = ((-4.5-k)/k)^2 alpha_(k-1), beta_k = ((-1.5-k)/k)^2 beta_(k-1), for k = 0..3")
    I = mk(model)
    patch_constants(I)
    fi = model.func(f"{PMI}.psd_horvath_kawazoe")
    captured = {}

    def fake_solver(I, fi_, env, n):
        captured["fun"] = env["hk_fun"]
        return [S("Lw0"), S("Lw1"), S("Lw2")]
    I.overrides[f"{PMI}._solve_hk"] = fake_solver
    I.overrides[f"{PMI}._solve_hk_cy"] = fake_solver
    a, m = props("a"), {k: v for k, v in props("m").items() if k not in ("liquid_density", "adsorbate_molar_mass")}
    T = S("T")
    outs = I.explore(lambda I: I.call_func(fi, [Vec([S(f"p{i}") for i in range(3)]), Vec([S(f"n{i}") for i in range(3)]), T, "cylinder",
                                                dict(a), dict(m)], {}, None))
    if not outs or outs[0].kind != "ok" or "fun" not in captured:
        raise AnalysisError(f"psd_horvath_kawazoe(cylinder) cannot be interpreted: {outs[:1]}")
    phi_f = captured["fun"]
    l = S("l")
    chosen = {}
    orig_int = I.ext.get("builtins.int")

    def int_fork(I, a_, k, n):
        if _is_symbolic(a_[0]):
            c = I.choose(4, "series-terms")
            chosen["K"] = c + 1
            return sp.Integer(c + 1)
        return orig_int(I, a_, k, n)
    I.ext["builtins.int"] = int_fork
    d0 = (a["molecular_diameter"] + m["molecular_diameter"]) / 2
    nm = sp.Rational(1, 10**9)
    pa, pm_ = a["polarizability"] * sp.Rational(1, 10**27), m["polarizability"] * sp.Rational(1, 10**27)
    ca, cm = a["magnetic_susceptibility"] * sp.Rational(1, 10**27), m["magnetic_susceptibility"] * sp.Rational(1, 10**27)
    A_gg = sp.Rational(3, 2) * S("m_e") * S("c_l")**2 * pa * ca
    A_gh = 6 * S("m_e") * S("c_l")**2 * pa * pm_ / (pa / ca + pm_ / cm)
    alpha, beta = [sp.Integer(1)], [sp.Integer(1)]
    for k in range(1, 6):
        alpha.append(((sp.Rational(-9, 2) - k) / k)**2 * alpha[-1])
        beta.append(((sp.Rational(-3, 2) - k) / k)**2 * beta[-1])
    n = 0
    for oc in I.explore(lambda I: (chosen.clear(), I.call_value(phi_f, [l], {}, None), chosen.get("K"))[1:]):
        if oc.kind != "ok":
            raise AnalysisError(f"cylinder potential closure cannot be evaluated: {oc}")
        phi, K = oc.value
        n += 1
        x = d0 / l
        series = sum(sp.Rational(1, k + 1) * (1 - x)**(2 * k) * (sp.Rational(21, 32) * alpha[k] * x**10 - beta[k] * x**4) for k in range(0, K))
        want = sp.Rational(3, 4) * sp.pi * (S("N_A") / (S("R") * T)) * (a["surface_density"] * A_gg + m["surface_density"] * A_gh) / (d0 * nm)**4 * series
        verdict, wit = decide_zero(phi - want, symbols_domain={"l": (1, 2), "d_a": (sp.Rational(3, 10), sp.Rational(35, 100)), "d_m": (sp.Rational(3, 10), sp.Rational(35, 100))})
        ctx.ob(verdict == "zero", Finding("C17.H-cylinder", fi.where, f"hk-cylinder|terms={K}|series!=documented-equation",
                                          f"the Saito-Foley cylinder potential truncated after {K} term(s) differs from the documented series; witness {wit}"),
               nontrivial_key=("hk-cyl", K), sample={"rule": "H-cylinder", "terms": K})
    ctx.floor("HK cylinder truncations", n, 4)


def r_ry_cylinder(ctx: Ctx, model):
    """Rege-Yang cylindrical pore against the equations the method documents (docstring of psd_horvath_kawazoe_ry):
      M = int[((2L - d_h)/d_g - 1)/2] + 1 concentric layers;  eps_1 = 3/4 pi n_h A_gh/d_0^4 G(a_1),  eps_i = 3/4 pi n_g A_gg/d_g^4 G(a_i),
      G(a) = 21/32 a^10 sum_k alpha_k (1-a)^(2k) - a^4 sum_k beta_k (1-a)^(2k),  a_1 = d_0/L,  a_i = d_g/(L - d_0 - (i-2) d_g),
      n_i = pi / asin(d_g / (2 (L - d_0 - (i-1) d_g)))  (1 where the layer is narrower than one molecule),
      potential = N_A/(RT) sum n_i eps_i / sum n_i.
    Decided for pores holding 1, 2 and 3 layers and series truncated after 1 and 3 terms (where the code truncates the infinite series
    is a numerical choice and is not decided).  The population fallback of each layer is taken from the oracle's own condition evaluated
    at a point that satisfies the path condition of the interpreted path - never from the spelling of the comparison."""
    ctx.rule("H-cylinder(RY) [ALG]: the Rege-Yang cylinder potential for 1, 2 and 3 layers equals the documented layer equations "
             "(first layer against the wall with d_0, later layers against the previous guest layer with d_g; populations pi/asin(d_g/width_i); "
             "population-weighted mean)")
    import random
    I = mk(model)
    patch_constants(I)
    fi = model.func(f"{PMI}.psd_horvath_kawazoe_ry")
    captured = {}

    def fake_solver(I, fi_, env, n):
        captured["fun"] = env["hk_fun"]
        return [S("Lw0"), S("Lw1"), S("Lw2")]
    I.overrides[f"{PMI}._solve_hk"] = fake_solver
    I.overrides[f"{PMI}._solve_hk_cy"] = fake_solver
    p = Vec([S(f"p{i}") for i in range(3)])
    nload = Vec([S(f"n{i}") for i in range(3)])
    T = S("T")
    a, m = props("a"), {k: v for k, v in props("m").items() if k not in ("liquid_density", "adsorbate_molar_mass")}
    outs = I.explore(lambda I: I.call_func(fi, [p, nload, T, "cylinder", dict(a), dict(m)], {}, None))
    if not outs or outs[0].kind != "ok" or "fun" not in captured:
        raise AnalysisError(f"psd_horvath_kawazoe_ry(cylinder) cannot be interpreted: {outs[:1]}")
    phi_f = captured["fun"]
    l = S("l")
    st = {}
    orig_int = I.ext.get("builtins.int")

    def int_fork(I, a_, k, n):
        if _is_symbolic(a_[0]):
            if "M" not in st:                                   # first truncation of the evaluation: the number of layers
                st["M"] = I.choose(3, "layers-1") + 1
                return sp.Integer(st["M"] - 1)
            if "K" not in st:                                   # later ones: where the series stops (same pore, same K)
                st["K"] = (1, 3)[I.choose(2, "series-terms")]
            return sp.Integer(st["K"])
        return orig_int(I, a_, k, n)
    I.ext["builtins.int"] = int_fork
    d_g, d_h = a["molecular_diameter"], m["molecular_diameter"]
    d0 = (d_g + d_h) / 2
    nm = sp.Rational(1, 10**9)
    pa, pm_ = a["polarizability"] * sp.Rational(1, 10**27), m["polarizability"] * sp.Rational(1, 10**27)
    ca, cm = a["magnetic_susceptibility"] * sp.Rational(1, 10**27), m["magnetic_susceptibility"] * sp.Rational(1, 10**27)
    A_gg = sp.Rational(3, 2) * S("m_e") * S("c_l")**2 * pa * ca
    A_gh = 6 * S("m_e") * S("c_l")**2 * pa * pm_ / (pa / ca + pm_ / cm)
    alpha, beta = [sp.Integer(1)], [sp.Integer(1)]
    for k in range(1, 4):
        alpha.append(((sp.Rational(-9, 2) - k) / k)**2 * alpha[-1])
        beta.append(((sp.Rational(-3, 2) - k) / k)**2 * beta[-1])
    geo = {"l": l, "d_a": d_g, "d_m": d_h}

    def G(a_, K):
        b_ = 1 - a_
        return (sp.Rational(21, 32) * a_**10 * sum(alpha[k] * b_**(2 * k) for k in range(K))
                - a_**4 * sum(beta[k] * b_**(2 * k) for k in range(K)))

    def witness_point(decisions):
        """a rational point of (l, d_a, d_m) at which every comparison the path decided has the decided truth value; None = infeasible"""
        rels = []
        for lbl, c in decisions:
            if lbl in ("layers-1", "series-terms"):
                continue
            try:
                r = sp.sympify(lbl, locals=geo)
            except Exception as e:
                raise AnalysisError(f"RY cylinder: path condition '{lbl}' cannot be read: {e}")
            if not isinstance(r, sp.logic.boolalg.Boolean) or r.free_symbols - set(geo.values()):
                raise AnalysisError(f"RY cylinder: path condition '{lbl}' is not a comparison over the pore geometry")
            if not isinstance(r, (sp.Le, sp.Lt, sp.Ge, sp.Gt)):
                raise AnalysisError(f"RY cylinder: path condition '{lbl}' is not an ordering comparison")
            rels.append((sp.lambdify([l, d_g, d_h], r.lhs - r.rhs, "math"), isinstance(r, (sp.Le, sp.Lt)), c == 0))
        rnd = random.Random(17)
        for _ in range(20000):
            vals = (rnd.randint(30, 400), rnd.randint(20, 60), rnd.randint(20, 60))
            fl = [v / 100 for v in vals]
            ok = True
            for f, less, want_true in rels:
                d = f(*fl)
                if abs(d) < 1e-6 or ((d < 0) == less) != want_true:
                    ok = False
                    break
            if ok:
                return {l: sp.Rational(vals[0], 100), d_g: sp.Rational(vals[1], 100), d_h: sp.Rational(vals[2], 100)}
        return None
    npaths, seen = 0, set()
    for oc in I.explore(lambda I: (st.clear(), I.call_value(phi_f, [l], {}, None), dict(st))[1:]):
        if oc.kind != "ok":
            raise AnalysisError(f"RY cylinder potential closure cannot be evaluated: {oc}")
        phi, info = oc.value
        M, K = info.get("M"), info.get("K")
        if M is None or K is None:
            raise AnalysisError("RY cylinder: the layer count / series truncation was not reached through int(...)")
        pt = witness_point(oc.decisions)
        if pt is None:
            continue                                            # e.g. outer layer too narrow for one molecule but an inner one not
        npaths += 1
        width = lambda i: 2 * (l - d0 - (i - 1) * d_g)
        flags = tuple(bool((d_g <= width(i)).subs(pt)) for i in range(1, M + 1))
        ni = [sp.pi / sp.asin(d_g / width(i)) if flags[i - 1] else sp.Integer(1) for i in range(1, M + 1)]
        eps = [sp.Rational(3, 4) * sp.pi * m["surface_density"] * A_gh / (d0 * nm)**4 * G(d0 / l, K)]
        for i in range(2, M + 1):
            eps.append(sp.Rational(3, 4) * sp.pi * a["surface_density"] * A_gg / (d_g * nm)**4 * G(d_g / (l - d0 - (i - 2) * d_g), K))
        want = (S("N_A") / (S("R") * T)) * sum(n_ * e_ for n_, e_ in zip(ni, eps)) / sum(ni)
        dom = {str(k_): (v_ - sp.Rational(1, 1000), v_ + sp.Rational(1, 1000)) for k_, v_ in pt.items()}
        verdict, wit = _numeric_nonzero(phi, want, pt) or _fast_zero(phi - want) or decide_zero(phi - want, symbols_domain=dom)
        seen.add((M, K, flags))
        ctx.ob(verdict == "zero", Finding("C17.H-cylinder", fi.where, f"ry-cylinder|layers={M}|terms={K}|populated={flags}|potential!=documented-equation",
                                          f"Rege-Yang cylinder potential with {M} layer(s), series truncated after {K} term(s), differs from the documented "
                                          f"equations (eps_1 with d_0 and a_1 = d_0/L, eps_i with d_g and a_i = d_g/(L - d_0 - (i-2) d_g), n_i = pi/asin(d_g/width_i) "
                                          f"or 1 for a layer narrower than a molecule, population-weighted mean); witness {wit}"),
               nontrivial_key=("ry-cyl", M, K, flags), sample={"rule": "H-cylinder(RY)", "layers": M, "terms": K, "populated": list(flags)})
    need = {(M, K, (True,) * M) for M in (1, 2, 3) for K in (1, 3)}
    ctx.ob(need <= seen, Finding("C17.H-cylinder", fi.where, "ry-cylinder|cases",
                                 f"fully populated pores with 1, 2, 3 layers were not all reached: missing {sorted(need - seen)}"), nontrivial_key=("ry-cyl", "cases"))
    ctx.floor("RY cylinder feasible layer / truncation / population cases", npaths, 12)


def _numeric_nonzero(got, want, pt):
    """('nonzero', witness) when the two expressions differ at one rational point (given values for some symbols, fixed distinct rationals
    for the others), evaluated with 60 significant digits; None = equal there, to be decided symbolically"""
    import mpmath
    try:
        syms = sorted((got.free_symbols | want.free_symbols) - set(pt), key=lambda s_: s_.name)
        full = dict(pt)
        for j, s_ in enumerate(syms):
            full[s_] = sp.Rational(7 + 3 * j, 11 + 2 * j)
        order = sorted(full, key=lambda s_: s_.name)
        with mpmath.workdps(60):
            vals = [mpmath.mpf(full[s_].p) / mpmath.mpf(full[s_].q) for s_ in order]
            g = sp.lambdify(order, got, "mpmath")(*vals)
            w = sp.lambdify(order, want, "mpmath")(*vals)
            if abs(g - w) > mpmath.mpf(10)**-40 * (abs(g) + abs(w)):
                return "nonzero", ({str(k_): str(v_) for k_, v_ in full.items()}, f"{mpmath.nstr(g, 10)} != {mpmath.nstr(w, 10)}")
    except Exception:
        pass
    return None


def _fast_zero(expr):
    """('zero', None) when the numerator of the expression over a common denominator expands to 0 (transcendental sub-terms as atoms);
    None = undecided here, the caller falls back to decide_zero (which also finds witnesses)"""
    try:
        num, _ = sp.fraction(sp.together(expr))
        if sp.expand(num) == 0:
            return "zero", None
    except Exception:
        pass
    return None


def _is_symbolic(v):
    return isinstance(v, sp.Basic) and not v.is_number


def r_solver(ctx: Ctx, model, prop="C17", rule="H-solve"):
    ctx.rule(f"{rule}: per pressure point one bounded minimisation of (exp(phi(l) [- sf]) - p_i)^2 on (bound, 50); one width per point")
    for name, cy in (("_solve_hk", False), ("_solve_hk_cy", True)):
        I = mk(model)
        fi = model.func(f"{PMI}.{name}")
        NP = 3
        calls = []

        def minimize_scalar(I, a, k, n, calls=calls):
            fun = a[0] if a else k.get("fun")
            l = S("l")
            val = I.call_value(fun, [l] + opt_args(k), {}, n)
            calls.append({"objective": val, "bounds": k.get("bounds"), "method": k.get("method")})
            i_ = len(calls) - 1
            # the other fields of scipy's OptimizeResult: the attained objective value is any non-negative number (the minimiser may stall)
            return Obj(kind="OptRes", attrs={"x": S(f"x{i_}"), "success": True, "fun": sp.Symbol(f"resfun{i_}", nonnegative=True),
                                             "message": "m", "nfev": sp.Symbol(f"nfev{i_}", positive=True), "nit": sp.Symbol(f"nit{i_}", positive=True),
                                             "status": sp.Integer(0)})
        I.ext["scipy.optimize.minimize_scalar"] = minimize_scalar
        phi = Opaque("phi", callable_=True)
        I.libmeth[("PhiFn", "__call__")] = lambda I, v, a, k, n: sp.Function("phi")(a[0])
        p = Vec([sp.Symbol(f"p{i}", nonnegative=True) for i in range(NP)])      # a measured pressure may be exactly 0
        ld = Vec([S(f"n{i}") for i in range(NP)])
        args = [p, Obj(kind="PhiFn"), S("bound"), sp.Integer(1)] if not cy else [p, ld, Obj(kind="PhiFn"), S("bound"), sp.Integer(1)]
        I.ext["builtins.max"] = lambda I, a, k, n: sp.Function("max")(sp.Symbol("n")) if isinstance(a[0], Vec) else sp.Max(*a)
        outs = I.explore(lambda I: (calls.clear(), I.call_func(fi, list(args), {}, None), list(calls))[1:])
        npaths = 0
        for oc in outs:
            npaths += 1
            if oc.kind != "ok":
                ctx.ob(False, Finding(f"{prop}.{rule}", fi.where, f"{name}|raises:{oc.exc.name}", f"{name} raises {oc.exc}"))
                continue
            widths, cl = oc.value
            stops = [c for l_, c in oc.decisions if ">" in l_ and "<=" not in l_]
            others = [(l_, c) for l_, c in oc.decisions if not (">" in l_ and "<=" not in l_)]
            k_stop = len(cl)
            ok = isinstance(widths, list) and len(widths) == k_stop and all(widths[i] == S(f"x{i}") for i in range(k_stop))
            # the path stopped either at the documented break (decision 0 at the last call) or after all points
            okstop = ((k_stop == NP) or (stops and stops[-1] == 0)) and not any(c == 0 for l_, c in others)
            ctx.ob(ok and okstop, Finding(f"{prop}.{rule}", fi.where, f"{name}|one-width-per-point",
                                          f"{name} [{oc.decisions}]: {k_stop} minimisations, widths {widths}: each pressure point up to the documented stop "
                                          "must contribute exactly the minimiser of its own objective, in order"),
                   nontrivial_key=(name, tuple(stops)))
            for i, c in enumerate(cl):
                l = S("l")
                if cy:
                    cov = ld.items[i] / (sp.Function("max")(sp.Symbol("n")) * sp.Rational(101, 100))
                    sf = 1 + 1 / cov * sp.log(1 - cov)
                    want = (sp.exp(sp.Function("phi")(l) - sf) - p.items[i])**2
                else:
                    want = (sp.exp(sp.Function("phi")(l)) - p.items[i])**2
                okobj = decide_zero((c["objective"] - want).subs(sp.Function("phi")(l), sp.Symbol("PHI", real=True)))[0] == "zero"
                ctx.ob(okobj, Finding(f"{prop}.{rule}", fi.where, f"{name}|objective",
                                      f"{name}: objective of point {i} is {c['objective']}; required {want}"),
                       nontrivial_key=(name, "obj", i), sample={"rule": "H-solve", "solver": name, "objective": str(c["objective"])} if i == 0 and npaths == 1 else None)
                b = c["bounds"]
                okb = isinstance(b, (tuple, list)) and len(b) == 2 and b[0] == S("bound") and b[1] == 50 and c["method"] == "bounded"
                ctx.ob(okb, Finding(f"{prop}.{rule}", fi.where, f"{name}|bounds",
                                    f"{name}: point {i} is searched on {b} with method {c['method']!r}; required (bound, 50), 'bounded' - bounds that "
                                    "depend on earlier results make a width depend on the other points"),
                       nontrivial_key=(name, "bounds", i))
        ctx.floor(f"{name} paths", npaths, 2)


def r_dispatch(ctx: Ctx, model):
    ctx.rule("H-dispatch: psd_microporous -> (routine, use_cy) table and window slicing")
    I = mk(model)
    fi = model.func(f"{PMI}.psd_microporous")
    got = {}

    def rec(which):
        def f(I, fi_, env, n):
            got["call"] = (which, env.get("use_cy"), env.get("pressure"), env.get("loading"), env.get("pore_geometry"))
            return (Vec([S("w")]), Vec([S("d")]), Vec([S("v")]))
        return f
    I.overrides[f"{PMI}.psd_horvath_kawazoe"] = rec("HK")
    I.overrides[f"{PMI}.psd_horvath_kawazoe_ry"] = rec("RY")
    NP = 5
    p, n = [S(f"p{i}") for i in range(NP)], [S(f"n{i}") for i in range(NP)]
    I.overrides["pygaps.utilities.pygaps_utilities.get_iso_loading_and_pressure_ordered"] = lambda I, fi_, env, n_: (Vec(list(p)), Vec(list(n)))
    I.ext["numpy.searchsorted"] = lambda I, a, k, n_: sp.Integer(I.choose(len(a[0].items) + 1, f"searchsorted({I.describe(a[1])})"))
    iso = lambda: Obj(kind="IsoStub", attrs={"temperature": S("T")})
    table = {"HK": ("HK", False), "HK-CY": ("HK", True), "RY": ("RY", False), "RY-CY": ("RY", True)}
    for pm, (rout, cy) in table.items():
        outs = I.explore(lambda I: (got.clear(), I.call_func(fi, [iso()], {"psd_model": pm, "pore_geometry": "slit", "adsorbate_model": props("a"),
                                                                                   "p_limits": (S("lo"), S("hi"))}, None), dict(got))[1:])
        seen_ok = 0
        for oc in outs:
            if oc.kind == "raise":
                ctx.ob(oc.exc.is_a("CalculationError") and not oc.exc.fault,
                       Finding("C17.H-dispatch", fi.where, f"psd_microporous|{pm}|raises:{oc.exc.name}", f"psd_microporous({pm}) raises {oc.exc}"))
                continue
            res, g = oc.value
            c = g.get("call")
            lims = res.get("limits") if isinstance(res, dict) else None
            ok = c is not None and c[0] == rout and c[1] is cy
            ctx.ob(ok, Finding("C17.H-dispatch", fi.where, f"psd_microporous|{pm}|routine={c[0] if c else None},use_cy={c[1] if c else None}",
                               f"psd_model='{pm}' calls the {c[0] if c else None} routine with use_cy={c[1] if c else None}; required {rout}, use_cy={cy}"),
                   nontrivial_key=("dispatch", pm, tuple(x for l_, x in oc.decisions)))
            if ok and lims and all(getattr(x, "is_Integer", False) for x in lims):
                lo_, hi_ = int(lims[0]), int(lims[1])
                okw = c[2].items == p[lo_:hi_ + 1] and c[3].items == n[lo_:hi_ + 1]
                ctx.ob(okw, Finding("C17.H-dispatch", fi.where, f"psd_microporous|{pm}|window",
                                    f"psd_model='{pm}', limits indices {lims}: the routine receives {len(c[2].items)} points instead of [{lo_}:{hi_ + 1}]"))
            seen_ok += 1
        ctx.floor(f"psd_microporous {pm} paths", seen_ok, 3)


def r_params(ctx: Ctx, model):
    ctx.rule("H-params: shipped adsorbent parameter sets define the four HK keys")
    I = make_interp(model)
    keys = set(I.global_value("pygaps.characterisation.models_hk", "HK_KEYS"))
    want = {"molecular_diameter", "polarizability", "magnetic_susceptibility", "surface_density"}
    ctx.ob(keys == want, Finding("C17.H-params", "src/pygaps/characterisation/models_hk.py HK_KEYS", f"hk-keys:{sorted(keys ^ want)}", f"HK_KEYS = {sorted(keys)}"),
           nontrivial_key=("keys",))
    models = I.global_value("pygaps.characterisation.models_hk", "_ADSORBENT_MODELS")
    ctx.floor("shipped adsorbent models", len(models), 3)
    for nm, d in models.items():
        ok = set(d) == want and all(hasattr(v, "is_const") and v.is_const() and v.value() > 0 for v in d.values())
        ctx.ob(ok, Finding("C17.H-params", "src/pygaps/characterisation/models_hk.py", f"adsorbent|{nm}", f"parameter set {nm}: {list(d)}"),
               nontrivial_key=("adsorbent", nm))


# published adsorbent parameter sets (Horvath & Kawazoe 1983 for carbon; Saito & Foley 1991 / Cheng & Yang 1994 for the oxide ions),
# in the units of models_hk.HK_KEYS (nm, nm3, nm3, molecules/m2)
HK_ADSORBENTS = {
    "Carbon(HK)": {"molecular_diameter": "0.34", "polarizability": "1.02E-3", "magnetic_susceptibility": "1.35E-7", "surface_density": "3.845E19"},
    "AlSiOxideIon": {"molecular_diameter": "0.276", "polarizability": "2.5E-3", "magnetic_susceptibility": "1.3E-8", "surface_density": "1.315E19"},
    "AlPhOxideIon": {"molecular_diameter": "0.260", "polarizability": "2.5E-3", "magnetic_susceptibility": "1.3E-8", "surface_density": "1.000E19"},
}


def r_data(ctx: Ctx, model):
    """the three built-in adsorbent sets the property quantifies over are the published ones, each complete and independent"""
    from fractions import Fraction
    ctx.rule("H-data: get_hk_model(name) returns, for the three built-in names, the published parameter set (every key of HK_KEYS, "
             "values as tabulated); unknown names are refused; a user dictionary is returned as given")
    I = make_interp(model)
    fi = model.func("pygaps.characterisation.models_hk.get_hk_model")
    for name, want in HK_ADSORBENTS.items():
        outs = I.explore(lambda I: I.call_func(fi, [name], {}, None))
        ok = len(outs) == 1 and outs[0].kind == "ok" and isinstance(outs[0].value, dict)
        bad = []
        if ok:
            got = outs[0].value
            for k_, v_ in want.items():
                g = got.get(k_)
                if not (isinstance(g, Num) and g.is_const() and g.value() == Fraction(v_)):
                    bad.append(f"{k_}: {I.describe(g)} (published {v_})")
            bad += [f"extra key {k_}" for k_ in got if k_ not in want]
        ctx.ob(ok and not bad, Finding("C17.H-data", fi.where, f"hk-model|{name}|{';'.join(b.split(':')[0] for b in bad) or 'outcome'}",
                                       f"get_hk_model({name!r}): {'; '.join(bad) if bad else outs}"), nontrivial_key=("hk-data", name))
    outs = I.explore(lambda I: I.call_func(fi, ["NoSuchAdsorbent"], {}, None))
    ctx.ob(all(o.kind == "raise" and o.exc.is_a("ParameterError") for o in outs),
           Finding("C17.H-data", fi.where, "hk-model|unknown-name", "an unknown adsorbent model name must raise ParameterError"),
           nontrivial_key=("hk-data", "unknown"))


def run(ctx: Ctx):
    model = load(ctx.root)
    ctx.assume("scipy.optimize.minimize_scalar(method='bounded') returns a minimiser of its objective inside the bounds")
    r_slit_and_report(ctx, model)
    r_ry_sphere(ctx, model)
    r_ry_slit(ctx, model)
    r_hk_cylinder(ctx, model)
    r_ry_cylinder(ctx, model)
    r_solver(ctx, model)
    r_dispatch(ctx, model)
    r_params(ctx, model)
    r_data(ctx, model)
    from ..sites import no_memoisation
    # hand-written caches: every function of the module, as an entry point, writes no module-level object (shared with C04 R-module) -
    # adsorbate / material constants looked up once and kept per name or temperature would answer for a later, different isotherm
    from ..effects import Effects
    from .C04 import r_module
    _m = load(ctx.root)
    r_module(ctx, _m, Effects(_m), [f for n_, f in _m.module("pygaps.characterisation.psd_micro").functions.items()], prop="C17", rule="H-fresh", write_once=[], memo=False)
    ctx.rule("H-fresh: no caching decorator on any function of pygaps.characterisation.")
    no_memoisation(ctx, load(ctx.root), "C17", "H-fresh", ('pygaps.characterisation.',),
                   "cached potentials / constants survive a change of the adsorbate or material parameters")


META = {
    "technique": "abstract interpretation with symbolic terms (captured potential closures vs published / documented equations: "
                 "HK slit, cylinder and sphere, Rege-Yang slit, cylinder and sphere; solver objective/bounds per point, result transforms) + dispatc"
                 "h table",
    "level_text": "Static: the slit potential closure is extracted by interpreting psd_horvath_kawazoe symbolically and compared "
                  "algebraically with the published Horvath-Kawazoe equation (all parameters symbolic, including unit factors and "
                  "Kirkwood-Mueller constants); both solvers are interpreted on symbolic pressure vectors with the optimiser "
                  "summarised, checking objective, bounds and one-width-per-point over all stop patterns; the result transforms "
                  "and the psd_microporous dispatch are checked for every model/geometry.",
    "level_note": "Trusted: bounded scalar minimiser; sympy. Not decided: where the infinite series of the cylinder potentials are truncated (terms up to k = 3 "
                  "are compared), pores holding more than three Rege-Yang layers, minimiser accuracy, monotonicity of widths.",
}
