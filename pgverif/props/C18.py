"""C18 - kernel (DFT) fitting: structural clauses.

Decided statically by abstract interpretation of psd_dft, psd_dft_kernel_fit, _load_kernel and bspline over uninterpreted
array terms (every numpy / pandas / scipy call builds a term, the optimiser and the interpolator constructors are
summarised, every branch on data is forked):
  K-bounds    the optimiser is called with a bounds-honouring method and a lower bound 0 on every variable
  K-objective the objective is sum((kernel_loading(x) - loading)^2) with kernel_loading(x) = sum_w kernel_points * x_w,
              kernel_points being the kernel interpolators evaluated at the fitted pressures
  K-success   `not result.success` -> CalculationError on every path
  K-report    fitted isotherm = kernel_loading(result.x) of the same result; distribution = result.x / bin widths, smoothed
              by bspline; cumulative = cumsum(returned distribution * ediff1d(returned widths)) on every path
  K-range     a pressure outside the kernel table raises CalculationError (the interpolators built by _load_kernel refuse to
              extrapolate and the ValueError is converted)
  K-limits    the arrays handed to the fit are the [minimum:maximum+1] slices of the isotherm arrays with indices from
              searchsorted on the pressure: no other flow from the unsliced arrays (non-interference)
  K-spline    bspline returns its input for degree 0 and otherwise evaluates a B-spline whose control points are the data
              (convex-hull property: non-negative control points give a non-negative curve); both outputs from one evaluation
  K-data      the shipped kernel table is rectangular, numeric, with increasing positive pressures and widths, loadings >= 0
Not decided: reproduction of exact combinations within the optimiser tolerance (numerical), monotonicity of the cumulative
volume as a number (follows from K-bounds + K-spline + K-report for increasing widths, not proved here).
"""
from __future__ import annotations

import ast
import csv
import os

from ..absint import ExtRef, LambdaRef, FuncRef, Obj, Raised, Term, ExcVal, UnknownBool
from ..core import AnalysisError, Ctx, Finding
from ..domain import make_interp
from ..num import Num
from ..srcmodel import load

PK = "pygaps.characterisation.psd_kernel"
MU = "pygaps.utilities.math_utilities"

# constructor -> does the interpolator raise ValueError outside the table (given its keywords)?
def _interp1d_raises(kw):
    be = kw.get("bounds_error")
    fv = kw.get("fill_value")
    if fv == "extrapolate":
        return False
    if be is None:
        return fv is None        # scipy: bounds_error defaults to True unless a fill_value is given
    return be is True


RAISING = {
    "scipy.interpolate.interp1d": _interp1d_raises,
    "scipy.interpolate.make_interp_spline": lambda kw: False,
    "scipy.interpolate.CubicSpline": lambda kw: False,
    "scipy.interpolate.PchipInterpolator": lambda kw: False,
    "scipy.interpolate.Akima1DInterpolator": lambda kw: False,
    "scipy.interpolate.UnivariateSpline": lambda kw: False,
    "scipy.interpolate.InterpolatedUnivariateSpline": lambda kw: kw.get("ext") in (2, "raise"),
    "scipy.interpolate.BSpline": lambda kw: False,
    "scipy.interpolate.splrep": lambda kw: False,
}
BOUNDED_METHODS = {"SLSQP", "L-BFGS-B", "TNC", "trust-constr", "Powell", "Nelder-Mead", "COBYQA"}


def mk(model):
    I = make_interp(model)
    for key in [k for k in I.ext if k.split(".")[0] in ("numpy", "pandas", "scipy")]:
        del I.ext[key]          # every array-library call becomes an uninterpreted term in this check

    def fallback(I, dotted, args, kwargs, node):
        if dotted in RAISING:
            raises = RAISING[dotted]({k: (I.to_py(v, node) if isinstance(v, Num) else v) for k, v in kwargs.items()})
            return Obj(kind="Interp", label=f"{dotted.split('.')[-1]}@{getattr(node, 'lineno', 0)}",
                       attrs={"ctor": dotted, "raises": raises, "x": args[0] if args else None, "y": args[1] if len(args) > 1 else None,
                              "kw": dict(kwargs)})
        if dotted.split(".")[0] in ("numpy", "scipy", "pandas", "importlib", "importlib_resources"):
            return Term(dotted, args, kwargs)
        return NotImplemented
    I.ext_fallback = fallback

    def interp_call(I, v, a, k, n):
        outside = I.choose(2, "pressure outside the kernel table") == 0
        if outside:
            if v.attrs["raises"]:
                raise I.fault("ValueError", n, "A value in x_new is outside the interpolation range")
            return Term("extrapolated", [v, a[0]])
        return Term("kernel_value", [v, a[0]])
    I.libmeth[("Interp", "__call__")] = interp_call
    for nm in ("columns", "index", "values", "T"):
        I.libattr[("Term", nm)] = (lambda nm: lambda I, v, n: Term("." + nm, [v]))(nm)
    import pathlib as _pl

    def mk_path(I, a, k, n):
        if a and isinstance(a[0], str):
            return Obj(kind="PurePath", label=a[0], attrs={"p": _pl.PurePosixPath(a[0])})
        return Term("pathlib.Path", a, k)
    for nm in ("pathlib.Path", "pathlib.PurePath", "pathlib.PurePosixPath"):
        I.ext[nm] = mk_path
    for at in ("stem", "name", "suffix"):
        I.libattr[("PurePath", at)] = (lambda at: lambda I, v, n: getattr(v.attrs["p"], at))(at)
    I.libattr[("PurePath", "parent")] = lambda I, v, n: Obj(kind="PurePath", label=str(v.attrs["p"].parent), attrs={"p": v.attrs["p"].parent})
    I.ext["os.path.basename"] = lambda I, a, k, n: _pl.PurePosixPath(a[0]).name if isinstance(a[0], str) else Term("os.path.basename", a)
    I.ext["os.path.splitext"] = lambda I, a, k, n: (str(_pl.PurePosixPath(a[0]).with_suffix("")), _pl.PurePosixPath(a[0]).suffix) if isinstance(a[0], str) else Term("os.path.splitext", a)
    I.ext["builtins.open"] = lambda I, a, k, n: Obj(kind="File", label="file", attrs={"path": a[0]})
    I.libmeth[("File", "__enter__")] = lambda I, v, a, k, n: v
    I.libmeth[("File", "__exit__")] = lambda I, v, a, k, n: None
    I.ext["pandas.read_csv"] = lambda I, a, k, n: Term("read_csv", [a[0].attrs.get("path") if isinstance(a[0], Obj) else a[0]], k)
    return I


# -- term normalisation ---------------------------------------------------------------------------------------------------
def norm(t):
    """numpy function forms -> operator forms; axis/keyword noise dropped where it does not change the meaning used here"""
    if isinstance(t, (list, tuple)):
        return type(t)(norm(x) for x in t)
    if not isinstance(t, Term):
        return t
    a = [norm(x) for x in t.args]
    kw = {k: norm(v) for k, v in t.kw}
    op = t.op
    if op in ("numpy.subtract",):
        return Term("-", a)
    if op in ("numpy.multiply",):
        return Term("*", a)
    if op in ("numpy.add",):
        return Term("+", a)
    if op in ("numpy.divide", "numpy.true_divide"):
        return Term("/", a)
    if op == "numpy.square":
        return Term("**", [a[0], Num.const(2)])
    if op == "numpy.power":
        return Term("**", a)
    if op in (".sum", "numpy.sum"):
        axis = kw.get("axis", a[1] if len(a) > 1 else None)
        return Term("sum", [a[0], axis])
    # first differences that keep the first element: ediff1d(x, to_begin=x[0]) == diff(x, prepend=0) == diff(insert/concat 0)
    if op == "numpy.ediff1d" and len(a) == 1 and isinstance(kw.get("to_begin"), Term) and kw["to_begin"] == Term("getitem", [a[0], Num.const(0)]) \
            and set(kw) == {"to_begin"}:
        return Term("fdiff", [a[0]])
    if op == "numpy.diff" and len(a) == 1 and set(kw) == {"prepend"} and is_const(kw["prepend"], 0):
        return Term("fdiff", [a[0]])
    if op in ("numpy.asarray", "numpy.array", "numpy.asanyarray") and not (kw.get("dtype") in ("int", "int64")):
        return a[0] if not isinstance(a[0], list) or True else a[0]
    return Term(op, a, kw)


def is_const(v, c):
    return isinstance(v, Num) and v.is_const() and v.value() == c


def same(a, b):
    if isinstance(a, Term) and isinstance(b, Term):
        return a == b
    if isinstance(a, (list, tuple)) and isinstance(b, (list, tuple)):
        return len(a) == len(b) and all(same(x, y) for x, y in zip(a, b))
    if isinstance(a, Num) and isinstance(b, Num):
        return a == b
    return a == b if type(a) is type(b) else False


def match_kernel_loading(t, x, KP):
    """sum over axis 0 of KP * x[:, newaxis]"""
    if not (isinstance(t, Term) and t.op == "sum" and is_const(t.args[1], 0)):
        return f"not a sum over the pore-width axis (axis=0): {t!r}"
    prod = t.args[0]
    if not (isinstance(prod, Term) and prod.op == "*"):
        return f"summand is not a product: {prod!r}"
    want_x = Term("getitem", [x, (slice(None, None, None), ExtRef("numpy.newaxis"))])
    l, r = prod.args
    for kp, xx in ((l, r), (r, l)):
        if same(kp, KP) and isinstance(xx, Term) and xx == want_x:
            return None
    return f"product is not kernel_points * x[:, newaxis]: {prod!r}"


def r_fit(ctx: Ctx, model):
    ctx.rule("K-bounds / K-objective / K-success / K-report / K-range: psd_dft_kernel_fit + _load_kernel over array terms, all paths")
    fi = model.func(f"{PK}.psd_dft_kernel_fit")
    P, L, ORDER = Term("P"), Term("L"), Term("order")
    npaths = {"ok": 0, "raise": 0}
    for preloaded in (False, True):
        I = mk(model)
        cap = {}

        def minimize(I, a, k, n):
            cap["fun"], cap["x0"], cap["kw"], cap["node"] = a[0], a[1], dict(k), n
            X = Term("xvar")
            cap["objective"] = I.call_value(a[0], [X], {}, n)
            ok = I.choose(2, "result.success") == 0
            return Obj(kind="OptRes", label="result", attrs={"x": Term("result.x"), "success": ok, "message": "m", "fun": Term("result.fun")})
        I.ext["scipy.optimize.minimize"] = minimize
        bs = {}

        def bspline(I, fi_, env, n):
            bs["args"] = (env.get("xs"), env.get("ys"), env.get("degree"), env.get("n"), env.get("periodic"))
            key = [env.get("xs"), env.get("ys"), env.get("degree")]
            return (Term("bspline.x", key), Term("bspline.y", key))
        I.overrides[f"{MU}.bspline"] = bspline

        def thunk(I):
            cap.clear()
            bs.clear()
            if preloaded:
                # second call with the same path: the cached kernel must be the same interpolators
                I.call_func(model.func(f"{PK}._load_kernel"), ["KPATH"], {}, None)
            v = I.call_func(fi, [P, L, "KPATH", ORDER], {}, None)
            return v, dict(cap), dict(bs)
        outs = I.explore(thunk, max_paths=4000)
        for oc in outs:
            dec = dict(oc.decisions)
            dl = [(l, c) for l, c in oc.decisions]
            outside = any(l == "pressure outside the kernel table" and c == 0 for l, c in dl)
            if oc.kind == "raise":
                npaths["raise"] += 1
                e = oc.exc
                if outside:
                    ctx.ob(e.is_a("CalculationError"), Finding("C18.K-range", fi.where, f"outside-range-raises:{e.name}",
                                                               f"a pressure outside the kernel table surfaces as {e.name}; CalculationError required"),
                           nontrivial_key=("range", "raise", e.name))
                    continue
                if dec.get("result.success") == 1:
                    ctx.ob(e.is_a("CalculationError"), Finding("C18.K-success", fi.where, f"failure-raises:{e.name}",
                                                               f"optimiser failure surfaces as {e.name}; CalculationError required"),
                           nontrivial_key=("success", "raise"))
                    continue
                okp = e.is_a("ParameterError") and not e.fault
                ctx.ob(okp, Finding("C18.K-report", fi.where, f"unexpected-raise:{e.name}", f"unexpected exception {e} on path {dl}"),
                       nontrivial_key=("raise", e.name))
                continue
            npaths["ok"] += 1
            val, cp, b = oc.value
            ctx.ob(not outside, Finding("C18.K-range", fi.where, "outside-range-accepted",
                                        "a pressure outside the kernel table is accepted: the interpolators built by _load_kernel "
                                        f"({[o.attrs['ctor'] for o in _interps(cp)] or 'n/a'}) do not raise there (extrapolation), so no CalculationError"),
                   nontrivial_key=("range", "ok", outside))
            ctx.ob(dec.get("result.success") == 0, Finding("C18.K-success", fi.where, "returns-after-failure",
                                                           f"returns although result.success is false/untested (path {dl})"),
                   nontrivial_key=("success", dec.get("result.success")))
            if outside:
                continue
            _check_call(ctx, fi, cp, P, L)
            _check_report(ctx, fi, val, cp, b, ORDER, dl)
    ctx.floor("psd_dft_kernel_fit returning paths", npaths["ok"], 2)
    ctx.floor("psd_dft_kernel_fit raising paths", npaths["raise"], 4)


def _interps(cp):
    out = []
    obj = cp.get("objective")
    if isinstance(obj, Term):
        for st in obj.subterms():
            for a in st.args:
                if isinstance(a, Obj) and a.kind == "Interp" and a not in out:
                    out.append(a)
    return out


def _kernel_points(P):
    return None


def _check_call(ctx, fi, cp, P, L):
    kw = cp.get("kw", {})
    # K-bounds
    method = kw.get("method")
    ctx.ob(method in BOUNDED_METHODS, Finding("C18.K-bounds", fi.where, "method", f"optimiser method {method!r} does not honour bounds"),
           nontrivial_key=("method", method))
    b = kw.get("bounds")
    okb, why = False, f"bounds={b!r}"
    if isinstance(b, Term) and b.op == "*" and any(isinstance(x, list) for x in b.args):
        b = next(x for x in b.args if isinstance(x, list))      # [(0, None)] * n: n copies of the listed elements
    if isinstance(b, list) and b:
        okb = all(isinstance(e, tuple) and len(e) == 2 and isinstance(e[0], Num) and e[0].is_const() and e[0].value() >= 0 for e in b)
        why = f"bounds elements {b!r}: every variable needs a lower bound >= 0"
    elif isinstance(b, Term) and b.op == "scipy.optimize.Bounds":
        lb = b.args[0] if b.args else dict(b.kw).get("lb")
        okb = isinstance(lb, Num) and lb.is_const() and lb.value() >= 0
        why = f"Bounds lower bound {lb!r}"
    elif b is None:
        why = "no bounds passed: SLSQP inequality constraints alone are only satisfied to tolerance (small negative contributions)"
    ctx.ob(okb, Finding("C18.K-bounds", fi.where, "bounds", why), nontrivial_key=("bounds", repr(b)))
    # the number of bounds must follow the number of variables: both derived from the kernel's widths
    x0 = cp.get("x0")
    # K-objective
    X = Term("xvar")
    obj = norm(cp.get("objective"))
    bad = None
    KP = None
    if not (isinstance(obj, Term) and obj.op == "sum"):
        bad = f"objective is not a sum: {obj!r}"
    else:
        sq = obj.args[0]
        if not (isinstance(sq, Term) and sq.op == "**" and is_const(sq.args[1], 2)):
            bad = f"objective summand is not a square: {sq!r}"
        else:
            d = sq.args[0]
            if not (isinstance(d, Term) and d.op == "-"):
                bad = f"squared quantity is not a difference: {d!r}"
            else:
                l, r = d.args
                kl = r if (isinstance(l, Term) and l == L) else l if (isinstance(r, Term) and r == L) else None
                if kl is None:
                    bad = f"the difference is not taken against the loading passed in: {d!r}"
                else:
                    # kernel_points: list of representative interpolator values at P
                    KP = _find_kp(kl, P)
                    if isinstance(KP, str):
                        bad = KP
                    else:
                        bad = match_kernel_loading(kl, X, KP)
                    cp["_kl"] = kl
    ctx.ob(not bad, Finding("C18.K-objective", fi.where, "objective", f"objective term: {bad}"), nontrivial_key=("objective",))


def _find_kp(kl, P):
    """the kernel_points operand: a list of interpolator values, each interpolator of the loaded kernel applied to P"""
    if not (isinstance(kl, Term) and kl.op == "sum" and isinstance(kl.args[0], Term) and kl.args[0].op == "*"):
        return f"kernel_loading is not a sum of products: {kl!r}"
    for cand in kl.args[0].args:
        if isinstance(cand, list) and cand and all(isinstance(e, Term) and e.op == "kernel_value" for e in cand):
            for e in cand:
                if not (isinstance(e.args[1], Term) and e.args[1] == P):
                    return f"kernel interpolators are evaluated at {e.args[1]!r}, not at the pressures passed in"
            return cand
    return f"no kernel_points operand (interpolators evaluated at the pressures) in {kl.args[0]!r}"


def _check_report(ctx, fi, val, cp, b, ORDER, dl):
    if not (isinstance(val, tuple) and len(val) == 4):
        ctx.ob(False, Finding("C18.K-report", fi.where, "shape", f"returns {val!r}; (widths, distribution, cumulative, fitted loading) required"))
        return
    w_out, d_out, cum, fitted = val
    RX = Term("result.x")
    kl = cp.get("_kl")
    # fitted isotherm = kernel_loading(result.x)
    okf = False
    if kl is not None:
        want = _subst(kl, Term("xvar"), RX)
        okf = isinstance(norm(fitted), Term) and norm(fitted) == want
    ctx.ob(okf, Finding("C18.K-report", fi.where, "fitted-loading",
                        f"reported fitted isotherm {fitted!r} is not kernel_loading(result.x) of the result that yields the distribution"),
           nontrivial_key=("fitted",))
    # bspline inputs: widths W, distribution result.x / ediff1d(W, to_begin=W[0]), degree = order
    args = b.get("args")
    okd = False
    W = None
    if args:
        W, dist_pre, deg = norm(args[0]), norm(args[1]), args[2]
        want_pre = Term("/", [RX, Term("fdiff", [W])])
        okd = isinstance(dist_pre, Term) and dist_pre == want_pre and isinstance(deg, Term) and deg == ORDER and \
            args[3] in (None, Num.const(100)) and args[4] in (None, False)
        ctx.ob(okd, Finding("C18.K-report", fi.where, "distribution",
                            f"distribution handed to the smoother is {dist_pre!r} (degree {deg!r}); required result.x / ediff1d(widths, to_begin=widths[0]) "
                            "with the caller's spline order"), nontrivial_key=("dist",))
        # widths come from the kernel's keys
        okw = isinstance(W, list) or isinstance(W, Term)
        ctx.ob(okw, Finding("C18.K-report", fi.where, "widths", f"widths {W!r}"), nontrivial_key=("widths",))
    else:
        ctx.ob(False, Finding("C18.K-report", fi.where, "no-smoothing-call", "bspline is not called with the distribution"))
        return
    key = [args[0], args[1], args[2]]
    ok_out = isinstance(w_out, Term) and w_out == Term("bspline.x", key) and isinstance(d_out, Term) and d_out == Term("bspline.y", key)
    ctx.ob(ok_out, Finding("C18.K-report", fi.where, "returned-arrays", f"returned widths / distribution are {w_out!r} / {d_out!r}, not the smoother's outputs"),
           nontrivial_key=("out",))
    wn, dn = norm(w_out), norm(d_out)
    want_cum = Term("numpy.cumsum", [Term("*", [dn, Term("fdiff", [wn])])])
    cumn = norm(cum)
    okc = isinstance(cumn, Term) and (cumn == want_cum or cumn == Term("numpy.cumsum", [Term("*", list(reversed(want_cum.args[0].args)))]))
    ctx.ob(okc, Finding("C18.K-report", fi.where, "cumulative",
                        f"cumulative volume is {cum!r} on path {[(l, c) for l, c in dl if 'len' in l] or 'all'}; required cumsum(returned distribution * "
                        "ediff1d(returned widths, to_begin=returned widths[0]))"), nontrivial_key=("cum", tuple(c for l, c in dl)))


def _subst(t, old, new):
    if isinstance(t, Term):
        if t == old:
            return new
        return Term(t.op, [_subst(a, old, new) for a in t.args], {k: _subst(v, old, new) for k, v in t.kw})
    if isinstance(t, (list, tuple)):
        return type(t)(_subst(a, old, new) for a in t)
    return t


def r_load(ctx: Ctx, model):
    ctx.rule("K-range (constructor side): every interpolator _load_kernel stores is built over (pressure index, column values) of the table, cached per path")
    I = mk(model)
    fi = model.func(f"{PK}._load_kernel")

    def thunk(I):
        k1 = I.call_func(fi, ["KPATH"], {}, None)
        k2 = I.call_func(fi, ["KPATH"], {}, None)
        return k1, k2
    outs = I.explore(thunk)
    n = 0
    for oc in outs:
        if oc.kind != "ok":
            ctx.ob(False, Finding("C18.K-range", fi.where, f"load-raises:{oc.exc.name}", f"_load_kernel raises {oc.exc}"))
            continue
        k1, k2 = oc.value
        ctx.ob(isinstance(k1, dict) and k1 is k2, Finding("C18.K-range", fi.where, "cache", "second load of the same path must return the cached kernel"),
               nontrivial_key=("cache",))
        for size, it in (k1.items() if isinstance(k1, dict) else []):
            n += 1
            ok = isinstance(it, Obj) and it.kind == "Interp"
            ctx.ob(ok, Finding("C18.K-range", fi.where, "not-interpolator", f"kernel entry {it!r}"), nontrivial_key=("interp",))
            if not ok:
                continue
            ctx.ob(it.attrs["raises"], Finding("C18.K-range", fi.where, f"extrapolating:{it.attrs['ctor'].split('.')[-1]}",
                                               f"{it.attrs['ctor']}({', '.join(f'{k}={v!r}' for k, v in it.attrs['kw'].items())}) does not raise outside "
                                               "the tabulated pressures: out-of-range isotherm points are extrapolated instead of refused"),
                   nontrivial_key=("raises", it.attrs["ctor"]))
            # x = index (pressures) of the column, y = its values, for the same column `size`
            col = None
            x, y = it.attrs["x"], it.attrs["y"]
            okxy = isinstance(x, Term) and x.op == ".index" and isinstance(y, Term) and y.op == ".values" and x.args[0] == y.args[0] and \
                isinstance(x.args[0], Term) and x.args[0].op == "getitem" and x.args[0].args[1] == size
            ctx.ob(okxy, Finding("C18.K-range", fi.where, "interp-operands", f"interpolator for column {size!r} built over x={x!r}, y={y!r}"),
                   nontrivial_key=("xy",))
            if okxy:
                tab = x.args[0].args[0]
                # the table: concat([zero row at pressure 0, raw table])
                okz = isinstance(tab, Term) and tab.op == "pandas.concat"
                ctx.ob(okz, Finding("C18.K-range", fi.where, "table", f"interpolated table is {tab!r}"), nontrivial_key=("tab",))
    ctx.floor("interpolators built by _load_kernel", n, 1)


def r_limits(ctx: Ctx, model):
    ctx.rule("K-limits: non-interference - unsliced isotherm arrays reach the fit only through the [min:max+1] slice and the index computation")
    fi = model.func(f"{PK}.psd_dft")
    PIN, LIN = Term("P_in"), Term("L_in")
    nn = 0
    for lims in ("none", "both"):
        I = mk(model)
        cap = {}
        I.overrides["pygaps.utilities.pygaps_utilities.get_iso_loading_and_pressure_ordered"] = lambda I, fi_, env, n: (PIN, LIN)

        def fit(I, fi_, env, n):
            cap["pressure"], cap["loading"] = env.get("pressure"), env.get("loading")
            cap["kernel_path"], cap["order"] = env.get("kernel_path"), env.get("bspline_order")
            return (Term("W"), Term("D"), Term("C"), Term("F"))
        I.overrides[f"{PK}.psd_dft_kernel_fit"] = fit
        LO, HI = Term("lo"), Term("hi")

        def thunk(I):
            cap.clear()
            iso = Obj(kind="IsoStub", label="iso", attrs={})
            kw = {"p_limits": (LO, HI)} if lims == "both" else {}
            v = I.call_func(fi, [iso], {"bspline_order": Term("order"), **kw}, None)
            return v, dict(cap)
        for oc in I.explore(thunk):
            dl = list(oc.decisions)
            if oc.kind == "raise":
                ok = oc.exc.is_a("CalculationError") and not oc.exc.fault
                ctx.ob(ok, Finding("C18.K-limits", fi.where, f"raises:{oc.exc.name}", f"psd_dft raises {oc.exc} on path {dl}"),
                       nontrivial_key=("lim-raise", lims, tuple(c for _, c in dl)))
                continue
            nn += 1
            val, cp = oc.value
            use_lo = any(l.startswith("truth(lo") and c == 0 for l, c in dl)
            use_hi = any(l.startswith("truth(hi") and c == 0 for l, c in dl)
            start = Term("numpy.searchsorted", [PIN, LO]) if use_lo else Num.const(0)
            stop_m1 = Term("-", [Term("numpy.searchsorted", [PIN, HI]), Num.const(1)]) if use_hi else Term("-", [Term("len", [PIN]), Num.const(1)])
            for name, src in (("pressure", PIN), ("loading", LIN)):
                got = cp.get(name)
                bad = None
                if not (isinstance(got, Term) and got.op == "getitem" and got.args[0] == src and as_slice(got.args[1]) is not None):
                    # general non-interference: every occurrence of an unsliced array must sit directly under the slice
                    bad = _leak(got, (PIN, LIN))
                    if bad is None:
                        bad = f"{name} handed to the fit is {got!r}"
                else:
                    sl = as_slice(got.args[1])
                    st_ok = (sl.start == start) if isinstance(sl.start, (Term, Num)) else False
                    want_stop = _plus1(stop_m1)
                    sp_ok = isinstance(sl.stop, (Term, Num)) and (sl.stop == want_stop or _plus1_eq(sl.stop, stop_m1))
                    if not (st_ok and sp_ok and sl.step is None):
                        bad = f"slice [{sl.start!r}:{sl.stop!r}] but limits give [{start!r}:{stop_m1!r}+1]"
                ctx.ob(not bad, Finding("C18.K-limits", fi.where, f"{name}|{'leak' if bad and 'outside' in bad else 'slice'}",
                                        f"{name} passed to the kernel fit: {bad}"),
                       nontrivial_key=("lim", lims, name, use_lo, use_hi))
            okk = isinstance(cp.get("order"), Term) and cp["order"] == Term("order")
            ctx.ob(okk, Finding("C18.K-limits", fi.where, "order", "the caller's spline order must reach the fit"), nontrivial_key=("order",))
            okr = isinstance(val, dict) and val.get("pore_widths") == Term("W") and val.get("pore_distribution") == Term("D") and \
                val.get("pore_volume_cumulative") == Term("C") and val.get("kernel_loading") == Term("F")
            ctx.ob(okr, Finding("C18.K-report", fi.where, "psd_dft-result", f"psd_dft result dictionary {val!r} does not carry the fit outputs under their names"),
                   nontrivial_key=("dict",))
    ctx.floor("psd_dft returning paths", nn, 5)


class _Sl:
    def __init__(self, start, stop, step):
        self.start, self.stop, self.step = start, stop, step


def _n(v):
    return Num.const(v) if isinstance(v, int) and not isinstance(v, bool) else v


def as_slice(x):
    if isinstance(x, slice):
        return _Sl(_n(x.start), _n(x.stop), _n(x.step))
    if isinstance(x, (tuple, list)) and len(x) == 4 and x[0] == "slice":
        return _Sl(_n(x[1]), _n(x[2]), _n(x[3]))
    return None


def _plus1(t):
    return Term("+", [t, Num.const(1)])


def _plus1_eq(stop, stop_m1):
    return isinstance(stop, Term) and stop.op == "+" and stop.args[0] == stop_m1 and is_const(stop.args[1], 1)


def _leak(t, srcs):
    """first occurrence of an unsliced source array that is not directly the operand of a slice / searchsorted / len"""
    def walk(x, parent):
        if isinstance(x, Term):
            if x in srcs:
                if parent is not None and (parent.op in ("numpy.searchsorted", "len") or
                                           (parent.op == "getitem" and as_slice(parent.args[1]) is not None and parent.args[0] is x)):
                    return None
                return f"the unsliced array {x!r} flows into the fit through `{parent!r}` (outside the requested limits)"
            for a in list(x.args) + [v for _, v in x.kw]:
                r = walk(a, x)
                if r:
                    return r
        elif as_slice(x) is not None:
            x = as_slice(x)
            for a in (x.start, x.stop, x.step):
                r = walk(a, Term("len", []))   # index computations may look at the whole pressure array
                if r:
                    return r
        elif isinstance(x, (list, tuple)):
            for a in x:
                r = walk(a, parent)
                if r:
                    return r
        return None
    return walk(t, None)


def r_path(ctx: Ctx, model):
    ctx.rule("K-path: a shipped kernel name resolves to its packaged file; any other value - in particular a user file whose name "
             "resembles a shipped kernel - reaches the fit unchanged")
    fi = model.func(f"{PK}.psd_dft")
    cases = {"DFT-N2-77K-carbon-slit": "shipped", "/data/user/DFT-N2-77K-carbon-slit.csv": "self", "/data/user/my-kernel.csv": "self",
             "DFT-N2-77K-carbon-slit.csv": "self"}
    for kernel, want in cases.items():
        I = mk(model)
        cap = {}
        I.overrides["pygaps.utilities.pygaps_utilities.get_iso_loading_and_pressure_ordered"] = lambda I, fi_, env, n: (Term("P_in"), Term("L_in"))

        def fit(I, fi_, env, n, cap=cap):
            cap["kernel_path"] = env.get("kernel_path")
            return (Term("W"), Term("D"), Term("C"), Term("F"))
        I.overrides[f"{PK}.psd_dft_kernel_fit"] = fit
        outs = [o for o in I.explore(lambda I: I.call_func(fi, [Obj(kind="IsoStub", label="iso", attrs={})], {"kernel": kernel}, None)) if o.kind == "ok"]
        got = cap.get("kernel_path")
        if want == "self":
            ok = bool(outs) and got == kernel
        else:
            ok = bool(outs) and got is not None and got != kernel
        ctx.ob(ok, Finding("C18.K-path", fi.where, f"kernel={'shipped-name' if want == 'shipped' else 'user:' + kernel.split('/')[-1]}",
                           f"psd_dft(kernel={kernel!r}) hands {got!r} to the fit; required "
                           f"{'the packaged file of that kernel' if want == 'shipped' else 'the value itself (a user supplied kernel file must be honoured)'}"),
               nontrivial_key=("path", kernel))


def r_spline(ctx: Ctx, model):
    ctx.rule("K-spline: bspline is the identity for degree 0 and otherwise an approximating B-spline with the data as control points")
    fi = model.func(f"{MU}.bspline")
    XS, YS = Term("xs"), Term("ys")
    n = 0
    for deg in (Num.const(0), Num.const(2), Term("degree")):
        I = mk(model)
        cap = {}

        def splev(I, a, k, nn):
            cap["splev"] = (a[0], a[1])
            return Term("splev", [a[0], a[1]])
        I.ext["scipy.interpolate.splev"] = splev
        for oc in I.explore(lambda I: (cap.clear(), I.call_func(fi, [XS, YS], {"degree": deg}, None), dict(cap))[1:]):
            if oc.kind == "raise":
                ctx.ob(oc.exc.is_a("ParameterError") and not oc.exc.fault, Finding("C18.K-spline", fi.where, f"raises:{oc.exc.name}", f"bspline raises {oc.exc}"),
                       nontrivial_key=("spl-raise",))
                continue
            n += 1
            val, cp = oc.value
            dl = list(oc.decisions)
            zero = is_const(deg, 0) or any("== 0" in l and c == 0 for l, c in dl)
            if zero:
                ok = isinstance(val, tuple) and len(val) == 2 and val[0] == XS and val[1] == YS
                ctx.ob(ok, Finding("C18.K-spline", fi.where, "degree0", f"degree 0 must return the data unchanged; returns {val!r}"), nontrivial_key=("deg0",))
                continue
            sv = cp.get("splev")
            ok = False
            why = "the smoothed curve is not evaluated as a B-spline whose control points are the data (no splev(u, (knots, data.T, degree)) call): " \
                  "an interpolating spline through the points over- and undershoots, so non-negative contributions can yield a negative distribution"
            if sv:
                tck = sv[1]
                why = f"tck = {tck!r}"
                if isinstance(tck, tuple) and len(tck) == 3:
                    c = tck[1]
                    cvT = Term(".T", [Term("numpy.stack", [(XS, YS)], {"axis": Num.const(-1)})])
                    ok = isinstance(c, Term) and c == cvT
                    why = f"spline coefficients are {c!r}; the data themselves (numpy.stack((xs, ys), axis=-1).T) required as control points"
            ctx.ob(ok, Finding("C18.K-spline", fi.where, "control-points", why), nontrivial_key=("cv",))
            # both outputs are projections of the same evaluation
            okp = isinstance(val, tuple) and len(val) == 2 and all(_proj_of(v, i) for i, v in enumerate(val))
            ctx.ob(okp, Finding("C18.K-spline", fi.where, "outputs", f"returned {val!r}: column 0 / column 1 of one splev evaluation required"),
                   nontrivial_key=("proj",))
    ctx.floor("bspline returning paths", n, 2)


def _proj_of(v, i):
    """numpy.array([e[i] for e in <splev result transposed>])"""
    v = norm(v)
    if isinstance(v, list) and len(v) == 1 and isinstance(v[0], Term) and v[0].op == "getitem" and is_const(v[0].args[1], i):
        base = v[0].args[0]
        return isinstance(base, Term) and base.op == "elem" and any(isinstance(s, Term) and s.op == "splev" for s in base.subterms())
    return False


def r_data(ctx: Ctx, model):
    ctx.rule("K-data: shipped kernel tables are rectangular, numeric, increasing positive pressures and widths, non-negative loadings")
    init = os.path.join(ctx.root, "src/pygaps/data/__init__.py")
    tree = ast.parse(open(init).read())
    names = []
    for st in tree.body:
        if isinstance(st, ast.Assign) and any(isinstance(t, ast.Name) and t.id == "KERNELS" for t in st.targets):
            for k, v in zip(st.value.keys, st.value.values):
                fn = [c.value for c in ast.walk(v) if isinstance(c, ast.Constant) and isinstance(c.value, str)][-1]
                names.append((k.value, fn))
    ctx.floor("shipped kernels", len(names), 1)
    for kname, fn in names:
        path = os.path.join(ctx.root, "src/pygaps/data/kernels", fn)
        where = f"src/pygaps/data/kernels/{fn}"
        if not os.path.exists(path):
            ctx.ob(False, Finding("C18.K-data", "src/pygaps/data/__init__.py", f"{kname}|missing", f"kernel file {fn} does not exist"))
            continue
        rows = list(csv.reader(open(path, encoding="utf8")))
        hdr, body = rows[0], [r for r in rows[1:] if r]
        bad = []
        try:
            widths = [float(x) for x in hdr[1:]]
        except ValueError:
            widths = []
            bad.append("non-numeric pore width in header")
        if hdr[0] != "":
            bad.append(f"first header cell {hdr[0]!r} (index column expected)")
        if any(b <= a for a, b in zip(widths, widths[1:])) or (widths and widths[0] <= 0):
            bad.append("pore widths not positive strictly increasing")
        ps = []
        for i, r in enumerate(body):
            if len(r) != len(hdr):
                bad.append(f"row {i + 2}: {len(r)} cells, header has {len(hdr)}")
                continue
            try:
                vals = [float(x) for x in r]
            except ValueError:
                bad.append(f"row {i + 2}: non-numeric cell")
                continue
            ps.append(vals[0])
            if any(v < 0 or v != v for v in vals[1:]):
                bad.append(f"row {i + 2}: negative / NaN loading")
        if any(b <= a for a, b in zip(ps, ps[1:])) or (ps and ps[0] <= 0):
            bad.append("pressures not positive strictly increasing")
        ctx.ob(not bad, Finding("C18.K-data", where, f"{kname}|table", "; ".join(bad[:5])), nontrivial_key=("data", kname))
        ctx.analysed.setdefault("kernel_tables", {})[kname] = {"widths": len(widths), "pressures": len(ps)}
        if kname == "DFT-N2-77K-carbon-slit":
            ctx.floor("widths in shipped kernel", len(widths), 77)


def run(ctx: Ctx):
    model = load(ctx.root)
    ctx.assume("scipy.optimize.minimize: result.x respects the bounds for bound-honouring methods, result.success is truthful; "
               "scipy.interpolate.interp1d raises ValueError outside its table unless bounds_error=False / fill_value is given; "
               "scipy.interpolate.splev with control points c lies in their convex hull")
    r_fit(ctx, model)
    r_load(ctx, model)
    r_limits(ctx, model)
    r_path(ctx, model)
    r_spline(ctx, model)
    r_data(ctx, model)
    from ..sites import no_memoisation
    ctx.rule("K-fresh: no caching decorator on any function of pygaps.characterisation.")
    no_memoisation(ctx, load(ctx.root), "C18", "K-fresh", ('pygaps.characterisation.',),
                   "only the write-once kernel table may be cached (checked in C04)")


META = {
    "technique": "abstract interpretation over uninterpreted array terms (path-enumerating) of psd_dft / psd_dft_kernel_fit / "
                 "_load_kernel / bspline with summarised optimiser and interpolator constructors; term matching against the "
                 "fit equations; non-interference walk for the pressure limits; static lint of the shipped kernel table",
    "level_text": "Static: on every path of the kernel fit the optimiser call (bounds, method), its objective, the success test, "
                  "the reported fitted isotherm, the distribution / cumulative-volume formulas over the returned arrays, the "
                  "out-of-range refusal (interpolator constructor semantics + exception conversion) and the flow of unsliced "
                  "data into the fit are derived from the source and compared with the property's equations.",
    "level_note": "Trusted: scipy minimize / interp1d / splev documented behaviour (assumptions listed in the evidence). Not "
                  "decided: reproduction of exact combinations within tolerance and any numeric value.",
}
