"""C18 - kernel (DFT) fitting: structural clauses.

Decided statically by abstract interpretation of psd_dft, psd_dft_kernel_fit, _load_kernel and bspline.  pandas / scipy calls build
uninterpreted terms, the optimiser, the interpolator constructors and splev are summarised, every branch on data is forked.  The
array algebra of the fit (broadcast products, sums over axes, squares, ediff1d / diff, cumsum, stack / transpose / slicing ...) is
carried out by the checker's own numpy on *symbolic elements* (pgverif/ndsym.py) for a small instance - a kernel table with 2 width
columns w_0, w_1, 3 fitted pressures, smoother outputs of 2 and of 3 samples - so that what the code computes is a closed sympy
expression per element, compared with the property's equation by exact normalisation (spelling of the arithmetic is irrelevant):
  K-bounds    the optimiser is called with a bounds-honouring method, one variable per kernel isotherm and a lower bound >= 0 on each
  K-objective objective(x) == sum_p (sum_w k_w(P_p) * x_w - L_p)^2, k_w being the interpolator built over table column w evaluated
              at the pressures passed in
  K-success   `not result.success` -> CalculationError on every path
  K-report    fitted isotherm == sum_w k_w(P_p) * result.x_w; the smoother receives the table's widths and result.x_w / (w_w - w_(w-1))
              with the caller's order; the returned widths / distribution are its outputs; cumulative == cumsum(d_i * (bw_i - bw_(i-1)))
              of the *returned* arrays, on every path and for both output lengths
  K-range     a pressure outside the kernel table raises CalculationError (the interpolators built by _load_kernel refuse to
              extrapolate and the ValueError is converted); every interpolator is built over the table's pressure index and the
              values of its own column; a second load returns the cached kernel
  K-limits    the arrays handed to the fit are the [minimum:maximum+1] slices of the isotherm arrays with indices from
              searchsorted on the pressure: no other flow from the unsliced arrays (non-interference, term level)
  K-spline    bspline returns its input for degree 0 and otherwise evaluates one B-spline whose control points are the data
              (convex-hull property: non-negative control points give a non-negative curve); the outputs are the x / y rows of it
  K-data      the shipped kernel table is rectangular, numeric, with increasing positive pressures and widths, loadings >= 0
Not decided: reproduction of exact combinations within the optimiser tolerance (numerical), monotonicity of the cumulative
volume as a number (follows from K-bounds + K-spline + K-report for increasing widths, not proved here).  The instance sizes are
fixed small numbers: code whose behaviour depends on the array length beyond "equal / different" is outside what is explored.
"""
from __future__ import annotations

import ast
import csv
import os

import numpy
import sympy as sp

from ..absint import opt_args, ExtRef, LambdaRef, FuncRef, Obj, Raised, Term, ExcVal, UnknownBool
from ..core import AnalysisError, Ctx, Finding
from ..domain import make_interp
from ..ndsym import eq_arrays, from_np, install_nd, sym_array, to_np
from ..num import Num
from ..srcmodel import load

PK = "pygaps.characterisation.psd_kernel"
MU = "pygaps.utilities.math_utilities"

# constructor -> does the interpolator raise ValueError outside the table (given its keywords)?
def _interp1d_raises(kw):
    be = kw.get("bounds_error")
    fv = kw.get("fill_value")
    if fv == "extrapolate":
        return False
    if be is None:
        return fv is None        # scipy: bounds_error defaults to True unless a fill_value is given
    return be is True


RAISING = {
    "scipy.interpolate.interp1d": _interp1d_raises,
    "scipy.interpolate.make_interp_spline": lambda kw: False,
    "scipy.interpolate.CubicSpline": lambda kw: False,
    "scipy.interpolate.PchipInterpolator": lambda kw: False,
    "scipy.interpolate.Akima1DInterpolator": lambda kw: False,
    "scipy.interpolate.UnivariateSpline": lambda kw: False,
    "scipy.interpolate.InterpolatedUnivariateSpline": lambda kw: kw.get("ext") in (2, "raise"),
    "scipy.interpolate.BSpline": lambda kw: False,
    "scipy.interpolate.splrep": lambda kw: False,
}
BOUNDED_METHODS = {"SLSQP", "L-BFGS-B", "TNC", "trust-constr", "Powell", "Nelder-Mead", "COBYQA"}


def mk(model):
    I = make_interp(model)
    for key in [k for k in I.ext if k.split(".")[0] in ("numpy", "pandas", "scipy")]:
        del I.ext[key]          # every array-library call becomes an uninterpreted term in this check

    def fallback(I, dotted, args, kwargs, node):
        if dotted in RAISING:
            raises = RAISING[dotted]({k: (I.to_py(v, node) if isinstance(v, Num) else v) for k, v in kwargs.items()})
            return Obj(kind="Interp", label=f"{dotted.split('.')[-1]}@{getattr(node, 'lineno', 0)}",
                       attrs={"ctor": dotted, "raises": raises, "x": args[0] if args else None, "y": args[1] if len(args) > 1 else None,
                              "kw": dict(kwargs)})
        if dotted.split(".")[0] in ("numpy", "scipy", "pandas", "importlib", "importlib_resources"):
            return Term(dotted, args, kwargs)
        return NotImplemented
    I.ext_fallback = fallback

    def interp_call(I, v, a, k, n):
        outside = I.choose(2, "pressure outside the kernel table") == 0
        if outside:
            if v.attrs["raises"]:
                raise I.fault("ValueError", n, "A value in x_new is outside the interpolation range")
            return Term("extrapolated", [v, a[0]])
        return Term("kernel_value", [v, a[0]])
    I.libmeth[("Interp", "__call__")] = interp_call
    for nm in ("columns", "index", "values", "T"):
        I.libattr[("Term", nm)] = (lambda nm: lambda I, v, n: Term("." + nm, [v]))(nm)
    import pathlib as _pl

    def mk_path(I, a, k, n):
        if a and isinstance(a[0], str):
            return Obj(kind="PurePath", label=a[0], attrs={"p": _pl.PurePosixPath(a[0])})
        return Term("pathlib.Path", a, k)
    for nm in ("pathlib.Path", "pathlib.PurePath", "pathlib.PurePosixPath"):
        I.ext[nm] = mk_path
    for at in ("stem", "name", "suffix"):
        I.libattr[("PurePath", at)] = (lambda at: lambda I, v, n: getattr(v.attrs["p"], at))(at)
    I.libattr[("PurePath", "parent")] = lambda I, v, n: Obj(kind="PurePath", label=str(v.attrs["p"].parent), attrs={"p": v.attrs["p"].parent})
    I.ext["os.path.basename"] = lambda I, a, k, n: _pl.PurePosixPath(a[0]).name if isinstance(a[0], str) else Term("os.path.basename", a)
    I.ext["os.path.splitext"] = lambda I, a, k, n: (str(_pl.PurePosixPath(a[0]).with_suffix("")), _pl.PurePosixPath(a[0]).suffix) if isinstance(a[0], str) else Term("os.path.splitext", a)
    I.ext["builtins.open"] = lambda I, a, k, n: Obj(kind="File", label="file", attrs={"path": a[0]})
    I.libmeth[("File", "__enter__")] = lambda I, v, a, k, n: v
    I.libmeth[("File", "__exit__")] = lambda I, v, a, k, n: None
    I.ext["pandas.read_csv"] = lambda I, a, k, n: Term("read_csv", [a[0].attrs.get("path") if isinstance(a[0], Obj) else a[0]], k)
    return I


# -- term normalisation ---------------------------------------------------------------------------------------------------
def norm(t):
    """numpy function forms -> operator forms; axis/keyword noise dropped where it does not change the meaning used here"""
    if isinstance(t, (list, tuple)):
        return type(t)(norm(x) for x in t)
    if not isinstance(t, Term):
        return t
    a = [norm(x) for x in t.args]
    kw = {k: norm(v) for k, v in t.kw}
    op = t.op
    if op in ("numpy.subtract",):
        return Term("-", a)
    if op in ("numpy.multiply",):
        return Term("*", a)
    if op in ("numpy.add",):
        return Term("+", a)
    if op in ("numpy.divide", "numpy.true_divide"):
        return Term("/", a)
    if op == "numpy.square":
        return Term("**", [a[0], Num.const(2)])
    if op == "numpy.power":
        return Term("**", a)
    if op in (".sum", "numpy.sum"):
        axis = kw.get("axis", a[1] if len(a) > 1 else None)
        return Term("sum", [a[0], axis])
    # first differences that keep the first element: ediff1d(x, to_begin=x[0]) == diff(x, prepend=0) == diff(insert/concat 0)
    if op == "numpy.ediff1d" and len(a) == 1 and isinstance(kw.get("to_begin"), Term) and kw["to_begin"] == Term("getitem", [a[0], Num.const(0)]) \
            and set(kw) == {"to_begin"}:
        return Term("fdiff", [a[0]])
    if op == "numpy.diff" and len(a) == 1 and set(kw) == {"prepend"} and is_const(kw["prepend"], 0):
        return Term("fdiff", [a[0]])
    if op in ("numpy.asarray", "numpy.array", "numpy.asanyarray") and not (kw.get("dtype") in ("int", "int64")):
        return a[0] if not isinstance(a[0], list) or True else a[0]
    return Term(op, a, kw)


def is_const(v, c):
    return isinstance(v, Num) and v.is_const() and v.value() == c


def same(a, b):
    if isinstance(a, Term) and isinstance(b, Term):
        return a == b
    if isinstance(a, (list, tuple)) and isinstance(b, (list, tuple)):
        return len(a) == len(b) and all(same(x, y) for x, y in zip(a, b))
    if isinstance(a, Num) and isinstance(b, Num):
        return a == b
    return a == b if type(a) is type(b) else False


NW, NPT = 2, 3          # widths (kernel isotherms), fitted pressure points
NBS = (2, 3)             # samples returned by the smoother: as many as widths (order 0 / equal resampling) and a different number
WS = [sp.Symbol(f"w_{i}", positive=True) for i in range(NW)]


def set_instance(nw, npt, nbs):
    """size of the symbolic instance the fit rules are decided on (thorough adds a second, larger one)"""
    global NW, NPT, NBS, WS
    NW, NPT, NBS = nw, npt, nbs
    WS = [sp.Symbol(f"w_{i}", positive=True) for i in range(NW)]


def _syms_in(t):
    out = []
    for x in (t.subterms() if isinstance(t, Term) else []):
        for a in list(x.args) + [v for _, v in x.kw]:
            for y in (a if isinstance(a, (list, tuple)) else [a]):
                if isinstance(y, sp.Symbol) and y not in out:
                    out.append(y)
    return out


def _col_of(it):
    """index of the table column an interpolator is built over (from its y operand)"""
    ys = [s_ for s_ in _syms_in(it.attrs.get("y")) if s_ in WS]
    return WS.index(ys[0]) if len(ys) == 1 else None


def kfun(j):
    return sp.Function(f"k{j}")


def mk_nd(model):
    """term interpreter for the pandas / scipy part + symbolic numpy arrays (ndsym) for the array algebra; the kernel table has NW
    columns labelled w_0..: iterating the table, its `.columns`, `.keys()` or `.items()` yields them"""
    I = mk(model)
    install_nd(I)

    def term_iter(I, v, a, k, n):
        if v.op in (".items", ".iteritems"):
            return [(w, Term("getitem", [v.args[0], w])) for w in WS]
        table = any(st.op == "read_csv" for st in v.subterms())
        if table and v.op not in (".index", ".values", ".to_numpy", ".T", ".iterrows", ".itertuples", "getitem"):
            return list(WS)
        return [Term("elem", [v])]
    I.libmeth[("Term", "__iter__")] = term_iter

    def interp_call(I, v, a, k, n):
        outside = I.choose(2, "pressure outside the kernel table") == 0
        if outside and v.attrs["raises"]:
            raise I.fault("ValueError", n, "A value in x_new is outside the interpolation range")
        j = _col_of(v)
        f = sp.Function(("e" if outside else "k") + (str(j) if j is not None else "_" + v.label.replace("@", "_")))
        arg = to_np(I, a[0], n)
        if isinstance(arg, (list, tuple, numpy.ndarray)):
            return from_np(numpy.vectorize(lambda x_: f(x_), otypes=[object])(numpy.asarray(arg, dtype=object)))
        return f(arg)
    I.libmeth[("Interp", "__call__")] = interp_call
    return I


def _is_int(v, c):
    return (isinstance(v, Num) and v.is_const() and v.value() == c) or (isinstance(v, sp.Basic) and v == c)


def _zero(e):
    try:
        return sp.expand(sp.sympify(e)) == 0 or sp.simplify(e) == 0
    except Exception:
        return False


def r_fit(ctx: Ctx, model):
    ctx.rule("K-bounds / K-objective / K-success / K-report / K-range: psd_dft_kernel_fit + _load_kernel interpreted over a symbolic "
             f"{NW}-width x {NPT}-point instance (numpy algebra carried out on symbolic elements), all paths; results compared with the "
             "property's equations by exact normalisation")
    fi = model.func(f"{PK}.psd_dft_kernel_fit")
    P, L, ORDER = sym_array("P", NPT), sym_array("L", NPT, real=True), sp.Symbol("order", integer=True, nonnegative=True)
    npaths = {"ok": 0, "raise": 0}
    for preloaded, NB in ((False, NBS[0]), (False, NBS[1]), (True, NBS[1])):
        I = mk_nd(model)
        cap = {}

        def minimize(I, a, k, n):
            cap["fun"], cap["x0"], cap["kw"], cap["node"] = a[0], a[1], dict(k), n
            x0 = a[1]
            nvar = len(x0) if isinstance(x0, (list, tuple, numpy.ndarray)) else None
            cap["nvar"] = nvar
            X = sym_array("x", nvar if nvar else NW, real=True)
            cap["X"] = X
            cap["objective"] = I.call_value(a[0], [X] + opt_args(k), {}, n)
            ok = I.choose(2, "result.success") == 0
            RX = sym_array("r", nvar if nvar else NW, nonnegative=True)
            cap["RX"] = RX
            return Obj(kind="OptRes", label="result", attrs={"x": RX, "success": ok, "message": "m", "fun": sp.Symbol("result_fun"),
                                                             "status": Num.const(0) if ok else Num.const(9), "nit": Num.const(5)})
        I.ext["scipy.optimize.minimize"] = minimize
        bs = {}

        def bspline(I, fi_, env, n):
            bs.setdefault("calls", []).append((env.get("xs"), env.get("ys"), env.get("degree"), env.get("n"), env.get("periodic")))
            return (sym_array("bw", NB), sym_array("bd", NB, real=True))
        I.overrides[f"{MU}.bspline"] = bspline

        def thunk(I):
            cap.clear()
            bs.clear()
            if preloaded:
                # second call with the same path: the cached kernel must be the same interpolators
                I.call_func(model.func(f"{PK}._load_kernel"), ["KPATH"], {}, None)
            v = I.call_func(fi, [P, L, "KPATH", ORDER], {}, None)
            return v, dict(cap), dict(bs)
        outs = I.explore(thunk, max_paths=4000)
        for oc in outs:
            dec = dict(oc.decisions)
            dl = [(l, c) for l, c in oc.decisions]
            outside = any(l == "pressure outside the kernel table" and c == 0 for l, c in dl)
            if oc.kind == "raise":
                npaths["raise"] += 1
                e = oc.exc
                if outside:
                    ctx.ob(e.is_a("CalculationError"), Finding("C18.K-range", fi.where, f"outside-range-raises:{e.name}",
                                                               f"a pressure outside the kernel table surfaces as {e.name}; CalculationError required"),
                           nontrivial_key=("range", "raise", e.name))
                    continue
                if dec.get("result.success") == 1:
                    ctx.ob(e.is_a("CalculationError"), Finding("C18.K-success", fi.where, f"failure-raises:{e.name}",
                                                               f"optimiser failure surfaces as {e.name}; CalculationError required"),
                           nontrivial_key=("success", "raise"))
                    continue
                okp = e.is_a("ParameterError") and not e.fault
                ctx.ob(okp, Finding("C18.K-report", fi.where, f"unexpected-raise:{e.name}", f"unexpected exception {e} on path {dl}"),
                       nontrivial_key=("raise", e.name))
                continue
            npaths["ok"] += 1
            val, cp, b = oc.value
            ctx.ob(not outside, Finding("C18.K-range", fi.where, "outside-range-accepted",
                                        "a pressure outside the kernel table is accepted: the interpolators built by _load_kernel "
                                        "do not raise there (extrapolation), so no CalculationError"),
                   nontrivial_key=("range", "ok", outside))
            ctx.ob(dec.get("result.success") == 0, Finding("C18.K-success", fi.where, "returns-after-failure",
                                                           f"returns although result.success is false/untested (path {dl})"),
                   nontrivial_key=("success", dec.get("result.success")))
            if outside:
                continue
            _check_call(ctx, fi, cp, P, L)
            _check_report(ctx, fi, val, cp, b, P, ORDER, dl, NB)
    ctx.floor("psd_dft_kernel_fit returning paths", npaths["ok"], 3)
    ctx.floor("psd_dft_kernel_fit raising paths", npaths["raise"], 4)


def _kl(P, X):
    """the property's kernel loading: sum_w k_w(p) * x_w at every fitted pressure"""
    return [sum(kfun(j)(P[p]) * X[j] for j in range(NW)) for p in range(NPT)]


def _check_call(ctx, fi, cp, P, L):
    kw = cp.get("kw", {})
    # K-bounds
    method = kw.get("method")
    ctx.ob(method in BOUNDED_METHODS, Finding("C18.K-bounds", fi.where, "method", f"optimiser method {method!r} does not honour bounds"),
           nontrivial_key=("method", method))
    nvar = cp.get("nvar")
    ctx.ob(nvar == NW, Finding("C18.K-bounds", fi.where, "variables", f"the optimiser starts from {cp.get('x0')!r}: one variable per kernel isotherm "
                               f"({NW} in the analysed instance) required"), nontrivial_key=("nvar", nvar))
    b = kw.get("bounds")
    okb, why = False, f"bounds={b!r}"

    def nonneg(v):
        if isinstance(v, Num):
            return v.is_const() and v.value() >= 0
        if isinstance(v, (int, float)) and not isinstance(v, bool):
            return v >= 0
        if isinstance(v, numpy.ndarray):
            return all(nonneg(x) for x in v.ravel())
        if isinstance(v, (list, tuple)):
            return bool(v) and all(nonneg(x) for x in v)
        return isinstance(v, sp.Basic) and v.is_nonnegative is True
    if isinstance(b, numpy.ndarray) and b.ndim == 2:
        b = [tuple(r) for r in b]
    if isinstance(b, (list, tuple)) and b:
        okb = len(b) == NW and all(isinstance(e, (tuple, list)) and len(e) == 2 and nonneg(e[0]) for e in b)
        why = f"bounds {b!r}: every one of the {NW} variables needs a lower bound >= 0"
    elif isinstance(b, Term) and b.op == "scipy.optimize.Bounds":
        lb = b.args[0] if b.args else dict(b.kw).get("lb")
        okb = nonneg(lb)
        why = f"Bounds lower bound {lb!r}"
    elif b is None:
        why = "no bounds passed: SLSQP inequality constraints alone are only satisfied to tolerance (small negative contributions)"
    ctx.ob(okb, Finding("C18.K-bounds", fi.where, "bounds", why), nontrivial_key=("bounds", repr(b)))
    # K-objective: sum_p (sum_w k_w(P_p) x_w - L_p)^2, k_w being the interpolator of table column w evaluated at the pressures passed in
    obj = cp.get("objective")
    X = cp.get("X")
    bad = None
    if isinstance(obj, numpy.ndarray):
        bad = f"the objective returns an array of shape {obj.shape}, not the scalar sum of squares"
    elif not isinstance(obj, (sp.Basic, Num)):
        bad = f"objective value {obj!r}"
    else:
        want = sum((kl - L[p]) ** 2 for p, kl in enumerate(_kl(P, X)))
        got = to_np(None, obj)
        if not _zero(got - want):
            bad = f"objective({', '.join(map(str, X))}) = {sp.factor(got)}; required sum over the {NPT} pressures of (sum_w k_w(P_p)*x_w - L_p)^2 " \
                  "(k_w: interpolator of kernel column w at the fitted pressures)"
    ctx.ob(not bad, Finding("C18.K-objective", fi.where, "objective", f"objective term: {bad}"), nontrivial_key=("objective", NW, NPT))


def _check_report(ctx, fi, val, cp, b, P, ORDER, dl, NB):
    if not (isinstance(val, tuple) and len(val) == 4):
        ctx.ob(False, Finding("C18.K-report", fi.where, "shape", f"returns {val!r}; (widths, distribution, cumulative, fitted loading) required"))
        return
    w_out, d_out, cum, fitted = val
    RX = cp.get("RX")
    if RX is None:
        ctx.ob(False, Finding("C18.K-report", fi.where, "no-optimiser", "the optimiser is not called"))
        return
    # fitted isotherm = kernel_loading(result.x)
    okf = eq_arrays(fitted, numpy.array(_kl(P, RX), dtype=object))
    ctx.ob(okf, Finding("C18.K-report", fi.where, "fitted-loading",
                        f"reported fitted isotherm {fitted!r} is not kernel_loading(result.x) = sum_w k_w(P_p)*x_w of the result that yields the distribution"),
           nontrivial_key=("fitted", NW, NPT))
    calls = b.get("calls") or []
    if len(calls) != 1:
        ctx.ob(False, Finding("C18.K-report", fi.where, "no-smoothing-call", f"bspline is called {len(calls)} times with the distribution; exactly once required"))
        return
    xs, ys, deg, n_, per = calls[0]
    want_w = numpy.array(WS, dtype=object)
    want_d = numpy.array([RX[j] / (WS[j] - (WS[j - 1] if j else 0)) for j in range(NW)], dtype=object)
    okw = eq_arrays(xs, want_w)
    ctx.ob(okw, Finding("C18.K-report", fi.where, "widths", f"widths handed to the smoother are {xs!r}; the kernel's column labels in table order required"),
           nontrivial_key=("widths",))
    okd = eq_arrays(ys, want_d) and deg == ORDER and (n_ is None or _is_int(n_, 100)) and per in (None, False)
    ctx.ob(okd, Finding("C18.K-report", fi.where, "distribution",
                        f"distribution handed to the smoother is {ys!r} (degree {deg!r}); required result.x / ediff1d(widths, to_begin=widths[0]) "
                        "with the caller's spline order"), nontrivial_key=("dist", NW))
    bw, bd = sym_array("bw", NB), sym_array("bd", NB, real=True)
    ok_out = eq_arrays(w_out, bw) and eq_arrays(d_out, bd)
    ctx.ob(ok_out, Finding("C18.K-report", fi.where, "returned-arrays", f"returned widths / distribution are {w_out!r} / {d_out!r}, not the smoother's outputs"),
           nontrivial_key=("out",))
    want_cum = numpy.cumsum(numpy.array([bd[i] * (bw[i] - (bw[i - 1] if i else 0)) for i in range(NB)], dtype=object))
    okc = eq_arrays(cum, want_cum)
    ctx.ob(okc, Finding("C18.K-report", fi.where, "cumulative",
                        f"cumulative volume is {cum!r} on path {[(l, c) for l, c in dl if 'len' in l] or 'all'}; required cumsum(returned distribution * "
                        f"ediff1d(returned widths, to_begin=returned widths[0])) (instance: {NW} kernel widths, smoother returns {NB} samples)"), nontrivial_key=("cum", NB, tuple(c for l, c in dl)))


def r_load(ctx: Ctx, model):
    ctx.rule("K-range (constructor side): every interpolator _load_kernel stores is built over (pressure index, column values) of the table, cached per path")
    I = mk_nd(model)
    fi = model.func(f"{PK}._load_kernel")

    def thunk(I):
        k1 = I.call_func(fi, ["KPATH"], {}, None)
        k2 = I.call_func(fi, ["KPATH"], {}, None)
        return k1, k2
    outs = I.explore(thunk)
    n = 0
    for oc in outs:
        if oc.kind != "ok":
            ctx.ob(False, Finding("C18.K-range", fi.where, f"load-raises:{oc.exc.name}", f"_load_kernel raises {oc.exc}"))
            continue
        k1, k2 = oc.value
        ctx.ob(isinstance(k1, dict) and k1 is k2, Finding("C18.K-range", fi.where, "cache", "second load of the same path must return the cached kernel"),
               nontrivial_key=("cache",))
        for size, it in (k1.items() if isinstance(k1, dict) else []):
            n += 1
            ok = isinstance(it, Obj) and it.kind == "Interp"
            ctx.ob(ok, Finding("C18.K-range", fi.where, "not-interpolator", f"kernel entry {it!r}"), nontrivial_key=("interp",))
            if not ok:
                continue
            ctx.ob(it.attrs["raises"], Finding("C18.K-range", fi.where, f"extrapolating:{it.attrs['ctor'].split('.')[-1]}",
                                               f"{it.attrs['ctor']}({', '.join(f'{k}={v!r}' for k, v in it.attrs['kw'].items())}) does not raise outside "
                                               "the tabulated pressures: out-of-range isotherm points are extrapolated instead of refused"),
                   nontrivial_key=("raises", it.attrs["ctor"]))
            # x = index (pressures) of the table / of the column, y = the values of column `size` of the same table
            x, y = it.attrs["x"], it.attrs["y"]
            col = y.args[0] if isinstance(y, Term) and y.op in (".values", ".to_numpy", "numpy.asarray", "numpy.array") and y.args else y
            okcol = isinstance(col, Term) and col.op == "getitem" and col.args[1] == size and size in WS
            tab = col.args[0] if okcol else None
            okx = okcol and isinstance(x, Term) and x.op == ".index" and (x.args[0] == col or x.args[0] == tab)
            ctx.ob(okcol and okx, Finding("C18.K-range", fi.where, "interp-operands", f"interpolator for column {size!r} built over x={x!r}, y={y!r}; "
                                          "the table's pressure index and the values of that column required"),
                   nontrivial_key=("xy",))
            if okcol and okx:
                # the table: concat([zero row at pressure 0, raw table])
                okz = isinstance(tab, Term) and tab.op == "pandas.concat"
                ctx.ob(okz, Finding("C18.K-range", fi.where, "table", f"interpolated table is {tab!r}"), nontrivial_key=("tab",))
    ctx.floor("interpolators built by _load_kernel", n, NW)
    r_load_failure(ctx, model)


def r_load_failure(ctx: Ctx, model, prop="C18", rule="K-range"):
    """loaded kernels are invisible: a load that fails part-way (a malformed column) leaves nothing behind - the next load of the same
    path builds the complete kernel again (interpreted with the second interpolator construction raising)"""
    from ..absint import Raised
    ctx.rule(f"{rule} (failed load): after _load_kernel(path) failed while building its second interpolator, a repeated load returns a "
             "complete kernel (no partial entry is served from the cache)")
    I = mk_nd(model)
    fi = model.func(f"{PK}._load_kernel")
    state = {"fail": False, "n": 0}
    inner = I.ext_fallback

    def fallback(I, dotted, args, kwargs, node):
        if dotted in RAISING and state["fail"]:
            state["n"] += 1
            if state["n"] == 2:
                raise I.fault("ValueError", node, "could not convert string to float")
        return inner(I, dotted, args, kwargs, node)
    I.ext_fallback = fallback

    def thunk(I):
        state["fail"], state["n"] = False, 0
        full = I.call_func(fi, ["KPATH_REF"], {}, None)
        state["fail"], state["n"] = True, 0
        failed = False
        try:
            I.call_func(fi, ["KPATH_BAD"], {}, None)
        except Raised:
            failed = True
        state["fail"] = False
        again = I.call_func(fi, ["KPATH_BAD"], {}, None)
        return failed, len(full) if isinstance(full, dict) else None, len(again) if isinstance(again, dict) else None
    for oc in I.explore(thunk):
        ok = oc.kind == "ok" and oc.value[0] and oc.value[1] is not None and oc.value[1] == oc.value[2]
        ctx.ob(ok, Finding(f"{prop}.{rule}", fi.where, "failed-load-leaves-partial-kernel",
                           f"_load_kernel: after a load that failed at the second column, loading the same path again gives "
                           f"{oc.value[2] if oc.kind == 'ok' else oc!r} pore sizes, a clean load gives {oc.value[1] if oc.kind == 'ok' else '?'}: "
                           "the outcome of a query must not depend on an earlier failed one"),
               nontrivial_key=("failed-load",))


def r_limits(ctx: Ctx, model):
    ctx.rule("K-limits: non-interference - unsliced isotherm arrays reach the fit only through the [min:max+1] slice and the index computation")
    fi = model.func(f"{PK}.psd_dft")
    PIN, LIN = Term("P_in"), Term("L_in")
    nn = 0
    for lims in ("none", "both"):
        I = mk(model)
        cap = {}
        I.overrides["pygaps.utilities.pygaps_utilities.get_iso_loading_and_pressure_ordered"] = lambda I, fi_, env, n: (PIN, LIN)

        def fit(I, fi_, env, n):
            cap["pressure"], cap["loading"] = env.get("pressure"), env.get("loading")
            cap["kernel_path"], cap["order"] = env.get("kernel_path"), env.get("bspline_order")
            return (Term("W"), Term("D"), Term("C"), Term("F"))
        I.overrides[f"{PK}.psd_dft_kernel_fit"] = fit
        LO, HI = Term("lo"), Term("hi")

        def thunk(I):
            cap.clear()
            iso = Obj(kind="IsoStub", label="iso", attrs={})
            kw = {"p_limits": (LO, HI)} if lims == "both" else {}
            v = I.call_func(fi, [iso], {"bspline_order": Term("order"), **kw}, None)
            return v, dict(cap)
        for oc in I.explore(thunk):
            dl = list(oc.decisions)
            if oc.kind == "raise":
                ok = oc.exc.is_a("CalculationError") and not oc.exc.fault
                ctx.ob(ok, Finding("C18.K-limits", fi.where, f"raises:{oc.exc.name}", f"psd_dft raises {oc.exc} on path {dl}"),
                       nontrivial_key=("lim-raise", lims, tuple(c for _, c in dl)))
                continue
            nn += 1
            val, cp = oc.value
            use_lo = any(l.startswith("truth(lo") and c == 0 for l, c in dl)
            use_hi = any(l.startswith("truth(hi") and c == 0 for l, c in dl)
            start = Term("numpy.searchsorted", [PIN, LO]) if use_lo else Num.const(0)
            stop_m1 = Term("-", [Term("numpy.searchsorted", [PIN, HI]), Num.const(1)]) if use_hi else Term("-", [Term("len", [PIN]), Num.const(1)])
            for name, src in (("pressure", PIN), ("loading", LIN)):
                got = cp.get(name)
                bad = None
                if not (isinstance(got, Term) and got.op == "getitem" and got.args[0] == src and as_slice(got.args[1]) is not None):
                    # general non-interference: every occurrence of an unsliced array must sit directly under the slice
                    bad = _leak(got, (PIN, LIN))
                    if bad is None:
                        bad = f"{name} handed to the fit is {got!r}"
                else:
                    sl = as_slice(got.args[1])
                    st_ok = (sl.start == start) if isinstance(sl.start, (Term, Num)) else False
                    want_stop = _plus1(stop_m1)
                    sp_ok = isinstance(sl.stop, (Term, Num)) and (sl.stop == want_stop or _plus1_eq(sl.stop, stop_m1))
                    if not (st_ok and sp_ok and sl.step is None):
                        bad = f"slice [{sl.start!r}:{sl.stop!r}] but limits give [{start!r}:{stop_m1!r}+1]"
                ctx.ob(not bad, Finding("C18.K-limits", fi.where, f"{name}|{'leak' if bad and 'outside' in bad else 'slice'}",
                                        f"{name} passed to the kernel fit: {bad}"),
                       nontrivial_key=("lim", lims, name, use_lo, use_hi))
            okk = isinstance(cp.get("order"), Term) and cp["order"] == Term("order")
            ctx.ob(okk, Finding("C18.K-limits", fi.where, "order", "the caller's spline order must reach the fit"), nontrivial_key=("order",))
            okr = isinstance(val, dict) and val.get("pore_widths") == Term("W") and val.get("pore_distribution") == Term("D") and \
                val.get("pore_volume_cumulative") == Term("C") and val.get("kernel_loading") == Term("F")
            ctx.ob(okr, Finding("C18.K-report", fi.where, "psd_dft-result", f"psd_dft result dictionary {val!r} does not carry the fit outputs under their names"),
                   nontrivial_key=("dict",))
    ctx.floor("psd_dft returning paths", nn, 5)


class _Sl:
    def __init__(self, start, stop, step):
        self.start, self.stop, self.step = start, stop, step


def _n(v):
    return Num.const(v) if isinstance(v, int) and not isinstance(v, bool) else v


def as_slice(x):
    if isinstance(x, slice):
        return _Sl(_n(x.start), _n(x.stop), _n(x.step))
    if isinstance(x, (tuple, list)) and len(x) == 4 and x[0] == "slice":
        return _Sl(_n(x[1]), _n(x[2]), _n(x[3]))
    return None


def _plus1(t):
    return Term("+", [t, Num.const(1)])


def _plus1_eq(stop, stop_m1):
    return isinstance(stop, Term) and stop.op == "+" and stop.args[0] == stop_m1 and is_const(stop.args[1], 1)


def _leak(t, srcs):
    """first occurrence of an unsliced source array that is not directly the operand of a slice / searchsorted / len"""
    def walk(x, parent):
        if isinstance(x, Term):
            if x in srcs:
                if parent is not None and (parent.op in ("numpy.searchsorted", "len") or
                                           (parent.op == "getitem" and as_slice(parent.args[1]) is not None and parent.args[0] is x)):
                    return None
                return f"the unsliced array {x!r} flows into the fit through `{parent!r}` (outside the requested limits)"
            for a in list(x.args) + [v for _, v in x.kw]:
                r = walk(a, x)
                if r:
                    return r
        elif as_slice(x) is not None:
            x = as_slice(x)
            for a in (x.start, x.stop, x.step):
                r = walk(a, Term("len", []))   # index computations may look at the whole pressure array
                if r:
                    return r
        elif isinstance(x, (list, tuple)):
            for a in x:
                r = walk(a, parent)
                if r:
                    return r
        return None
    return walk(t, None)


def r_path(ctx: Ctx, model):
    ctx.rule("K-path: a shipped kernel name resolves to its packaged file; any other value - in particular a user file whose name "
             "resembles a shipped kernel - reaches the fit unchanged")
    fi = model.func(f"{PK}.psd_dft")
    cases = {"DFT-N2-77K-carbon-slit": "shipped", "/data/user/DFT-N2-77K-carbon-slit.csv": "self", "/data/user/my-kernel.csv": "self",
             "DFT-N2-77K-carbon-slit.csv": "self"}
    for kernel, want in cases.items():
        I = mk(model)
        cap = {}
        I.overrides["pygaps.utilities.pygaps_utilities.get_iso_loading_and_pressure_ordered"] = lambda I, fi_, env, n: (Term("P_in"), Term("L_in"))

        def fit(I, fi_, env, n, cap=cap):
            cap["kernel_path"] = env.get("kernel_path")
            return (Term("W"), Term("D"), Term("C"), Term("F"))
        I.overrides[f"{PK}.psd_dft_kernel_fit"] = fit
        outs = [o for o in I.explore(lambda I: I.call_func(fi, [Obj(kind="IsoStub", label="iso", attrs={})], {"kernel": kernel}, None)) if o.kind == "ok"]
        got = cap.get("kernel_path")
        if want == "self":
            ok = bool(outs) and got == kernel
        else:
            ok = bool(outs) and got is not None and got != kernel
        ctx.ob(ok, Finding("C18.K-path", fi.where, f"kernel={'shipped-name' if want == 'shipped' else 'user:' + kernel.split('/')[-1]}",
                           f"psd_dft(kernel={kernel!r}) hands {got!r} to the fit; required "
                           f"{'the packaged file of that kernel' if want == 'shipped' else 'the value itself (a user supplied kernel file must be honoured)'}"),
               nontrivial_key=("path", kernel))


def r_spline(ctx: Ctx, model):
    ctx.rule("K-spline: bspline is the identity for degree 0 and otherwise an approximating B-spline with the data as control points "
             "(interpreted over symbolic 3-point data, numpy algebra on symbolic elements)")
    fi = model.func(f"{MU}.bspline")
    NC, NS = 3, 4
    XS, YS = sym_array("xs", NC), sym_array("ys", NC, real=True)
    n = 0
    for deg in (0, 1, 2, 3):
        I = mk(model)
        install_nd(I)
        cap = {}

        def splev(I, a, k, nn):
            cap.setdefault("splev", []).append((a[0], a[1]))
            m = len(a[0]) if isinstance(a[0], (numpy.ndarray, list, tuple)) else NS
            ev = sym_array("s", 2, m, real=True)
            return [ev[0], ev[1]]
        I.ext["scipy.interpolate.splev"] = splev
        for oc in I.explore(lambda I: (cap.clear(), I.call_func(fi, [XS, YS], {"degree": sp.Integer(deg), "n": sp.Integer(NS)}, None), dict(cap))[1:]):
            if oc.kind == "raise":
                ctx.ob(oc.exc.is_a("ParameterError") and not oc.exc.fault, Finding("C18.K-spline", fi.where, f"raises:{oc.exc.name}", f"bspline raises {oc.exc}"),
                       nontrivial_key=("spl-raise",))
                continue
            n += 1
            val, cp = oc.value
            if not (isinstance(val, (tuple, list)) and len(val) == 2):
                ctx.ob(False, Finding("C18.K-spline", fi.where, "shape", f"bspline returns {val!r}; (xs, ys) required"))
                continue
            if deg == 0:
                ok = eq_arrays(val[0], XS) and eq_arrays(val[1], YS)
                ctx.ob(ok, Finding("C18.K-spline", fi.where, "degree0", f"degree 0 must return the data unchanged; returns {val!r}"), nontrivial_key=("deg0",))
                continue
            sv = cp.get("splev") or []
            ok = False
            why = "the smoothed curve is not evaluated as a B-spline whose control points are the data (no single splev(u, (knots, data.T, degree)) call): " \
                  "an interpolating spline through the points over- and undershoots, so non-negative contributions can yield a negative distribution"
            if len(sv) == 1:
                tck = sv[0][1]
                why = f"tck = {tck!r}"
                if isinstance(tck, (tuple, list)) and len(tck) == 3:
                    c = tck[1]
                    ok = eq_arrays(c, numpy.array([list(XS), list(YS)], dtype=object))
                    why = f"spline coefficients are {c!r}; the data themselves (numpy.stack((xs, ys), axis=-1).T) required as control points"
                    # an open B-spline over `count` control points exists only up to degree count - 1
                    kdeg = to_np(None, tck[2]) if not isinstance(tck[2], (int,)) else tck[2]
                    want_deg = min(max(deg, 1), NC - 1)
                    okd = (isinstance(kdeg, (int, sp.Integer)) or getattr(kdeg, "is_Integer", False)) and int(kdeg) == want_deg
                    ctx.ob(okd, Finding("C18.K-spline", fi.where, f"degree|requested={deg}",
                                        f"bspline(degree={deg}) over {NC} points evaluates a spline of degree {kdeg!r}; required {want_deg} "
                                        f"(clipped to 1 .. count - 1 = {NC - 1}: a higher degree has no valid knot vector and the evaluation returns NaN)"),
                           nontrivial_key=("spline-degree", deg))
            ctx.ob(ok, Finding("C18.K-spline", fi.where, "control-points", why), nontrivial_key=("cv",))
            # both outputs are the two coordinate rows of the same evaluation
            m = len(val[0]) if isinstance(val[0], numpy.ndarray) else 0
            ev = sym_array("s", 2, m, real=True) if m else None
            okp = ev is not None and eq_arrays(val[0], ev[0]) and eq_arrays(val[1], ev[1])
            ctx.ob(okp, Finding("C18.K-spline", fi.where, "outputs", f"returned {val!r}: x row / y row of one splev evaluation required"),
                   nontrivial_key=("proj",))
    ctx.floor("bspline returning paths", n, 4)


def r_data(ctx: Ctx, model):
    ctx.rule("K-data: shipped kernel tables are rectangular, numeric, increasing positive pressures and widths, non-negative loadings")
    init = os.path.join(ctx.root, "src/pygaps/data/__init__.py")
    tree = ast.parse(open(init).read())
    names = []
    for st in tree.body:
        if isinstance(st, ast.Assign) and any(isinstance(t, ast.Name) and t.id == "KERNELS" for t in st.targets):
            for k, v in zip(st.value.keys, st.value.values):
                fn = [c.value for c in ast.walk(v) if isinstance(c, ast.Constant) and isinstance(c.value, str)][-1]
                names.append((k.value, fn))
    ctx.floor("shipped kernels", len(names), 1)
    for kname, fn in names:
        path = os.path.join(ctx.root, "src/pygaps/data/kernels", fn)
        where = f"src/pygaps/data/kernels/{fn}"
        if not os.path.exists(path):
            ctx.ob(False, Finding("C18.K-data", "src/pygaps/data/__init__.py", f"{kname}|missing", f"kernel file {fn} does not exist"))
            continue
        rows = list(csv.reader(open(path, encoding="utf8")))
        hdr, body = rows[0], [r for r in rows[1:] if r]
        bad = []
        try:
            widths = [float(x) for x in hdr[1:]]
        except ValueError:
            widths = []
            bad.append("non-numeric pore width in header")
        if hdr[0] != "":
            bad.append(f"first header cell {hdr[0]!r} (index column expected)")
        if any(b <= a for a, b in zip(widths, widths[1:])) or (widths and widths[0] <= 0):
            bad.append("pore widths not positive strictly increasing")
        ps = []
        for i, r in enumerate(body):
            if len(r) != len(hdr):
                bad.append(f"row {i + 2}: {len(r)} cells, header has {len(hdr)}")
                continue
            try:
                vals = [float(x) for x in r]
            except ValueError:
                bad.append(f"row {i + 2}: non-numeric cell")
                continue
            ps.append(vals[0])
            if any(v < 0 or v != v for v in vals[1:]):
                bad.append(f"row {i + 2}: negative / NaN loading")
        if any(b <= a for a, b in zip(ps, ps[1:])) or (ps and ps[0] <= 0):
            bad.append("pressures not positive strictly increasing")
        ctx.ob(not bad, Finding("C18.K-data", where, f"{kname}|table", "; ".join(bad[:5])), nontrivial_key=("data", kname))
        ctx.analysed.setdefault("kernel_tables", {})[kname] = {"widths": len(widths), "pressures": len(ps)}
        if kname == "DFT-N2-77K-carbon-slit":
            ctx.floor("widths in shipped kernel", len(widths), 77)


def run(ctx: Ctx):
    model = load(ctx.root)
    ctx.assume("scipy.optimize.minimize: result.x respects the bounds for bound-honouring methods, result.success is truthful; "
               "scipy.interpolate.interp1d raises ValueError outside its table unless bounds_error=False / fill_value is given; "
               "scipy.interpolate.splev with control points c lies in their convex hull")
    sizes = [(2, 3, (2, 3))] + ([(3, 4, (3, 5))] if ctx.tier == "thorough" else [])
    for nw, npt, nbs in sizes:
        set_instance(nw, npt, nbs)
        r_fit(ctx, model)
        r_load(ctx, model)
    set_instance(2, 3, (2, 3))
    ctx.analysed["symbolic instances (widths, pressures, smoother output lengths)"] = [list(map(str, s_)) for s_ in sizes]
    r_limits(ctx, model)
    r_path(ctx, model)
    r_spline(ctx, model)
    r_data(ctx, model)
    # the kernel cache: write-once, guarded, keyed by the full path (two kernel files never share an entry) - shared with C04 R-module
    from ..effects import Effects
    from .C04 import r_module
    eps = [f for n_, f in model.module(PK).functions.items()]
    r_module(ctx, model, Effects(model), eps, prop="C18", rule="K-fresh", write_once=[f"{PK}._LOADED"], memo=False)
    from ..sites import no_memoisation
    ctx.rule("K-fresh: no caching decorator on any function of pygaps.characterisation.")
    no_memoisation(ctx, load(ctx.root), "C18", "K-fresh", ('pygaps.characterisation.',),
                   "only the write-once kernel table may be cached (checked in C04)")


META = {
    "technique": "abstract interpretation (path-enumerating) of psd_dft / psd_dft_kernel_fit / _load_kernel / bspline with summarised "
                 "optimiser, interpolator constructors and splev; array algebra evaluated on symbolic elements (numpy object arrays "
                 "of sympy terms, small fixed instance) and compared with the fit equations by exact normalisation [ALG]; "
                 "non-interference walk over terms for the pressure limits; static lint of the shipped kernel table",
    "level_text": "Static: on every path of the kernel fit the optimiser call (bounds, method), its objective, the success test, "
                  "the reported fitted isotherm, the distribution / cumulative-volume formulas over the returned arrays, the "
                  "out-of-range refusal (interpolator constructor semantics + exception conversion) and the flow of unsliced "
                  "data into the fit are derived from the source and compared with the property's equations.",
    "level_note": "Trusted: scipy minimize / interp1d / splev documented behaviour (assumptions listed in the evidence). Not "
                  "decided: reproduction of exact combinations within tolerance and any numeric value.",
}
