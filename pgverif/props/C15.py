"""C15 - characterisation results do not depend on the units the isotherm is stored in.

Decided statically (E7 representation pinning): every read of an isotherm inside a characterisation entry point
(pressure, loading, pressure_at, loading_at, get_iso_loading_and_pressure_ordered) names the representation it wants:
  pressure side  pressure_mode in {relative, relative%} or (absolute + a pressure_unit), given as literals, or - for
                 multi-isotherm routines - taken from the FIRST isotherm for all of them
  loading side   loading_basis and loading_unit literals (or the first isotherm's)
  *_at calls     pin both the quantity supplied and the quantity returned
so that the numbers entering the analysis are the same whatever the stored representation (the conversion itself is
C01/C03).  Values passed INTO another isotherm's *_at call must be labelled with the representation they were read in.
Documented exceptions (one reason each) are listed in EXEMPT.  Material basis is outside the property's quantifier.
Not decided: numeric invariance to tolerance, linear scaling of extensive results.
"""
from __future__ import annotations

import ast

from ..core import AnalysisError, Ctx, Finding
from ..srcmodel import load

READ_METHODS = {"pressure": ("p",), "loading": ("l",), "pressure_at": ("l", "p"), "loading_at": ("p", "l")}
HELPER = "get_iso_loading_and_pressure_ordered"
SCOPE_PREFIXES = ("pygaps.characterisation.",)
# function -> reason why its reads are not pinned by literals
EXEMPT = {
    "pygaps.characterisation.initial_henry.initial_henry_slope": "result is reported in the isotherm's own units by specification",
    "pygaps.characterisation.initial_henry.initial_henry_virial": "result is reported in the isotherm's own units by specification",
    "pygaps.characterisation.models_thickness.load_std_isotherm": "reads the packaged standard isotherm files, whose stored representation (relative pressure, mmol/g) is part of the shipped data",
    "pygaps.characterisation.enth_sorp_whittaker.enthalpy_sorption_whittaker": "works on a model isotherm whose pressure unit is checked/converted to absolute Pa beforehand (guard + convert_pressure(mode_to='absolute', unit_to='Pa')); loadings enter only relative to n_m of the same model",
    "pygaps.characterisation.psd_kernel.psd_dft": "units are taken from the documented kernel_units argument with literal defaults (checked below)",
    "pygaps.characterisation.initial_enth.initial_enthalpy_point": "the result is the first value of the enthalpy column (no unit-bearing read); the loading read feeds the verbose plot only",
}


def literal(node, consts):
    if isinstance(node, ast.Constant):
        return ("lit", node.value)
    if isinstance(node, ast.Name) and node.id in consts:
        return consts[node.id]
    if isinstance(node, ast.Attribute):
        src = ast.unparse(node)
        if src.startswith("isotherms[0].") and node.attr in ("pressure_mode", "pressure_unit", "loading_basis", "loading_unit", "material_unit", "material_basis"):
            return ("first", node.attr)
        return ("expr", src)
    if isinstance(node, ast.Call) and isinstance(node.func, ast.Attribute) and node.func.attr == "get" and len(node.args) == 2 \
            and isinstance(node.args[1], ast.Constant):
        return ("param-default", node.args[1].value, ast.unparse(node.func.value))
    return ("expr", ast.unparse(node))


def dict_of(node, consts):
    """keyword dictionary of a dict display / name bound to one"""
    if isinstance(node, ast.Name) and node.id in consts and consts[node.id][0] == "dict":
        return consts[node.id][1]
    if isinstance(node, ast.Dict):
        out = {}
        for k, v in zip(node.keys, node.values):
            if isinstance(k, ast.Constant):
                out[k.value] = literal(v, consts)
        return out
    return None


def side_pinned(side, kw):
    """kw: name -> ('lit', v) | ('first', attr) | ('param-default', v, src) | ('expr', src)"""
    def ok(v, allowed=None):
        if v is None:
            return False
        if v[0] == "lit":
            return v[1] is not None and (allowed is None or v[1] in allowed)
        return v[0] in ("first", "param-default")
    if side == "p":
        mode = kw.get("pressure_mode")
        if mode is not None and mode[0] == "lit" and mode[1] in ("relative", "relative%"):
            return True, ""
        if mode is not None and mode[0] in ("first", "param-default") and ok(kw.get("pressure_unit")) or \
                (mode is not None and mode[0] == "param-default" and kw.get("pressure_unit") is not None):
            return True, ""
        if mode is not None and mode[0] == "lit" and mode[1] == "absolute" and ok(kw.get("pressure_unit")):
            return True, ""
        return False, f"pressure representation not pinned (pressure_mode={_show(kw.get('pressure_mode'))}, pressure_unit={_show(kw.get('pressure_unit'))})"
    basis, unit = kw.get("loading_basis"), kw.get("loading_unit")
    if ok(unit) and (ok(basis) or (basis is None and unit[0] == "first")):
        return True, ""
    return False, f"loading representation not pinned (loading_basis={_show(basis)}, loading_unit={_show(unit)})"


def _show(v):
    if v is None:
        return "absent"
    return repr(v[1]) if v[0] == "lit" else v[0] + ":" + str(v[1])


def scan_function(fi):
    """yield (call node, kind, keyword map) for the isotherm reads in fi"""
    consts = {}
    for st in ast.walk(fi.node):
        if isinstance(st, ast.Assign) and len(st.targets) == 1 and isinstance(st.targets[0], ast.Name):
            d = dict_of(st.value, consts) if isinstance(st.value, ast.Dict) else None
            if d is not None:
                consts[st.targets[0].id] = ("dict", d)
            else:
                lv = literal(st.value, consts)
                if lv[0] in ("lit", "param-default", "first"):
                    consts[st.targets[0].id] = lv
    for node in ast.walk(fi.node):
        if not isinstance(node, ast.Call):
            continue
        f = node.func
        if isinstance(f, ast.Name) and f.id == HELPER:
            if len(node.args) < 4:
                yield node, HELPER, None
                continue
            ld, pd = dict_of(node.args[2], consts), dict_of(node.args[3], consts)
            kw = {}
            if ld is not None:
                kw.update(ld)
            if pd is not None:
                kw.update(pd)
            yield node, HELPER, (kw if ld is not None and pd is not None else None)
        elif isinstance(f, ast.Attribute) and f.attr in READ_METHODS:
            recv = ast.unparse(f.value)
            if recv.startswith("self") or ".model" in recv or recv in ("model", "numpy", "np"):
                continue
            kw = {}
            for k in node.keywords:
                if k.arg is None:
                    d = dict_of(k.value, consts)
                    if d is None:
                        kw["**"] = ("expr", ast.unparse(k.value))
                    else:
                        kw.update(d)
                else:
                    kw[k.arg] = literal(k.value, consts)
            yield node, f.attr, kw


CH = "pygaps.characterisation"
# entry points whose reads are decided by interpretation: name -> (positional arguments after the isotherm(s), keywords)
ENTRIES = {
    f"{CH}.area_bet.area_BET": ((), {}),
    f"{CH}.area_lang.area_langmuir": ((), {}),
    f"{CH}.t_plots.t_plot": ((), {"thickness_model": "Halsey"}),
    f"{CH}.alphas_plots.alpha_s": (("<reference>",), {"reference_area": "BET"}),      # (the reference area itself comes from area_BET: its own entry)
    f"{CH}.dr_da_plots.dr_plot": ((), {}),
    f"{CH}.dr_da_plots.da_plot": ((), {}),
    f"{CH}.psd_meso.psd_mesoporous": ((), {}),
    f"{CH}.psd_micro.psd_microporous": ((), {}),
    f"{CH}.initial_enth.initial_enthalpy_comp": (("enthalpy",), {}),
}
# numerical library calls that mark the end of the reading phase of entry points without a separate *_raw routine
STOP_EXT = ("scipy.optimize.minimize", "scipy.optimize.least_squares", "scipy.stats.linregress", "numpy.average", "numpy.std", "numpy.mean", "numpy.delete")
# where the numerical work starts: the reads are complete when one of these is entered (their results are not needed here)
STOP_AT = ("area_bet.area_BET_raw", "area_lang.area_langmuir_raw", "t_plots.t_plot_raw", "alphas_plots.alpha_s_raw", "dr_da_plots.da_plot_raw",
           "psd_meso.psd_pygapsdh", "psd_meso.psd_bjh", "psd_meso.psd_dollimore_heal", "psd_micro.psd_horvath_kawazoe",
           "psd_micro.psd_horvath_kawazoe_ry")
STORED = "<stored:"          # the stub isotherm's own labels: a read that passes one of them on is not pinned by the routine


def _pinned_sides(method, kw):
    """which sides of a recorded read are not pinned; kw values are the evaluated keyword arguments"""
    def lit(v):
        return isinstance(v, str) and not v.startswith(STORED)
    problems = []
    for side in READ_METHODS[method]:
        if side == "p":
            mode, unit = kw.get("pressure_mode"), kw.get("pressure_unit")
            ok = (lit(mode) and mode in ("relative", "relative%")) or (lit(mode) and mode == "absolute" and lit(unit))
            if not ok:
                problems.append(f"pressure representation not pinned (pressure_mode={_showv(mode)}, pressure_unit={_showv(unit)})")
        else:
            basis, unit = kw.get("loading_basis"), kw.get("loading_unit")
            if not (lit(basis) and lit(unit)):
                problems.append(f"loading representation not pinned (loading_basis={_showv(basis)}, loading_unit={_showv(unit)})")
    return problems


def _showv(v):
    return "absent" if v is None else (f"the isotherm's own {v[len(STORED):-1]}" if isinstance(v, str) and v.startswith(STORED) else repr(v))


def r_pin_interpreted(ctx: Ctx, model, prop="C15", rule="R-pin", check="pin"):
    """every entry point is run with recording stub isotherms (sample and, for alpha-s, reference) up to the point where the numerical
    routine is entered; each recorded read must name the complete representation of every quantity it supplies or returns"""
    import sympy as sp
    from ..absint import ExcVal, Obj, Raised
    from ..domain import make_interp
    from ..libsum import Vec, install_vec
    Sy = lambda nm: sp.Symbol(nm, positive=True)
    nreads = 0
    for q, (extra, kwargs) in ENTRIES.items():
        fi = model.func(q)
        short = q.rsplit(".", 1)[1]
        for branch in ("ads", "des"):
            I = make_interp(model)
            install_vec(I)
            I.sympy_mode = True
            reads = []

            def mkiso(role):
                at = {f"{k}": f"{STORED}{k}>" for k in ("pressure_mode", "pressure_unit", "loading_basis", "loading_unit", "material_basis", "material_unit",
                                                        "temperature_unit")}
                at.update({"adsorbate": ads, "_adsorbate": ads, "material": "MAT", "temperature": Sy("T"), "_temperature": Sy("T"), "role": role,
                           "units": {k: v for k, v in at.items()}})
                return Obj(cls=model.cls("pygaps.core.baseisotherm.BaseIsotherm"), kind="RecIso", label=role, attrs=at)

            def reader(method):
                def f(I, v, a, k, n):
                    kw_ = dict(k)
                    if method in ("pressure", "loading") and a and "branch" not in kw_:
                        kw_["branch"] = a[0]         # (branch is the first positional parameter of pressure() / loading())
                    reads.append((v.attrs["role"], method, kw_, len(a)))
                    if method.endswith("_at") and a and not isinstance(a[0], Vec):
                        return Sy(f"{method}_{v.attrs['role']}")
                    return Vec([Sy(f"{method[0]}{i}_{v.attrs['role']}") for i in range(3)])
                return f
            for mth in READ_METHODS:
                I.libmeth[("RecIso", mth)] = reader(mth)
            I.libmeth[("RecIso", "other_data")] = lambda I, v, a, k, n: Vec([sp.Integer(10 * (i + 1)) for i in range(3)])
            I.libmeth[("RecIso", "has_branch")] = lambda I, v, a, k, n: True
            ads = Obj(kind="RecAds", label="ads", attrs={"name": "ADS"})
            for mth in ("molar_mass", "liquid_density", "surface_tension", "liquid_molar_density", "saturation_pressure", "enthalpy_vaporisation",
                        "gas_density", "get_prop"):
                I.libmeth[("RecAds", mth)] = (lambda mth: lambda I, v, a, k, n: Sy(f"ads_{mth}"))(mth)
            I.libmeth[("RecAds", "get_prop")] = lambda I, v, a, k, n: Sy(f"ads_prop_{a[0]}") if a and isinstance(a[0], str) else Sy("ads_prop")
            I.libattr[("RecAds", "properties")] = lambda I, v, n: {}
            I.libmeth[("RecAds", "__str__")] = lambda I, v, a, k, n: "ADS"
            I.libmeth[("RecAds", "__repr__")] = lambda I, v, a, k, n: "ADS"
            I.overrides["pygaps.core.adsorbate.Adsorbate.find"] = lambda I, fi_, env, n: ads

            def stop(I, fi_, env, n):
                raise Raised(ExcVal(["StopAfterReads", "BaseException"], node=n, fault=False, msg="numerical routine entered"))
            for sfx in STOP_AT:
                I.overrides[f"{CH}.{sfx}"] = stop
            for ext in STOP_EXT:
                I.ext[ext] = lambda I, a, k, n: stop(I, None, None, n)
            if q.endswith(".alpha_s"):
                I.overrides[f"{CH}.area_bet.area_BET"] = lambda I, fi_, env, n: {"area": Sy("A_ref")}
                I.overrides[f"{CH}.area_lang.area_langmuir"] = lambda I, fi_, env, n: {"area": Sy("A_ref")}
            smp, ref = mkiso("sample"), mkiso("reference")
            args = [smp] + [ref if x == "<reference>" else x for x in extra]
            kw = dict(kwargs, branch=branch)
            outs = I.explore(lambda I: (reads.clear(), _call_and_stop(I, fi, args, kw), list(reads))[2])
            done = [o for o in outs if o.kind == "ok"]
            if not done:
                raise AnalysisError(f"{short}(branch={branch!r}) cannot be interpreted up to its numerical routine: {[repr(o)[:160] for o in outs[:2]]}")
            for o in done:
                if not o.value:
                    raise AnalysisError(f"{short}(branch={branch!r}): no isotherm read was recorded before the numerical routine")
                for role, method, rkw, npos in o.value:
                    nreads += 1
                    if check == "branch":
                        # the analysis is of the branch the caller named: every read of the sample isotherm asks for that branch
                        if role != "sample" or method not in ("pressure", "loading"):
                            continue
                        ctx.ob(rkw.get("branch") == branch,
                               Finding(f"{prop}.{rule}", fi.where, f"{short}|{method}@{role}|branch-not-threaded",
                                       f"{short}(branch={branch!r}) reads {role}.{method}(branch={rkw.get('branch', '<omitted>')!r}, ...): the analysis "
                                       "must be made on the branch the caller named"), nontrivial_key=("branch", short, branch, method))
                        continue
                    problems = _pinned_sides(method, rkw)
                    site = f"{short}|{method}@{role}"
                    ctx.ob(not problems, Finding(f"{prop}.{rule}", fi.where, f"{site}|" + ";".join(x.split(" (")[0] for x in problems),
                                                 f"{short}(branch={branch!r}) reads {role}.{method}({', '.join(f'{k}={_showv(v) if isinstance(v, str) or v is None else I.describe(v)}' for k, v in sorted(rkw.items()))}): "
                                                 + "; ".join(problems) + " - the numbers entering the analysis depend on how the isotherm happens to be stored"),
                           nontrivial_key=("read", short, branch, role, method),
                           sample={"rule": "R-pin", "entry": short, "read": f"{role}.{method}", "keywords": {k: str(v) for k, v in rkw.items()}})
    ctx.floor("isotherm reads recorded while interpreting the characterisation entry points", nreads, 24)


def _call_and_stop(I, fi, args, kw):
    from ..absint import Raised
    try:
        I.call_func(fi, list(args), dict(kw), None)
    except Raised as r:
        if not r.exc.is_a("StopAfterReads"):
            raise
    return None


def run(ctx: Ctx):
    model = load(ctx.root)
    ctx.rule("R-pin: every isotherm read in pygaps.characterisation pins the pressure and loading representation it needs: the entry points "
             "are interpreted with recording stub isotherms up to their numerical routine and the evaluated unit arguments of every read are "
             "inspected (mode relative / relative%, or absolute with a unit; loading basis and unit; never the isotherm's own stored label); "
             "functions outside the interpreted table fall back to literal keyword inspection; exceptions listed with reasons")
    nsites = 0
    seen_exempt = set()
    psd_sites = []
    # a private helper every (transitive) caller of which, inside its module, is an exempt function shares that exemption
    exempt = set(EXEMPT)
    interpreted = set(ENTRIES)      # decided by r_pin_interpreted (private helpers every caller of which is interpreted are followed by it)
    for mname, m in sorted(model.modules.items()):
        if not mname.startswith(SCOPE_PREFIXES):
            continue
        callers = {}
        for f_ in m.functions.values():
            for c in ast.walk(f_.node):
                if isinstance(c, ast.Call) and isinstance(c.func, ast.Name) and c.func.id in m.functions and c.func.id != f_.name:
                    callers.setdefault(m.functions[c.func.id].qualname, set()).add(f_.qualname)
        changed = True
        while changed:
            changed = False
            for f_ in m.functions.values():
                if f_.name.startswith("_") and f_.qualname not in exempt and callers.get(f_.qualname) and callers[f_.qualname] <= exempt:
                    exempt.add(f_.qualname)
                    changed = True
                if f_.name.startswith("_") and f_.qualname not in interpreted and callers.get(f_.qualname) and callers[f_.qualname] <= interpreted:
                    interpreted.add(f_.qualname)
                    changed = True
    for mname, m in sorted(model.modules.items()):
        if not mname.startswith(SCOPE_PREFIXES):
            continue
        for fi in m.functions.values():
            if mname == "pygaps.characterisation.isosteric_enth":
                continue        # several isotherms at once: decided below by interpretation (common representation of all reads)
            for node, kind, kw in scan_function(fi):
                nsites += 1
                site = f"{fi.qualname.split('.')[-1]}|{kind}@{ast.unparse(node.func)}"
                if fi.qualname == "pygaps.characterisation.psd_kernel.psd_dft":
                    psd_sites.append(kind)      # units come from the kernel_units parameter: decided below by interpretation
                    continue
                if fi.qualname in interpreted:
                    continue        # the evaluated keyword arguments of the read are inspected by r_pin_interpreted
                if fi.qualname in exempt:
                    seen_exempt.add(fi.qualname)
                    ctx.ob(True, nontrivial_key=("exempt", fi.qualname, kind))
                    continue
                if kw is None:
                    ctx.ob(False, Finding("C15.R-pin", fi.where, f"{site}|unreadable-units",
                                          f"line {node.lineno}: the unit arguments of `{ast.unparse(node)[:90]}` are not literal dictionaries: "
                                          "the representation read cannot be established"))
                    continue
                sides = ("p", "l") if kind == HELPER else READ_METHODS[kind]
                problems = []
                for sd in sides:
                    ok, why = side_pinned(sd, kw)
                    if not ok:
                        problems.append(why)
                ctx.ob(not problems, Finding("C15.R-pin", fi.where, f"{site}|" + ";".join(p.split(" (")[0] for p in problems),
                                             f"line {node.lineno}: `{ast.unparse(node)[:110]}`: " + "; ".join(problems) +
                                             " - the numbers entering the analysis depend on how the isotherm happens to be stored"),
                       nontrivial_key=("site", fi.qualname, node.lineno),
                       sample={"rule": "R-pin", "site": f"{fi.short}:{node.lineno}", "call": kind, "pinned": {k: _show(v) for k, v in kw.items()}})
    ctx.floor("isotherm read sites in characterisation", nsites, 12)
    r_pin_interpreted(ctx, model)
    # "... or a reference isotherm it is compared with": the reference area alpha-s scales with is computed from the REFERENCE isotherm
    from .C14 import r_alpha_reference
    r_alpha_reference(ctx, model, prop="C15", rule="R-pin")
    from .C19 import r_isosteric_wrapper
    ctx.rule("R-pin (isosteric): isotherms stored in three different representations are all read in the representation of the first "
             "(interpreted on isosteric_enthalpy with recording stub isotherms)")
    r_isosteric_wrapper(ctx, model, prop="C15")
    for q in EXEMPT:
        mod, _, name = q.rpartition(".")
        if mod not in model.modules or name not in model.modules[mod].functions:
            raise AnalysisError(f"anchor missing: exempt function {q}")
    # Whittaker: the exemption rests on two pins, decided by interpreting the wrapper with recording stubs (shared with C19): the
    # point-isotherm path converts a copy to a complete representation (mode AND unit) before fitting, the model-isotherm path
    # refuses anything not stored in Pa
    from .C19 import r_whittaker_point
    r_whittaker_point(ctx, model, prop="C15", rule="R-pin")
    # interpolated reads (loading_at / pressure_at feed alpha-s, isosteric, Whittaker, IAST) see the converted numbers
    from ..sites import no_memoisation
    from .C02 import cache_reset_for
    ctx.rule("R-fresh: after every permanent conversion that changed the stored numbers both interpolator caches are gone (conversions "
             "interpreted on isotherms holding cached interpolators; shared with C02 R-reset); no caching decorator in "
             "pygaps.characterisation (cached constants/results would survive a change of units or parameters)")
    cache_reset_for(ctx, "C15", "R-fresh")
    no_memoisation(ctx, model, "C15", "R-fresh", ("pygaps.characterisation.",),
                   "the cached value is keyed by object identity / name and survives a conversion or refit of the same object")
    from .C03 import r_order
    r_order(ctx, model, prop="C15")
    ctx.rule("R-acc: the reads the routines rely on - PointIsotherm.pressure / loading / pressure_at / loading_at with explicit target "
             "representations - return F_out * g(F_in * x) with the permanent-conversion factors for every stored pressure representation and "
             "every non-fractional stored loading representation (the accessor interpretation of C03, restricted to the property's domain)")
    from .C03 import accessors_for
    accessors_for(ctx, "C15", "R-acc", ["point_read", "point_at"], opts={"stored_nonfractional": True}, floor=500)
    # intensive results under a rescaling of all loadings: the Cheng-Yang coverage entering the pore-width objective is the loading relative
    # to the largest loading (objective of the two solvers interpreted on symbolic points, shared with C17 H-solve)
    from .C17 import r_solver
    r_solver(ctx, model, prop="C15", rule="R-scale")
    from ..sites import no_absolute_tolerance
    no_absolute_tolerance(ctx, model, "C15", "R-scale", ("pygaps.characterisation.",), "unit-bearing isotherm data")
    ctx.rule("R-scale: no comparison with an absolute tolerance on isotherm data inside pygaps.characterisation")
    # kernel PSD: with kernel_units omitted the data are read in a complete literal representation (interpreted, not matched)
    from ..absint import Obj, Term
    from .C18 import mk as mk_terms
    fi = model.func("pygaps.characterisation.psd_kernel.psd_dft")
    ctx.rule("R-pin (kernel PSD): psd_dft interpreted with a recording reader: without kernel_units the isotherm is read in the documented "
             "kernel representation, a given kernel_units entry reaches the reader unchanged, the others keep their defaults")
    ctx.analysed["syntactic isotherm reads in psd_dft"] = len(psd_sites)
    want = {"loading_basis": "molar", "loading_unit": "mmol", "material_basis": "mass", "material_unit": "g",
            "pressure_mode": "relative", "pressure_unit": None}
    given_full = {k: f"<{k}>" for k in want}
    cases = [("omitted", None), ("empty", {}), ("complete", given_full)] + [(f"only-{k}", {k: given_full[k]}) for k in want]
    for cname, ku in cases:
        I = mk_terms(model)
        cap = {}

        def reader(I, fi_, env, n):
            cap.setdefault("reads", []).append((env.get("loading_units"), env.get("pressure_units")))
            return (Term("P_in"), Term("L_in"))
        I.overrides["pygaps.utilities.pygaps_utilities.get_iso_loading_and_pressure_ordered"] = reader
        I.overrides["pygaps.characterisation.psd_kernel.psd_dft_kernel_fit"] = lambda I, fi_, env, n: (Term("W"), Term("D"), Term("C"), Term("F"))

        def thunk(I):
            cap.clear()
            I.call_func(fi, [Obj(kind="IsoStub", label="iso", attrs={})], {} if ku is None else {"kernel_units": dict(ku)}, None)
            return dict(cap)
        expect = {k: (ku or {}).get(k, v) for k, v in want.items()}
        nret = 0
        for oc in I.explore(thunk):
            if oc.kind != "ok":
                continue
            nret += 1
            reads = oc.value.get("reads") or []
            ctx.ob(len(reads) >= 1, Finding("C15.R-pin", fi.where, "psd_dft|no-read", "psd_dft does not read the isotherm through the ordered reader"))
            for lu, pu in reads:
                got = {**(lu if isinstance(lu, dict) else {}), **(pu if isinstance(pu, dict) else {})}
                okk = isinstance(lu, dict) and isinstance(pu, dict) and all(k in got and got[k] == v for k, v in expect.items()) \
                    and set(lu) == {"loading_basis", "loading_unit", "material_basis", "material_unit"} and set(pu) == {"pressure_mode", "pressure_unit"}
                ctx.ob(okk, Finding("C15.R-pin", fi.where, "psd_dft|kernel-unit-defaults" if not ku else "psd_dft|kernel-units-passed",
                                    f"psd_dft(kernel_units={ku!r}) reads the isotherm with {lu} / {pu}; required {expect} (documented kernel "
                                    "representation mmol/g vs relative pressure, overridden only by the entries given)"),
                       nontrivial_key=("kernel-units", cname))
        ctx.floor(f"psd_dft returning paths (kernel_units {cname})", nret, 1)


META = {
    "technique": "call-site protocol rule: representation pinning of every isotherm read (keyword / dictionary constant "
                 "propagation inside each function, interpretation for psd_dft / isosteric_enthalpy), with an audited exception table; "
                 "abstract interpretation of the PointIsotherm accessors against the conversion oracle for the property's domain",
    "level_text": "Static: all isotherm read sites in pygaps.characterisation (enumerated from the source, floor 20) are checked "
                  "to name the pressure and loading representation they need by literals or, for multi-isotherm routines, by "
                  "the first isotherm; a read that omits one (e.g. relative pressures passed with only a unit) makes the "
                  "result depend on the stored representation for every isotherm, which the tests (one stored representation "
                  "per routine) cannot see. The conversions themselves are decided in C01/C03.",
    "level_note": "Not decided: numeric invariance to tolerance; scaling linearity. Exceptions: initial Henry (own units by "
                  "specification), packaged standard isotherms, kernel units parameter.",
}
