"""C11 - spreading pressure equals the integral of loading over ln p.

Decided statically [ALG]:
  S-closed   closed-form spreading pressures (Henry, Langmuir, DS/TS-Langmuir, Quadratic, BET, GAB, TemkinApprox,
             Freundlich): p * dPi/dp - n(p) == 0 for all parameters, and Pi(p -> 0+) == 0
  S-quad     quadrature models (Toth, JensenSeaton, DR, DA): integrand * x == loading(x), limits (0, pressure),
             element [0] of the quad result
  S-point    PointIsotherm.spreading_pressure_at, by a symbolic stencil over array elements P(j), L(j):
             Henry continuation n1/p1 * p below the first point, first-segment area == n1, every inner loop term equals
             the exact integral of the chord through (P(i),L(i)), (P(i+1),L(i+1)) divided by p, the last partial segment
             is the chord to the interpolated loading at p, the number of full segments is count(P < p) - 1, the data and
             the interpolated loading are read with the same unit arguments, and the out-of-range refusal depends only
             on the arguments
  S-units    ModelIsotherm.spreading_pressure_at converts requested -> stored before evaluating (decided in C03)
Not decided: accuracy of scipy's quad; monotonicity / additivity beyond their being consequences of the identity.
"""
from __future__ import annotations

import ast

import sympy as sp

from ..alg import ArraySym, Quad, SelfCtx, Translator, decide_zero
from ..core import AnalysisError, Ctx, Finding
from ..srcmodel import load
from .C10 import DOMAIN, MOD, model_ctx

CLOSED = ["Henry", "Langmuir", "DSLangmuir", "TSLangmuir", "Quadratic", "BET", "GAB", "TemkinApprox", "Freundlich"]
QUAD = ["Toth", "JensenSeaton", "DR", "DA"]


def r_models(ctx: Ctx, model, tr):
    ctx.rule("S-closed [ALG]: p*dPi/dp - n(p) normalises to 0 and lim_{p->0+} Pi = 0; S-quad: quad(loading(x)/x, 0, p)[0]")
    p = tr.sym("p")
    for name in CLOSED + QUAD:
        ci, mc, pn = model_ctx(model, tr, name)
        n = tr.method(mc, "loading", [p])
        Pi = tr.method(mc, "spreading_pressure", [p])
        fi = ci.methods["spreading_pressure"]
        if isinstance(Pi, Quad):
            res = sp.simplify(Pi.integrand * Pi.var - n.subs(p, Pi.var))
            verdict, wit = decide_zero(res, symbols_domain=DOMAIN)
            ok = verdict == "zero" and Pi.lo == 0 and Pi.hi == p and Pi.index == 0
            ctx.ob(ok, Finding("C11.S-quad", fi.where, f"{name}|quad-protocol",
                               f"{name}.spreading_pressure integrates {Pi.integrand} from {Pi.lo} to {Pi.hi} and takes element {Pi.index}; "
                               f"required loading(x)/x from 0 to p, element 0 (integrand*x - n(x) = {res}; witness {wit})"),
                   nontrivial_key=("quad", name), sample={"rule": "S-quad", "model": name, "integrand": str(Pi.integrand)})
            continue
        if not isinstance(Pi, sp.Basic):
            ctx.ob(False, Finding("C11.S-closed", fi.where, f"{name}|not-an-expression", f"{name}.spreading_pressure yields {Pi!r}"))
            continue
        res = p * sp.diff(Pi, p) - n
        verdict, wit = decide_zero(res, symbols_domain=DOMAIN)
        ctx.ob(verdict == "zero", Finding("C11.S-closed", fi.where, f"{name}|p*dPi/dp!=n",
                                          f"{name}: p*dPi/dp - n(p) = {sp.simplify(res)} does not vanish (witness {wit}): the spreading "
                                          "pressure is not the integral of loading/p of the same model"),
               nontrivial_key=("deriv", name), sample={"rule": "S-closed", "model": name, "Pi": str(Pi)})
        try:
            lim = sp.simplify(sp.limit(Pi, p, 0, "+"))
        except Exception as ex:
            raise AnalysisError(f"[ALG] limit of {name}.spreading_pressure: {ex}")
        verdict0, _ = decide_zero(lim) if lim.is_number is not True or lim != 0 else ("zero", None)
        ctx.ob(lim == 0 or verdict0 == "zero", Finding("C11.S-closed", fi.where, f"{name}|Pi(0)={lim}",
                                                        f"{name}: the spreading pressure tends to {lim} (not 0) for p -> 0: an additive constant that "
                                                        "differs per component shifts every IAST equilibrium"),
               nontrivial_key=("zero", name))


def r_point(ctx: Ctx, model, tr=None):
    """PointIsotherm.spreading_pressure_at interpreted on a four-point isotherm with symbolic data (P_i, L_i), a symbolic query
    pressure and the interpolated loading as an opaque value; every outcome of the comparisons `P_i < p` and of the range guard is
    explored.  For k = count(P_i < p) the result must be the exact integral of the piecewise-linear interpolant continued to the
    origin by Henry's law (closed form of each chord integral: s*dP + c*ln(P_hi/P_lo))."""
    from ..absint import Obj, UnknownBool
    from ..domain import make_interp
    from ..libsum import Vec, install_vec
    ctx.rule("S-point [ALG]: for every number k of data points below p the result is L0/P0*p (k = 0) or L0 + sum of the chord integrals of "
             "the k-1 full segments + the chord integral from P_(k-1) to (p, loading_at(p)); data and interpolated loading are read with the "
             "caller's branch and unit arguments; without interp_fill the only refusal is p > max(P); with interp_fill nothing is refused")
    ci = model.cls("pygaps.core.pointisotherm.PointIsotherm")
    fi = ci.methods.get("spreading_pressure_at")
    if fi is None:
        raise AnalysisError("anchor missing: PointIsotherm.spreading_pressure_at")
    NP = 4
    Sy = lambda nm: sp.Symbol(nm, positive=True)
    P = [Sy(f"P{i}") for i in range(NP)]
    L = [sp.Symbol(f"L{i}", nonnegative=True) for i in range(NP)]      # an uptake may be exactly zero (blank first point)
    p, nat, pmax = Sy("p"), Sy("n_at"), Sy("Pmax")
    unit_args = {k: f"<{k}>" for k in ("pressure_unit", "pressure_mode", "loading_unit", "loading_basis", "material_unit", "material_basis")}
    npaths = {"ok": 0, "raise": 0}
    for fill in (None, sp.Integer(0)):
        I = make_interp(model)
        install_vec(I)
        I.sympy_mode = True
        calls = []
        I.libmeth[("Vec", "max")] = lambda I, v, a, k, n: pmax
        I.libmeth[("Vec", "min")] = lambda I, v, a, k, n: Sy("Pmin")
        for nm_ in ("numpy.max", "numpy.amax", "builtins.max"):
            I.ext[nm_] = (lambda old: lambda I, a, k, n: pmax if a and isinstance(a[0], Vec) else old(I, a, k, n))(I.ext.get(nm_))
        I.ext["numpy.log"] = lambda I, a, k, n: sp.log(a[0])
        iso = lambda: Obj(cls=ci, label="iso", attrs={"pressure_unit": "bar", "pressure_mode": "absolute", "l_interpolator": None, "p_interpolator": None})
        for acc, val in (("pressure", lambda: Vec(list(P))), ("loading", lambda: Vec(list(L))), ("loading_at", lambda: nat)):
            I.overrides[f"pygaps.core.pointisotherm.PointIsotherm.{acc}"] = \
                (lambda acc, val: lambda I, fi_, env, n: (calls.append((acc, dict(env))), val())[1])(acc, val)
        kw = dict(unit_args, branch="BRANCH", interp_fill=fill)
        outs = I.explore(lambda I: (calls.clear(), I.call_func(fi, [p], dict(kw), None, self_obj=iso()), list(calls))[1:], max_paths=4000)
        for oc in outs:
            dl = list(oc.decisions)
            above = [c for l_, c in dl if "Pmax" in l_]
            if oc.kind == "raise":
                npaths["raise"] += 1
                ok = oc.exc.is_a("CalculationError") and not oc.exc.fault and fill is None and above and above[0] == 0
                ctx.ob(ok, Finding("C11.S-point", fi.where, f"point|refusal|fill={'none' if fill is None else 'given'}",
                                   f"spreading_pressure_at(interp_fill={fill}) raises {oc.exc} on path {dl}: the only refusal is CalculationError for "
                                   "p > max(P) when no fill value is given (below the first point the Henry integral is the answer)"),
                       nontrivial_key=("point", "refuse", fill is None, tuple(c for _, c in dl)))
                continue
            npaths["ok"] += 1
            val, cl = oc.value
            # count of data points below p decided on this path
            cmp_dec = [(l_, c) for l_, c in dl if "Pmax" not in l_ and ("<" in l_ or ">" in l_)]
            k = sum(1 for l_, c in cmp_dec if c == 0)
            if fill is None and above:
                ctx.ob(above[0] == 1, Finding("C11.S-point", fi.where, "point|guard-region", f"returns although p > max(P) was decided true: {dl}"))
            if k == 0:
                want = L[0] / P[0] * p
            else:
                want = L[0]
                for i in range(k - 1):
                    s_ = (L[i + 1] - L[i]) / (P[i + 1] - P[i])
                    want += s_ * (P[i + 1] - P[i]) + (L[i] - s_ * P[i]) * sp.log(P[i + 1] / P[i])
                s_ = (nat - L[k - 1]) / (p - P[k - 1])
                want += s_ * (p - P[k - 1]) + (L[k - 1] - s_ * P[k - 1]) * sp.log(p / P[k - 1])
            # a path on which the code itself tested a datum for zero is evaluated under that assumption
            import re as _re
            zero_sub = {}
            for l_, c in dl:
                m_ = _re.fullmatch(r"Eq\((L\d), 0\)", l_.strip())
                if m_ and c == 0:
                    zero_sub[sp.Symbol(m_.group(1), nonnegative=True)] = 0
            if zero_sub and isinstance(val, sp.Basic):
                val, want = val.subs(zero_sub), want.subs(zero_sub)
            verdict, wit = decide_zero(sp.sympify(val) - want) if isinstance(val, sp.Basic) else ("nonzero", str(val))
            ctx.ob(verdict == "zero", Finding("C11.S-point", fi.where, f"point|integral|points-below={k}",
                                              f"with {k} data point(s) below p the result is {val}; required "
                                              f"{'L0/P0*p (Henry)' if k == 0 else 'L0 + full chord integrals + chord integral to (p, loading_at(p))'} "
                                              f"= {want} (witness {wit})"),
                   nontrivial_key=("point", "integral", k, tuple(sorted(map(str, zero_sub)))), sample={"rule": "S-point", "points_below": k, "derived": str(val)[:200]} if fill is None else None)
            by = {}
            for nm_, env_ in cl:
                by.setdefault(nm_, env_)
            okr = {"pressure", "loading"} <= set(by) and (k == 0 or "loading_at" in by)
            if okr:
                okr = by["pressure"].get("branch") == "BRANCH" and by["loading"].get("branch") == "BRANCH" \
                    and all(by["pressure"].get(u) == unit_args[u] for u in ("pressure_unit", "pressure_mode")) \
                    and all(by["loading"].get(u) == unit_args[u] for u in ("loading_unit", "loading_basis", "material_unit", "material_basis"))
                if k and okr:
                    la = by["loading_at"]
                    okr = la.get("branch") == "BRANCH" and all(la.get(u) == unit_args[u] for u in unit_args) and la.get("pressure") == p \
                        and la.get("interp_fill") == fill
            ctx.ob(bool(okr), Finding("C11.S-point", fi.where, "point|reads",
                                      f"the data and the interpolated loading must be read with the caller's branch, unit arguments and fill value; "
                                      f"calls: {[(c[0], {k_: v for k_, v in c[1].items() if k_ != 'self'}) for c in cl]}"),
                   nontrivial_key=("point", "reads", k))
    ctx.floor("spreading_pressure_at returning paths", npaths["ok"], 10)
    ctx.floor("spreading_pressure_at refusing paths", npaths["raise"], 1)
    # the edge of the data range, on concrete pressures: p == max(P) is inside the range (answered), p > max(P) is refused, p below the
    # first point is the Henry integral
    ctx.rule("S-point (edge): with data pressures 1, 2, 3, 4 a query at p = 4 is answered, p = 5 is refused (no fill value), p = 1/2 gives L0/P0*p")
    Pc = [sp.Integer(i + 1) for i in range(NP)]
    for qp, expect in ((sp.Integer(4), "answer"), (sp.Integer(5), "refuse"), (sp.Rational(1, 2), "henry"), (sp.Integer(1), "answer")):
        I = make_interp(model)
        install_vec(I)
        I.sympy_mode = True
        I.libmeth[("Vec", "max")] = lambda I, v, a, k, n: max(v.items)
        I.libmeth[("Vec", "min")] = lambda I, v, a, k, n: min(v.items)
        for nm_ in ("numpy.max", "numpy.amax"):
            I.ext[nm_] = lambda I, a, k, n: max(a[0].items)
        I.ext["numpy.log"] = lambda I, a, k, n: sp.log(a[0])
        iso = lambda: Obj(cls=ci, label="iso", attrs={"pressure_unit": "bar", "pressure_mode": "absolute", "l_interpolator": None, "p_interpolator": None})
        for acc, val in (("pressure", lambda: Vec(list(Pc))), ("loading", lambda: Vec(list(L))), ("loading_at", lambda: nat)):
            I.overrides[f"pygaps.core.pointisotherm.PointIsotherm.{acc}"] = (lambda val: lambda I, fi_, env, n: val())(val)
        outs = I.explore(lambda I: I.call_func(fi, [qp], {"branch": "ads"}, None, self_obj=iso()), max_paths=400)
        if expect == "refuse":
            ok = bool(outs) and all(o.kind == "raise" and o.exc.is_a("CalculationError") and not o.exc.fault for o in outs)
        elif expect == "henry":
            ok = bool(outs) and all(o.kind == "ok" and isinstance(o.value, sp.Basic) and sp.simplify(o.value - L[0] / Pc[0] * qp) == 0 for o in outs)
        else:
            ok = bool(outs) and all(o.kind == "ok" for o in outs)
        ctx.ob(ok, Finding("C11.S-point", fi.where, f"point|edge|p={qp}|{expect}",
                           f"spreading_pressure_at({qp}) on data pressures {[str(x) for x in Pc]}: {[repr(o)[:80] for o in outs[:2]]}; required: "
                           + {"answer": "a value (the edge of the data range belongs to it)", "refuse": "CalculationError (beyond the data, no fill value)",
                              "henry": "L0/P0*p"}[expect]), nontrivial_key=("point", "edge", str(qp)))


def r_array(ctx: Ctx, model):
    """arrays and scalars alike: spreading_pressure([p0, p1]) of every closed-form model is, element by element, what the scalar calls
    give (IAST and the wrappers hand whole pressure vectors to it) - interpreted at one exact parameter point, array algebra on
    symbolic elements (ndsym)"""
    import numpy as _np
    import sympy as sp
    from ..absint import Obj
    from ..domain import make_interp
    from ..ndsym import install_nd, to_np
    ctx.rule("S-closed (arrays) [exact point]: spreading_pressure(array of two pressures) == [spreading_pressure(p) for p in array] for "
             "the closed-form models")
    R = sp.Rational
    n = 0
    for name in CLOSED:
        mod = model.modules.get(f"pygaps.modelling.{name.lower()}")
        ci = mod.classes.get(name) if mod else None
        if ci is None:
            raise AnalysisError(f"anchor missing: model class {name}")
        I = make_interp(model)
        install_nd(I)
        pn = I.class_const(ci, ci.find_assign("param_names")[1])
        pn = (pn,) if isinstance(pn, str) else tuple(pn)
        vals = {"n_m": R(5), "n_m1": R(3), "n_m2": R(2), "n_m3": R(1), "C": R(50), "N": R(1, 10), "K": R(3, 4) if name == "GAB" else R(2),
                "K1": R(2), "K2": R(1, 3), "K3": R(1, 5), "Ka": R(2), "Kb": R(1, 3), "tht": R(1, 2), "m": R(1, 2), "t": R(1, 2)}
        params = {k_: vals.get(k_, R(7, 5)) for k_ in pn}
        mk_self = lambda: Obj(cls=ci, label="model", attrs={"params": dict(params), "name": name})
        fs = ci.find_method("spreading_pressure")
        pts = [R(1, 20), R(1, 2)]
        scal = []
        for pv in pts:
            o = I.explore(lambda I: I.call_func(fs, [pv], {}, None, self_obj=mk_self()))
            if len(o) != 1 or o[0].kind != "ok":
                raise AnalysisError(f"{name}.spreading_pressure({pv}) at the exact point cannot be evaluated: {o[:1]}")
            scal.append(sp.simplify(sp.sympify(o[0].value)))
        o = I.explore(lambda I: I.call_func(fs, [_np.array(pts, dtype=object)], {}, None, self_obj=mk_self()))
        val = to_np(I, o[0].value) if len(o) == 1 and o[0].kind == "ok" else None
        got = [sp.simplify(sp.sympify(x)) for x in val] if isinstance(val, _np.ndarray) and val.shape == (2,) else \
            (f"raises {o[0].exc.name}" if o and o[0].kind != "ok" else repr(o[0].value) if o else "no outcome")
        n += 1
        ok = isinstance(got, list) and all(sp.simplify(a_ - b_) == 0 for a_, b_ in zip(got, scal))
        ctx.ob(ok, Finding("C11.S-closed", fs.where, f"{name}|array",
                           f"{name} (parameters {dict((k_, str(v)) for k_, v in params.items())}): spreading_pressure([1/20, 1/2]) gives {got} but the scalar "
                           f"calls give {scal}: a vector of pressures must give the vector of spreading pressures"),
               nontrivial_key=("array", name))
    ctx.floor("closed-form spreading pressures evaluated on arrays", n, 6)


def run(ctx: Ctx):
    from ..sites import model_methods_stateless as _mms
    _mms(ctx, load(ctx.root), "C11", "S-fresh")
    from ..sites import methods_store_nothing as _msn
    _msn(ctx, load(ctx.root), "C11", "S-fresh", ("pygaps.core.pointisotherm.PointIsotherm.spreading_pressure_at",
                                                 "pygaps.core.modelisotherm.ModelIsotherm.spreading_pressure_at"),
         "a remembered partial integral is not invalidated by every conversion / data change, so later spreading pressures belong to other data")
    model = load(ctx.root)
    tr = Translator(model)
    ctx.assume("sympy's normalisation / integration of rational functions is sound; scipy quad integrates its integrand")
    r_models(ctx, model, tr)
    r_point(ctx, model, tr)
    r_array(ctx, model)
    ctx.analysed["models"] = CLOSED + QUAD
    ctx.rule("S-fresh (point isotherms): the interpolated loading spreading_pressure_at uses for its last partial segment comes from an "
             "interpolator built for the requested branch / kind / fill value, whatever an earlier query left in the cache (cache discipline of "
             "C03, interpreted)")
    from . import C03 as _C03
    from ..spec_iso import all_states as _all_states, mkstate as _mkstate
    _E3 = _C03.Engine(ctx.root, False)
    _pres, _load, _mat, _tus = _all_states(_E3.t, False)
    ctx.floor("cache-discipline cases", _C03.cache_discipline(ctx, _E3, _mkstate(_pres[0], _load[0], _mat[0], _tus[0]), prop="C11"), 30)
    from .C02 import cache_reset_for as _crf
    ctx.rule("S-fresh (conversions): after every permanent conversion that changed the stored numbers both interpolator caches are gone - the "
             "last partial segment of spreading_pressure_at reads loading_at, which after a unit-only conversion would still interpolate the old "
             "numbers (conversions interpreted on isotherms holding cached interpolators; shared with C02 R-reset)")
    _crf(ctx, "C11", "S-fresh")
    ctx.rule("S-iso: ModelIsotherm.spreading_pressure_at evaluates the model at the pressure converted to the stored representation "
             "(every stored pressure representation x requested mode / unit; the accessor interpretation of C03 restricted to this method)")
    from .C03 import accessors_for
    accessors_for(ctx, "C11", "S-iso", ["model"], methods=["ModelIsotherm.spreading_pressure_at"], opts={"only_spreading": True}, floor=20)
    from ..sites import model_methods_stateless, no_memoisation
    ctx.rule("S-fresh: no caching decorator on any function of pygaps.modelling.")
    no_memoisation(ctx, load(ctx.root), "C11", "S-fresh", ('pygaps.modelling.',),
                   "the spreading pressure must be the integral for the model's current parameters: a cached value survives a refit or a parameter change (the cache key is the model object)")


META = {
    "technique": "algebraic normal forms (derivative identity, limits) of the model spreading pressures; symbolic stencil of "
                 "PointIsotherm.spreading_pressure_at; quadrature protocol rules; abstract interpretation of "
                 "ModelIsotherm.spreading_pressure_at against the conversion oracle",
    "level_text": "Static [ALG]: for each closed-form model the identity p*dPi/dp = n(p) and Pi(0+) = 0 are discharged for all "
                  "parameters by normalising to 0; quadrature models are checked structurally; the point-isotherm routine is "
                  "translated with array elements as terms P(j), L(j) and each piece (Henry continuation, per-segment term, "
                  "loop range, last partial segment) is compared with the exact integral of the chord, for arbitrary data "
                  "and any number of points.",
    "level_note": "Trusted: sympy; scipy.integrate.quad. Not decided: quadrature accuracy; numerical monotonicity/additivity.",
}
