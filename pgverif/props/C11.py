"""C11 - spreading pressure equals the integral of loading over ln p.

Decided statically [ALG]:
  S-closed   closed-form spreading pressures (Henry, Langmuir, DS/TS-Langmuir, Quadratic, BET, GAB, TemkinApprox,
             Freundlich): p * dPi/dp - n(p) == 0 for all parameters, and Pi(p -> 0+) == 0
  S-quad     quadrature models (Toth, JensenSeaton, DR, DA): integrand * x == loading(x), limits (0, pressure),
             element [0] of the quad result
  S-point    PointIsotherm.spreading_pressure_at, by a symbolic stencil over array elements P(j), L(j):
             Henry continuation n1/p1 * p below the first point, first-segment area == n1, every inner loop term equals
             the exact integral of the chord through (P(i),L(i)), (P(i+1),L(i+1)) divided by p, the last partial segment
             is the chord to the interpolated loading at p, the number of full segments is count(P < p) - 1, the data and
             the interpolated loading are read with the same unit arguments, and the out-of-range refusal depends only
             on the arguments
  S-units    ModelIsotherm.spreading_pressure_at converts requested -> stored before evaluating (decided in C03)
Not decided: accuracy of scipy's quad; monotonicity / additivity beyond their being consequences of the identity.
"""
from __future__ import annotations

import ast

import sympy as sp

from ..alg import ArraySym, Quad, SelfCtx, Translator, decide_zero
from ..core import AnalysisError, Ctx, Finding
from ..srcmodel import load
from .C10 import DOMAIN, MOD, model_ctx

CLOSED = ["Henry", "Langmuir", "DSLangmuir", "TSLangmuir", "Quadratic", "BET", "GAB", "TemkinApprox", "Freundlich"]
QUAD = ["Toth", "JensenSeaton", "DR", "DA"]


def r_models(ctx: Ctx, model, tr):
    ctx.rule("S-closed [ALG]: p*dPi/dp - n(p) normalises to 0 and lim_{p->0+} Pi = 0; S-quad: quad(loading(x)/x, 0, p)[0]")
    p = tr.sym("p")
    for name in CLOSED + QUAD:
        ci, mc, pn = model_ctx(model, tr, name)
        n = tr.method(mc, "loading", [p])
        Pi = tr.method(mc, "spreading_pressure", [p])
        fi = ci.methods["spreading_pressure"]
        if isinstance(Pi, Quad):
            res = sp.simplify(Pi.integrand * Pi.var - n.subs(p, Pi.var))
            verdict, wit = decide_zero(res, symbols_domain=DOMAIN)
            ok = verdict == "zero" and Pi.lo == 0 and Pi.hi == p and Pi.index == 0
            ctx.ob(ok, Finding("C11.S-quad", fi.where, f"{name}|quad-protocol",
                               f"{name}.spreading_pressure integrates {Pi.integrand} from {Pi.lo} to {Pi.hi} and takes element {Pi.index}; "
                               f"required loading(x)/x from 0 to p, element 0 (integrand*x - n(x) = {res}; witness {wit})"),
                   nontrivial_key=("quad", name), sample={"rule": "S-quad", "model": name, "integrand": str(Pi.integrand)})
            continue
        if not isinstance(Pi, sp.Basic):
            ctx.ob(False, Finding("C11.S-closed", fi.where, f"{name}|not-an-expression", f"{name}.spreading_pressure yields {Pi!r}"))
            continue
        res = p * sp.diff(Pi, p) - n
        verdict, wit = decide_zero(res, symbols_domain=DOMAIN)
        ctx.ob(verdict == "zero", Finding("C11.S-closed", fi.where, f"{name}|p*dPi/dp!=n",
                                          f"{name}: p*dPi/dp - n(p) = {sp.simplify(res)} does not vanish (witness {wit}): the spreading "
                                          "pressure is not the integral of loading/p of the same model"),
               nontrivial_key=("deriv", name), sample={"rule": "S-closed", "model": name, "Pi": str(Pi)})
        try:
            lim = sp.simplify(sp.limit(Pi, p, 0, "+"))
        except Exception as ex:
            raise AnalysisError(f"[ALG] limit of {name}.spreading_pressure: {ex}")
        verdict0, _ = decide_zero(lim) if lim.is_number is not True or lim != 0 else ("zero", None)
        ctx.ob(lim == 0 or verdict0 == "zero", Finding("C11.S-closed", fi.where, f"{name}|Pi(0)={lim}",
                                                        f"{name}: the spreading pressure tends to {lim} (not 0) for p -> 0: an additive constant that "
                                                        "differs per component shifts every IAST equilibrium"),
               nontrivial_key=("zero", name))


def r_point(ctx: Ctx, model, tr):
    ctx.rule("S-point [ALG, stencil]: Henry continuation, chord integrals per segment, segment count, last partial segment, "
             "same unit arguments for data and interpolation, argument-only refusal")
    ci = model.cls("pygaps.core.pointisotherm.PointIsotherm")
    fi = ci.methods.get("spreading_pressure_at")
    if fi is None:
        raise AnalysisError("anchor missing: PointIsotherm.spreading_pressure_at")
    P, L = ArraySym("P"), ArraySym("L", positive=False)     # loadings may be zero
    calls = []
    nat = tr.sym("n_at")

    def stub(name, result):
        def f(args, kwargs):
            calls.append((name, args, dict(kwargs)))
            return result
        return f
    mc = SelfCtx(ci, attrs={"pressure_unit": "<unit>"},
                 stubs={"pressure": stub("pressure", P), "loading": stub("loading", L), "loading_at": stub("loading_at", nat)})
    p = tr.sym("p")
    unit_args = {k: tr.sym("arg_" + k) for k in ("pressure_unit", "pressure_mode", "loading_unit", "loading_basis", "material_unit", "material_basis")}
    fill = tr.sym("arg_interp_fill")
    tr.definitions = {}
    env_args = [p, "BRANCH"] + [unit_args[k] for k in ("pressure_unit", "pressure_mode", "loading_unit", "loading_basis", "material_unit", "material_basis")] + [fill]
    params = fi.params()[1:]
    if params[:2] != ["pressure", "branch"] or set(params[2:]) != set(unit_args) | {"interp_fill"}:
        raise AnalysisError(f"spreading_pressure_at signature changed: {params}")
    argmap = {"pressure": p, "branch": "BRANCH", "interp_fill": None, **unit_args}
    from ..alg import SymbolicBranch
    try:
        total = tr.method(mc, "spreading_pressure_at", [argmap[x] for x in params])
    except SymbolicBranch as sb:
        ctx.ob(False, Finding("C11.S-point", fi.where, f"point|data-dependent-branch",
                              f"line {sb.node.lineno}: `if {sb.src}:` makes the integral depend on the data in a way that is neither the "
                              "out-of-range refusal nor the Henry branch below the first point: the result is no longer the integral of "
                              "the piecewise-linear interpolant continued to the origin by Henry's law"))
        return
    env = tr.last_env
    # (1) reads: same branch and unit arguments everywhere
    by = {c[0]: c for c in calls}
    ok_reads = {"pressure", "loading", "loading_at"} <= set(by)
    if ok_reads:
        kp, kl, ka = by["pressure"][2], by["loading"][2], by["loading_at"][2]
        ok_reads = kp.get("branch") == "BRANCH" and kl.get("branch") == "BRANCH" and ka.get("branch") == "BRANCH" \
            and all(kp.get(k) == unit_args[k] for k in ("pressure_unit", "pressure_mode")) \
            and all(kl.get(k) == unit_args[k] for k in ("loading_unit", "loading_basis", "material_unit", "material_basis")) \
            and all(ka.get(k) == unit_args[k] for k in unit_args) and by["loading_at"][1][0] == p
    ctx.ob(bool(ok_reads), Finding("C11.S-point", fi.where, "point|reads",
                                   f"the data (pressure/loading) and the interpolated loading must be read with the caller's branch and the same "
                                   f"unit arguments; calls: {[(c[0], sorted(map(str, c[2]))) for c in calls]}"),
           nontrivial_key=("point", "reads"))
    # (2) refusal guard depends on arguments only
    guards = env.get("__guards__", [])
    ok_guard = len(guards) == 1
    ctx.ob(ok_guard, Finding("C11.S-point", fi.where, "point|guard", f"expected one out-of-range refusal, found {len(guards)}"),
           nontrivial_key=("point", "guard"))
    # (2b) the refusal (interp_fill not given) covers pressures above the last data point only: below the first point the
    #      algorithm integrates Henry's law (obligation 3), so a refusal there would make that part of the domain unanswerable
    if ok_guard:
        g = guards[0][0]
        rels = list(g.args) if isinstance(g, sp.Or) else [g]
        above = [r for r in rels if isinstance(r, (sp.StrictGreaterThan, sp.GreaterThan)) and r.lhs == p and str(r.rhs) == "max(P)"]
        other = [r for r in rels if r not in above]
        ctx.ob(len(above) == 1 and not other, Finding(
            "C11.S-point", fi.where, "point|guard-region",
            f"without interp_fill the method refuses when `{g}`; required: only `p > max(P)`. "
            + ("A query below the first data point is refused although the spreading pressure there is the Henry's-law integral "
               "L(0)/P(0)*p that the method itself computes" if other else "")),
            nontrivial_key=("point", "guard-region"))
    # (3) early return: Henry continuation
    er = env.get("__early_returns__", [])
    n_count = [k for k in tr.definitions]
    ok_count = len(n_count) == 1 and tr.definitions[n_count[0]][1] == "Lt" and tr.definitions[n_count[0]][2] is P and tr.definitions[n_count[0]][3] == p
    ctx.ob(ok_count, Finding("C11.S-point", fi.where, "point|segment-count",
                             f"the number of points below p must be count(pressures < p); found {tr.definitions}"),
           nontrivial_key=("point", "count"))
    N = n_count[0] if n_count else None
    ok_henry = len(er) == 1 and N is not None and er[0][0] == sp.Eq(N, 0) and decide_zero(er[0][1] - L[0] / P[0] * p)[0] == "zero"
    ctx.ob(bool(ok_henry), Finding("C11.S-point", fi.where, "point|henry-continuation",
                                   f"below the first point the result must be L(0)/P(0)*p (Henry's law); found {er}"),
           nontrivial_key=("point", "henry"), sample={"rule": "S-point", "obligation": "Pi(p<P0) == L0/P0*p", "derived": str(er)})
    # (4) loop: full segments i = 0 .. N-2, each the exact chord integral
    loops = env.get("__loops__", [])
    ok_loop = len(loops) == 1 and N is not None and len(loops[0]["range"]) == 1 and sp.simplify(loops[0]["range"][0] - (N - 1)) == 0 \
        and "area" in loops[0]["increments"]
    ctx.ob(ok_loop, Finding("C11.S-point", fi.where, "point|loop-range",
                            f"the full segments must be i in range(count - 1); found {[l['range'] for l in loops]}"),
           nontrivial_key=("point", "range"))
    x = sp.Symbol("x", positive=True)
    if ok_loop:
        i = loops[0]["var"]
        inc = loops[0]["increments"]["area"]
        a, b = P[i], P[i + 1]
        slope = (L[i + 1] - L[i]) / (b - a)
        chord = L[i] + slope * (x - a)
        exact = sp.integrate(sp.expand(chord / x), (x, a, b))
        verdict, wit = decide_zero(sp.simplify(inc - exact))
        ctx.ob(verdict == "zero", Finding("C11.S-point", fi.where, "point|segment-integral",
                                          f"the loop adds {inc} per segment; the integral of the chord through the two points over x is {sp.simplify(exact)} (witness {wit})"),
               nontrivial_key=("point", "segment"), sample={"rule": "S-point", "obligation": "segment term == integral(chord/x)", "derived": str(inc)})
    # (5) total = L(0) + loop sum + last partial segment to (p, loading_at(p))
    if isinstance(total, sp.Basic) and N is not None:
        k = N - 1
        slope = (nat - L[k]) / (p - P[k])
        chord = L[k] + slope * (x - P[k])
        last = sp.integrate(sp.expand(chord / x), (x, P[k], p))
        want = L[0] + tr.sym("area_loopsum", real=True) + last
        verdict, wit = decide_zero(sp.simplify(total - want))
        ctx.ob(verdict == "zero", Finding("C11.S-point", fi.where, "point|total",
                                          f"the result must be L(0) [area under Henry's law up to P(0)] + full segments + the chord integral from "
                                          f"P(count-1) to p; derived {total} (witness {wit})"),
               nontrivial_key=("point", "total"))
    else:
        ctx.ob(False, Finding("C11.S-point", fi.where, "point|total", f"result is {total!r}"))
    # first segment: H * P(0) == L(0) holds by construction of H = L(0)/P(0): checked through the Henry obligation above


def run(ctx: Ctx):
    from ..sites import model_methods_stateless as _mms
    _mms(ctx, load(ctx.root), "C11", "S-fresh")
    from ..sites import methods_store_nothing as _msn
    _msn(ctx, load(ctx.root), "C11", "S-fresh", ("pygaps.core.pointisotherm.PointIsotherm.spreading_pressure_at",
                                                 "pygaps.core.modelisotherm.ModelIsotherm.spreading_pressure_at"),
         "a remembered partial integral is not invalidated by every conversion / data change, so later spreading pressures belong to other data")
    model = load(ctx.root)
    tr = Translator(model)
    ctx.assume("sympy's normalisation / integration of rational functions is sound; scipy quad integrates its integrand")
    r_models(ctx, model, tr)
    r_point(ctx, model, tr)
    ctx.analysed["models"] = CLOSED + QUAD
    from ..sites import model_methods_stateless, no_memoisation
    ctx.rule("S-fresh: no caching decorator on any function of pygaps.modelling.")
    no_memoisation(ctx, load(ctx.root), "C11", "S-fresh", ('pygaps.modelling.',),
                   "the spreading pressure must be the integral for the model's current parameters: a cached value survives a refit or a parameter change (the cache key is the model object)")


META = {
    "technique": "algebraic normal forms (derivative identity, limits) of the model spreading pressures; symbolic stencil of "
                 "PointIsotherm.spreading_pressure_at; quadrature protocol rules",
    "level_text": "Static [ALG]: for each closed-form model the identity p*dPi/dp = n(p) and Pi(0+) = 0 are discharged for all "
                  "parameters by normalising to 0; quadrature models are checked structurally; the point-isotherm routine is "
                  "translated with array elements as terms P(j), L(j) and each piece (Henry continuation, per-segment term, "
                  "loop range, last partial segment) is compared with the exact integral of the chord, for arbitrary data "
                  "and any number of points.",
    "level_note": "Trusted: sympy; scipy.integrate.quad. Not decided: quadrature accuracy; numerical monotonicity/additivity.",
}
