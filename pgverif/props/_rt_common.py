"""shared driver for the symbolic round-trip checks (C05, C06, C07)"""
from __future__ import annotations

import ast

from ..absint import Obj
from ..core import AnalysisError, Ctx, Finding
from ..docsim import MiniFrame, Tok
from ..num import Num
from ..roundtrip import BRANCH_PATTERNS, CONFIGS, FORMATS, RT, compare, doc_signature, veq

KINDS = ("base", "point", "model")


def run_format(ctx: Ctx, rt: RT, prop, fmt, expected_tags):
    w, r, ext, targets = FORMATS[fmt]
    wf = rt.model.func(w)
    rf = rt.model.func(r)
    I = rt.I
    n = 0
    for kind in KINDS:
        for config in CONFIGS:
            docs = {}
            for target in targets:
              for pattern in (BRANCH_PATTERNS if kind == "point" and (ctx.tier == "thorough" or (config, target) == ("abs-molar-K", targets[0])) else ("two",)):
                rt.branch_pattern = pattern
                for mp in ((True, False) if (kind, config, target) == ("base", "abs-molar-K", targets[0]) else (True,)):
                    # JSON carries every JSON-representable value: lists, nested dictionaries, None, text that looks like a number
                    rich = {"user": Tok("t_user"), "count": Num.atom("n_count"), "flag": True, "off": False, "zero": Num.const(0),
                            "iso_type": Tok("t_isotype"), "lst": [Tok("t_l0"), Num.atom("n_l1"), True], "nested": {"a": Num.atom("n_a"), "b": [Tok("t_b")]},
                            "nothing": None, "numtext": "12", "booltext": "True"} if fmt == "json" else None
                    res = rt.roundtrip(w, r, kind, config, target, path_ext=ext, material_props=mp, props=rich)
                    rt.branch_pattern = "two"
                    for oc, cons, orig, iso, doc in res:
                        n += 1
                        case = f"{fmt}|{kind}|{config}|{target}" + ("" if mp else "|plain-material") + ("" if pattern == "two" else f"|branches={pattern}")
                        if oc.kind != "ok":
                            ctx.ob(False, Finding(f"{prop}.RT-roundtrip", rf.where, f"{fmt}|{kind}|raises:{oc.exc.name}",
                                                  f"{case}: export followed by import raises {oc.exc.name}"
                                                  f"{' (Python fault: ' + oc.exc.msg + ')' if oc.exc.fault else ': ' + str(oc.exc.msg)[:120]}"),
                                   nontrivial_key=(case, "raise"))
                            continue
                        diffs, tags = compare(I, kind, cons, orig, iso)
                        ctx.ob(not diffs, None if not diffs else Finding(
                            f"{prop}.RT-roundtrip", rf.where, f"{fmt}|{kind}|" + ("" if pattern == "two" else f"branches={pattern}|") + ",".join(sorted({d[0] for d in diffs})),
                            f"{case}: the re-imported isotherm differs from the exported one: " + "; ".join(d[1] for d in diffs[:5]),
                            {"differences": [d[1] for d in diffs]}),
                            nontrivial_key=(case, tuple(c for l, c in oc.decisions)),
                            sample={"rule": "RT-roundtrip", "case": case, "constructor_keys": sorted(map(str, cons[0][2]))[:8] if cons else None})
                        if kind == "point" and expected_tags is not None:
                            core_tags = tuple(t for t in (tags or ()) if t[0] in ("round",) or t[0].startswith("to_csv:"))
                            ctx.ob(core_tags == expected_tags, Finding(
                                f"{prop}.RT-precision", wf.where, f"{fmt}|data-precision|{core_tags}",
                                f"{case}: the data table is written with {core_tags or 'no rounding'}; the documented precision is "
                                f"exactly {expected_tags} (one rounding to _PARSER_PRECISION decimals, no lossy float format)"),
                                nontrivial_key=(case, "precision"))
                        if mp and pattern == "two":
                            docs[target] = doc_signature(I, doc)
            if fmt == "csv" and config == "abs-molar-K":
                # a separator other than the default: the metadata lines and the data table are written and read with the caller's separator
                for oc, cons, orig, iso, doc in rt.roundtrip(w, r, kind, config, targets[0], path_ext=ext, material_props=True,
                                                             writer_kwargs={"separator": ";"}, reader_kwargs={"separator": ";"}):
                    n += 1
                    case = f"{fmt}|{kind}|{config}|{targets[0]}|separator=';'"
                    if oc.kind != "ok":
                        ctx.ob(False, Finding(f"{prop}.RT-roundtrip", rf.where, f"{fmt}|{kind}|separator|raises:{oc.exc.name}",
                                              f"{case}: export followed by import raises {oc.exc.name}"
                                              f"{' (Python fault: ' + oc.exc.msg + ')' if oc.exc.fault else ': ' + str(oc.exc.msg)[:120]}"),
                               nontrivial_key=(case, "raise"))
                        continue
                    diffs, _tags = compare(I, kind, cons, orig, iso)
                    ctx.ob(not diffs, None if not diffs else Finding(
                        f"{prop}.RT-roundtrip", rf.where, f"{fmt}|{kind}|separator|" + ",".join(sorted({d[0] for d in diffs})),
                        f"{case}: the re-imported isotherm differs from the exported one: " + "; ".join(d[1] for d in diffs[:5])),
                        nontrivial_key=(case, tuple(c for l, c in oc.decisions)))
            if len(docs) == 2:
                a, b = list(docs.values())
                ctx.ob(a == b, Finding(f"{prop}.RT-targets", wf.where, f"{fmt}|{kind}|string-vs-file",
                                       f"{fmt} {kind} {config}: the document written to a file differs from the one returned as a string"),
                       nontrivial_key=(fmt, kind, config, "targets"))
    return n


def r_to_dict(ctx: Ctx, rt: RT, prop):
    """to_dict() emits exactly the content, with stored values; the constructor restores the same object from it"""
    ctx.rule("RT-dict: to_dict() emits material/adsorbate/temperature (stored value), the 7 unit labels and the metadata, "
             "never a reserved/cached attribute; constructing from it restores labels, stored temperature and metadata")
    I = rt.I
    bi = rt.model.cls("pygaps.core.baseisotherm.BaseIsotherm")
    init = bi.find_method("__init__")
    saved = dict(I.overrides)
    for kind in KINDS:
        for config in CONFIGS:
            def thunk(I, kind=kind, config=config):
                iso = rt.mk_iso(kind, config)
                return iso, rt.to_dict(iso)
            for oc, _ in rt.explore(thunk):
                if oc.kind != "ok":
                    ctx.ob(False, Finding(f"{prop}.RT-dict", bi.methods["to_dict"].where, f"to_dict|{kind}|raises", f"to_dict() raises {oc.exc}"))
                    continue
                iso, d = oc.value
                want = {"material", "adsorbate", "temperature", *CONFIGS[config].keys(), *iso.attrs["properties"].keys()}
                if kind == "model":
                    want.add("branch")
                got = set(map(str, d))
                ctx.ob(got == want, Finding(f"{prop}.RT-dict", bi.methods["to_dict"].where,
                                            f"to_dict|{kind}|keys:+{sorted(got - want)}-{sorted(want - got)}",
                                            f"to_dict() of a {kind} isotherm emits {sorted(got - want)} beyond the content and omits "
                                            f"{sorted(want - got)}: the identifier and every export are built from this dictionary"),
                       nontrivial_key=("to_dict", kind, config))
                okv = veq(I, d.get("temperature"), iso.attrs["_temperature"]) and \
                    all(veq(I, d.get(k), v) for k, v in CONFIGS[config].items()) and \
                    all(veq(I, d.get(k), v) for k, v in iso.attrs["properties"].items())
                ctx.ob(okv, Finding(f"{prop}.RT-dict", bi.methods["to_dict"].where, f"to_dict|{kind}|values",
                                    f"to_dict() ({kind}, {config}) does not emit the stored values: temperature={I.describe(d.get('temperature'))} "
                                    f"(stored {I.describe(iso.attrs['_temperature'])} {CONFIGS[config]['temperature_unit']})"),
                       nontrivial_key=("to_dict-values", kind, config))
    # constructor symmetry on the base class
    for config in CONFIGS:
        def thunk2(I, config=config):
            iso = rt.mk_iso("base", config)
            d = rt.to_dict(iso)
            I.overrides.pop("pygaps.core.baseisotherm.BaseIsotherm", None)
            def notfound(I, fi, env, n):
                from ..absint import ExcVal, Raised
                raise Raised(ExcVal(["ParameterError", "pgError", "Exception", "BaseException"], node=n, msg="not in list"))
            I.overrides["pygaps.core.material.Material.find"] = notfound
            I.overrides["pygaps.core.adsorbate.Adsorbate.find"] = notfound
            I.overrides["pygaps.core.material.Material"] = lambda I, ci, a, k, n: Obj(kind="Mat", attrs={"a": a, "k": k})
            I.overrides["pygaps.core.adsorbate.Adsorbate"] = lambda I, ci, a, k, n: Obj(kind="Ads", attrs={"a": a, "k": k})
            new = Obj(cls=bi, label="new")
            I.call_func(init, [], dict(d), None, self_obj=new)
            return iso, new
        try:
            res = rt.explore(thunk2)
        finally:
            I.overrides.clear()
            I.overrides.update(saved)
        for oc, _ in res:
            if oc.kind != "ok":
                ctx.ob(False, Finding(f"{prop}.RT-dict", init.where, f"ctor-symmetry|{config}|raises:{oc.exc.name}",
                                      f"BaseIsotherm(**iso.to_dict()) raises {oc.exc}"))
                continue
            iso, new = oc.value
            bad = [k for k in list(CONFIGS[config]) + ["_temperature", "properties"] if not veq(I, new.attrs.get(k), iso.attrs.get(k))]
            ctx.ob(not bad, Finding(f"{prop}.RT-dict", init.where, f"ctor-symmetry|{config}|{bad}",
                                    f"BaseIsotherm(**iso.to_dict()) ({config}) differs from iso in {bad}: "
                                    + "; ".join(f"{k}: {I.describe(new.attrs.get(k))} vs {I.describe(iso.attrs.get(k))}" for k in bad[:3])),
                   nontrivial_key=("ctor", config))


def r_registered_material(ctx: Ctx, rt: RT, prop):
    """constructing from a dictionary whose material is already registered: the isotherm's material carries the values of the
    dictionary (the document), also for properties the registered material had with another value"""
    ctx.rule("RT-dict (registered material): BaseIsotherm(**d) with d['material'] a dictionary naming a registered material yields "
             "material properties equal to the dictionary's (a re-imported isotherm carries the document's values)")
    I = rt.I
    bi = rt.model.cls("pygaps.core.baseisotherm.BaseIsotherm")
    mc = rt.model.cls("pygaps.core.material.Material")
    init = bi.find_method("__init__")
    saved = dict(I.overrides)
    try:
        def thunk(I):
            iso = rt.mk_iso("base", "abs-molar-K")
            d = rt.to_dict(iso)
            I.overrides.pop("pygaps.core.baseisotherm.BaseIsotherm", None)
            reg = Obj(cls=mc, label="registered", attrs={"name": iso.attrs["_material"].attrs["name"],
                                                         "properties": {"density": Num.atom("rho_registry"), "regonly": Tok("t_regonly")}})
            I.overrides["pygaps.core.material.Material.find"] = lambda I, fi, env, n: reg

            def notfound(I, fi, env, n):
                from ..absint import ExcVal, Raised
                raise Raised(ExcVal(["ParameterError", "pgError", "Exception", "BaseException"], node=n, msg="not in list"))
            I.overrides["pygaps.core.adsorbate.Adsorbate.find"] = notfound
            I.overrides["pygaps.core.adsorbate.Adsorbate"] = lambda I, ci, a, k, n: Obj(kind="Ads", attrs={"a": a, "k": k})
            new = Obj(cls=bi, label="new")
            I.call_func(init, [], dict(d), None, self_obj=new)
            return iso, new
        for oc, _ in rt.explore(thunk):
            if oc.kind != "ok":
                ctx.ob(False, Finding(f"{prop}.RT-dict", init.where, f"registered-material|raises:{oc.exc.name}", f"BaseIsotherm(**d) raises {oc.exc}"))
                continue
            iso, new = oc.value
            mat = new.attrs.get("_material")
            props = mat.attrs.get("properties") if isinstance(mat, Obj) else None
            want = iso.attrs["_material"].attrs["properties"]
            ok = isinstance(props, dict) and all(veq(I, props.get(k), v) for k, v in want.items())
            ctx.ob(ok, Finding(f"{prop}.RT-dict", bi.find_setter("material").where if hasattr(bi, "find_setter") and bi.find_setter("material") else init.where,
                               "registered-material|properties",
                               f"dictionary material properties {I.describe(want)} on a registered material holding "
                               f"{{density: rho_registry, regonly: ...}} give {I.describe(props)}: the document's values must win"),
                   nontrivial_key=("registered-material",))
    finally:
        I.overrides.clear()
        I.overrides.update(saved)


def r_model_dict(ctx: Ctx, rt: RT, prop):
    ctx.rule("RT-model: IsothermBaseModel(**model.to_dict()) restores parameters, ranges and rmse unchanged; to_dict emits "
             "name, rmse, parameters, pressure_range, loading_range")
    I = rt.I
    mi = rt.model.cls("pygaps.modelling.base_model.IsothermBaseModel")
    td = mi.find_method("to_dict")

    def thunk(I):
        m = rt.mk_model()
        d = I.call_func(td, [], {}, None, self_obj=m)
        mfd = rt.model.func("pygaps.modelling.model_from_dict")
        m2 = I.call_func(mfd, [dict(d)], {}, None)
        return m, d, m2
    for oc, _ in rt.explore(thunk):
        if oc.kind != "ok":
            ctx.ob(False, Finding(f"{prop}.RT-model", td.where, f"model-dict|raises:{oc.exc.name}", f"model_from_dict(model.to_dict()) raises {oc.exc}"))
            continue
        m, d, m2 = oc.value
        keys = set(d)
        ctx.ob(keys == {"name", "rmse", "parameters", "pressure_range", "loading_range"},
               Finding(f"{prop}.RT-model", td.where, f"model-dict|keys:{sorted(keys)}", f"model.to_dict() emits {sorted(keys)}"),
               nontrivial_key=("model-keys",))
        okp = veq(I, d.get("parameters"), {"K": Num.atom("pK"), "n_m": Num.atom("pNm")})
        ctx.ob(okp, Finding(f"{prop}.RT-model", td.where, "model-dict|parameters-not-verbatim",
                            f"model.to_dict()['parameters'] is {I.describe(d.get('parameters'))}: the constructor/to_dict pair alters the "
                            "parameters (they feed the identifier and every export)"), nontrivial_key=("model-params",))
        bad = [a for a in ("params", "pressure_range", "loading_range", "rmse") if not veq(I, m2.attrs.get(a), m.attrs.get(a))]
        ctx.ob(isinstance(m2, Obj) and m2.cls is m.cls and not bad,
               Finding(f"{prop}.RT-model", td.where, f"model-dict|restore:{bad}",
                       f"model_from_dict(model.to_dict()) differs in {bad}: " +
                       "; ".join(f"{a}: {I.describe(m2.attrs.get(a))} vs {I.describe(m.attrs.get(a))}" for a in bad)),
               nontrivial_key=("model-restore",))


def r_branch_canon(ctx: Ctx, rt: RT, prop):
    """The stored branch column is canonical.  The writers translate marks with value tables (Series.replace(0, 'ads') /
    == 0 tests) and the identifier hashes the column: both are only total / spelling independent if the constructor - the
    single place where data_raw is created - normalises whatever the caller gave (list of booleans, boolean or object column)."""
    ctx.rule("B-canon: PointIsotherm.__init__ stores the branch marks as integers 0 / 1 whatever spelling the caller used (a list of "
             "booleans, a boolean column of the table, 'ads' / 'des') - interpreted on the constructor; no other method stores into that column")
    ci = rt.model.cls("pygaps.core.pointisotherm.PointIsotherm")
    init = ci.find_method("__init__")
    I = rt.I
    saved = dict(I.overrides)
    I.overrides.pop("pygaps.core.pointisotherm.PointIsotherm", None)
    I.overrides["pygaps.core.baseisotherm.BaseIsotherm.__init__"] = lambda I, fi, env, n: None
    marks = [False, True, True]
    cases = {"list-of-booleans": (False, list(marks)), "boolean-column": (True, "guess"), "ads": (False, "ads"), "des": (False, "des")}
    want = {"list-of-booleans": [0, 1, 1], "boolean-column": [0, 1, 1], "ads": [0, 0, 0], "des": [1, 1, 1]}
    n = 0
    try:
        for cname, (incol, branch) in cases.items():
            def thunk(I, incol=incol, branch=branch):
                cols = {c: [Num.atom(f"{c}{i}") for i in range(3)] for c in ("pressure", "loading")}
                if incol:
                    cols["branch"] = list(marks)
                new = Obj(cls=ci, label="new", attrs={})
                I.call_func(init, [], {"isotherm_data": MiniFrame(cols), "pressure_key": "pressure", "loading_key": "loading", "branch": branch}, None, self_obj=new)
                return new
            for oc, _ in rt.explore(thunk):
                n += 1
                col = oc.value.attrs["data_raw"].cols.get("branch") if oc.kind == "ok" and isinstance(oc.value.attrs.get("data_raw"), MiniFrame) else None
                got = [("bool:" + str(v)) if isinstance(v, bool) else int(v.value()) if isinstance(v, Num) and v.is_const() else I.describe(v) for v in col] if col is not None else \
                    (f"raises {oc.exc.name}" if oc.kind != "ok" else "no branch column")
                ctx.ob(got == want[cname], Finding(f"{prop}.B-canon", init.where, f"PointIsotherm.__init__|branch-column-not-normalised|{cname}",
                                                   f"branch marks given as {cname} are stored as {got}; required the integers {want[cname]}: "
                                                   "Series.replace(0, 'ads') in the CSV/Excel writers does not match booleans (every point is then exported as "
                                                   "'False'/'True' and re-imported as desorption) and the identifier depends on the spelling of the same marks"),
                       nontrivial_key=("b-canon", cname))
    finally:
        I.overrides.clear()
        I.overrides.update(saved)
    ctx.floor("constructor runs for branch canonicalisation", n, 4)
    # private helpers the constructor calls are part of the constructor (their stores were interpreted above)
    ctor_part, todo = set(), [init]
    while todo:
        f_ = todo.pop()
        if f_.name in ctor_part:
            continue
        ctor_part.add(f_.name)
        for c in ast.walk(f_.node):
            if isinstance(c, ast.Call) and isinstance(c.func, ast.Attribute) and isinstance(c.func.value, ast.Name) and c.func.value.id == "self" \
                    and c.func.attr.startswith("_") and ci.find_method(c.func.attr) is not None:
                todo.append(ci.find_method(c.func.attr))
    others = []
    for m in ci.methods.values():
        if m.name in ctor_part:
            continue
        for x in ast.walk(m.node):
            if isinstance(x, (ast.Assign, ast.AugAssign)) and any("data_raw['branch']" in ast.unparse(t) or 'data_raw["branch"]' in ast.unparse(t)
                                                                 for t in (x.targets if isinstance(x, ast.Assign) else [x.target])):
                others.append(f"{m.name}:{x.lineno}")
    ctx.ob(not others, Finding(f"{prop}.B-canon", ci.where if hasattr(ci, "where") else init.where, f"branch-column-written-outside-init:{others}",
                               f"data_raw['branch'] is also written in {others}: the normalisation in __init__ no longer covers every stored value"),
           nontrivial_key=("b-canon-others",))


def r_column_order(ctx: Ctx, rt: RT, prop):
    """the stored table has a canonical column layout whatever layout the caller's table had (the identifier hashes the table
    column by column, exporters sort keys): interpreted on PointIsotherm.__init__ with a frame whose extra columns are unsorted"""
    ctx.rule("ID-cols: PointIsotherm.__init__ stores the columns as [pressure, loading, branch, *sorted(extra columns)] for any input order")
    I = rt.I
    ci = rt.model.cls("pygaps.core.pointisotherm.PointIsotherm")
    init = ci.find_method("__init__")
    saved = dict(I.overrides)
    I.overrides.pop("pygaps.core.pointisotherm.PointIsotherm", None)
    I.overrides["pygaps.core.baseisotherm.BaseIsotherm.__init__"] = lambda I, fi, env, n: None
    try:
        # with and without a branch column in the table (the route every importer takes), extra columns sorting before and after "branch"
        for order in (("zeta", "pressure", "alpha", "loading", "mid"), ("pressure", "loading", "mid", "alpha", "zeta"),
                      ("alpha", "branch", "pressure", "zeta", "loading", "mid"), ("pressure", "loading", "alpha", "mid", "zeta", "branch")):
            def thunk(I, order=order):
                frame = MiniFrame({c: ([Num.const(0)] * 3 if c == "branch" else [Num.atom(f"{c}{i}") for i in range(3)]) for c in order})
                new = Obj(cls=ci, label="new", attrs={})
                I.call_func(init, [], {"isotherm_data": frame, "pressure_key": "pressure", "loading_key": "loading", "branch": "ads"}, None, self_obj=new)
                return new
            for oc, _ in rt.explore(thunk):
                if oc.kind != "ok":
                    raise AnalysisError(f"PointIsotherm.__init__ on a plain table: {oc.exc}")
                got = list(oc.value.attrs["data_raw"].cols)
                want = ["pressure", "loading", "branch", "alpha", "mid", "zeta"]
                ctx.ob(got == want, Finding(f"{prop}.ID-cols", init.where, f"PointIsotherm.__init__|column-order|input={','.join(order)}",
                                            f"a table given with columns {list(order)} is stored as {got}; required {want}: the identifier (and every "
                                            "comparison with a re-imported copy, whose columns arrive sorted) depends on the column layout"),
                       nontrivial_key=("cols", order))
    finally:
        I.overrides.clear()
        I.overrides.update(saved)


def r_model_state(ctx: Ctx, rt: RT, prop):
    """model constants that are neither parameters nor exported (DR / DA: minus_rt = -R*T, set by __init_parameters__ from the
    isotherm's temperature) must be re-derived whenever a ModelIsotherm is built around an existing model object - the route
    every importer takes (ModelIsotherm(model=model_from_dict(...), **metadata))"""
    ctx.rule("RT-model-state: every attribute the model equations read that is assigned outside __init__/fit is either exported by "
             "to_dict() or re-derived by __init_parameters__, and ModelIsotherm.__init__ calls __init_parameters__ with the "
             "isotherm's properties also when it is handed a model instance")
    model = rt.model
    I = rt.I
    classes = [c for m in model.modules.values() if m.name.startswith("pygaps.modelling.") for c in m.classes.values()]
    derived = {}
    for ci in classes:
        assigned = {}
        for mname, fi in ci.methods.items():
            if mname in ("__init__", "fit", "fit_leastsq"):
                continue
            for x in ast.walk(fi.node):
                if isinstance(x, ast.Assign):
                    for t in x.targets:
                        if isinstance(t, ast.Attribute) and ast.unparse(t.value) == "self":
                            assigned.setdefault(t.attr, set()).add(mname)
        reads = set()
        for mname in ("loading", "pressure", "spreading_pressure"):
            fi = ci.methods.get(mname)
            if fi is not None:
                reads |= {x.attr for x in ast.walk(fi.node) if isinstance(x, ast.Attribute) and ast.unparse(x.value) == "self" and isinstance(x.ctx, ast.Load)}
        for attr in sorted(reads & set(assigned)):
            derived[(ci.name, attr)] = assigned[attr]
            ctx.ob(assigned[attr] <= {"__init_parameters__"}, Finding(
                f"{prop}.RT-model-state", ci.methods[sorted(assigned[attr])[0]].where, f"{ci.name}|{attr}|assigned-in:{sorted(assigned[attr])}",
                f"{ci.name}.{attr} is read by the model equation and assigned in {sorted(assigned[attr])}: state that is neither a parameter nor "
                "re-derivable from the isotherm's properties cannot survive an export"), nontrivial_key=("model-state", ci.name, attr))
    ctx.analysed["derived model attributes"] = {f"{k[0]}.{k[1]}": sorted(v) for k, v in derived.items()}
    if not derived:
        ctx.ob(True, nontrivial_key=("model-state", "none"))
        return
    # the import route re-derives them
    mi = model.cls("pygaps.core.modelisotherm.ModelIsotherm")
    init = mi.find_method("__init__")
    saved = dict(I.overrides)
    I.overrides.pop("pygaps.core.modelisotherm.ModelIsotherm", None)
    I.overrides["pygaps.core.baseisotherm.BaseIsotherm.__init__"] = lambda I, fi, env, n: None
    try:
        for cname in sorted({k[0] for k in derived}):
            ci = next(c for c in classes if c.name == cname)
            called = []
            I.overrides[ci.find_method("__init_parameters__").qualname] = lambda I, fi, env, n, called=called: called.append(env.get("params"))

            from fractions import Fraction as _Fr
            for tunit, want_T in (("K", Num.atom("Tst")), ("°C", Num.atom("Tst") + Num.const(_Fr("273.15")))):
                def thunk(I, ci=ci, tunit=tunit):
                    called.clear()
                    mobj = Obj(cls=ci, label="model", attrs={"params": {}, "name": ci.name})
                    new = Obj(cls=mi, label="new", attrs={"_temperature": Num.atom("Tst"), "temperature_unit": tunit})
                    I.call_func(init, [], {"model": mobj, "branch": "ads", "temperature": Num.atom("Tst"), "temperature_unit": tunit,
                                           "material": Tok("m"), "adsorbate": Tok("a")}, None, self_obj=new)
                    return new
                for oc, _ in rt.explore(thunk):
                    if oc.kind != "ok":
                        raise AnalysisError(f"ModelIsotherm.__init__ with a {cname} instance: {oc.exc}")
                    ok = bool(called) and isinstance(called[-1], dict) and veq(I, called[-1].get("temperature"), want_T)
                    ctx.ob(ok, Finding(f"{prop}.RT-model-state", init.where, f"ModelIsotherm.__init__|model-instance|{cname}|{tunit}",
                                       f"ModelIsotherm(model=<{cname} instance>, temperature=T, temperature_unit={tunit!r}, ...) - the route of every importer - "
                                       f"calls {cname}.__init_parameters__ with temperature = "
                                       f"{I.describe(called[-1].get('temperature')) if called and isinstance(called[-1], dict) else 'nothing'}; required the "
                                       f"isotherm's temperature in kelvin ({want_T.canon()}): {sorted(a for c, a in derived if c == cname)} otherwise keep the "
                                       "class default / a wrong value, so the re-imported model predicts other loadings / pressures than the exported one"),
                           nontrivial_key=("model-state-import", cname, tunit))
    finally:
        I.overrides.clear()
        I.overrides.update(saved)
