"""C03 - data accessors in requested units agree with permanent conversion.

Decided statically:
  R-acc     PointIsotherm/ModelIsotherm pressure, loading, pressure_at, loading_at (and the unit handling of
            spreading_pressure_at): abstract interpretation on every (stored representation, request);
            result == F_out * g(F_in * x) with the factors of the permanent conversion (C02's oracle);
            impossible requests are refused with a pygaps error; never a Python fault
  R-sel     branch / limit selection: boolean mask on the stored branch column, limits applied to the
            *converted* values with None -> -inf/+inf, no sort / re-index; indexed=False returns .values
  R-cache   interpolator built from native data of the requested branch with the requested kind/fill; reused
            only when (branch, kind, fill) all agree
  R-interp  linear default; without fill neither fill_value nor bounds_error=False reach interp1d
  R-split   split_ads_data depends only on the pressure sequence: no row label is compared with a position
  R-order   get_iso_loading_and_pressure_ordered reverses both arrays or neither
Not decided: numerical behaviour of scipy's interp1d (trusted).
"""
from __future__ import annotations

import ast
import itertools
import multiprocessing

from ..absint import Arr, NeedChoice, Obj, Opaque, Outcome, Raised
from ..core import AnalysisError, Ctx, Finding
from ..domain import (LABELS, Oracle, Tables, install_model_stub, kelvin, make_interp, mk_model_isotherm,
                      mk_point_isotherm, normalise)
from ..num import Num
from ..spec_iso import FRAC, REFUSE, all_states, mkstate, target_loading, target_material, target_pressure
from ..srcmodel import load

PI = "pygaps.core.pointisotherm.PointIsotherm"
MI = "pygaps.core.modelisotherm.ModelIsotherm"
II = "pygaps.utilities.isotherm_interpolator.IsothermInterpolator"


class Engine:
    def __init__(self, root, thorough=False):
        self.thorough = thorough
        self.model = load(root)
        self.I = make_interp(self.model)
        install_model_stub(self.I)
        I = self.I
        self.t = Tables(I)
        self.o = Oracle(I, self.t)

        def interp1d(I, a, k, n):
            desc = "interp1d(" + ",".join([I.describe(x) for x in a] + [f"{kk}={I.describe(v)}" for kk, v in sorted(k.items())]) + ")"
            return Opaque(desc, callable_=True)
        I.ext["scipy.interpolate.interp1d"] = interp1d
        self.I.watch = {f"pygaps.units.converter_mode.{n}" for n in ("c_pressure", "c_loading", "c_material")}

    def run(self, fi, make_obj, args, kwargs):
        I = self.I
        res = []
        work = [[]]
        while work:
            dec = work.pop()
            I.reset(dec)
            try:
                obj = make_obj()
                try:
                    v = I.call_func(fi, list(args), dict(kwargs), None, self_obj=obj)
                    oc = Outcome("ok", value=v)
                except Raised as r:
                    oc = Outcome("raise", exc=r.exc)
            except NeedChoice as nc:
                for i in reversed(range(nc.n)):
                    work.append(dec + [i])
                continue
            oc.decisions = list(I.dlabels)
            oc.writes = list(I.writes)
            oc.calls = list(I.calls)
            res.append((oc, obj))
        return res


# ---- request spaces ------------------------------------------------------------------------------

def p_requests(t, s):
    return [(None, None), (None, "kPa"), ("absolute", "Pa"), ("absolute", None), ("relative", None),
            ("relative%", None), ("relative", "bar"), ("bogus", None), (None, "bogus")]


def l_requests(t, s):
    cur_tab = t.loading_table(s["loading_basis"])
    other = [u for u in (cur_tab or {}) if u != s["loading_unit"]]
    r = [(None, None), ("mass", "g"), ("molar", "mol"), ("molar", None), ("fraction", None), ("percent", None),
         ("fraction", "g"), ("volume_liquid", "cm3"), ("volume_gas", "L"), ("bogus", None)]
    if other:
        r.append((None, other[0]))
    return r


def m_requests(t, s):
    cur_tab = t.material_table(s["material_basis"])
    other = [u for u in cur_tab if u != s["material_unit"]]
    return [(None, None), (None, other[0]), ("volume", "cm3"), ("mass", "kg"), ("molar", None), ("molar", "mol")]


def one_per_basis(reps):
    return list({r[0]: r for r in reps}.values())


def request_plan(t, states, shard, thorough=True):
    """(state, pressure request, loading request, material request, dimension exercised)"""
    pres, load_, mat, tus = states
    if not thorough:
        load_, mat = one_per_basis(load_), one_per_basis(mat)
    plan = []
    keep = (None, None)
    for i, p in enumerate(pres):
        s = mkstate(p, load_[i % len(load_)], mat[i % len(mat)], tus[i % len(tus)])
        for preq in p_requests(t, s):
            plan.append((s, preq, keep, keep, "p"))
    for i, (l, m) in enumerate(itertools.product(load_, mat)):
        s = mkstate(pres[i % len(pres)], l, m, tus[i % len(tus)])
        for lreq, mreq in itertools.product(l_requests(t, s), m_requests(t, s)):
            plan.append((s, keep, lreq, mreq, "l"))
    # a few mixed requests
    s = mkstate(pres[0], load_[0], mat[0], tus[-1])
    plan.append((s, ("relative", None), ("mass", "g"), ("volume", "cm3"), "x"))
    plan.append((s, (None, "kPa"), ("fraction", "g"), ("mass", "kg"), "x"))
    return plan[shard[0]::shard[1]]


def plan_key(dim, p, l, m, preq, lreq, mreq):
    if dim == "p":
        return f"p={p[0]}>{req_cls(preq, p[0])}"
    if dim == "l":
        if l[0] in FRAC and mreq != (None, None):
            return "stored-fractional+material-request"
        return f"l={l[0]}/{m[0]}>{req_cls(lreq, l[0])}|m>{req_cls(mreq, m[0])}"
    return "mixed"


def target_l(t, s, lreq, mreq):
    r = target_material(t, s, mreq[0], mreq[1])
    if r == REFUSE:
        return REFUSE
    return target_loading(t, r, lreq[0], lreq[1])


def sel_desc(branch):
    if branch in (None, "all"):
        return ()
    return ("B==0",) if branch == "ads" else ("B==1",)


def lim_descs(I, limits, num):
    """acceptable mask descriptions for `limits` applied on values `num` (PointIsotherm: Series.between)"""
    if limits is None or all(x is None for x in limits):
        return None
    lo = "-numpy.inf" if limits[0] is None else I.describe(limits[0])
    hi = "numpy.inf" if limits[1] is None else I.describe(limits[1])
    return {f"between({lo},{hi})on({num.canon()})"}


def lim_descs_model(I, limits, arr):
    if limits is None or all(x is None for x in limits):
        return None
    lo = "-numpy.inf" if limits[0] is None else I.describe(limits[0])
    hi = "numpy.inf" if limits[1] is None else I.describe(limits[1])
    d = I.describe(arr)
    return {f"({lo}{a}{d}&{d}{b}{hi})" for a in ("<", "<=") for b in ("<", "<=")}


LIMITS = [None, (None, None), (Num.atom("lo"), None), (None, Num.atom("hi")), (Num.atom("lo"), Num.atom("hi")),
          (Num.const(0), Num.atom("hi")), (None, Num.const(0))]


def desc_s(s):
    return "/".join(str(s[k]) for k in LABELS)


def req_cls(req, cur_b):
    b, u = req
    return f"{'None' if b is None else 'same' if b == cur_b else b}/{'None' if u is None else 'unit' if u != 'bogus' else 'bogus'}"


def check_value(ctx, rule, fi, call, key, oc, expected_num, expected_sel_opts, kind_expected, I, allow_refuse=False):
    """oc must be ok with an Arr/Num whose normalised value and selection match"""
    if oc.kind != "ok":
        if allow_refuse and oc.exc.is_a("pgError") and not oc.exc.fault:
            ctx.ob(True)
            return
        ctx.ob(False, Finding(rule, fi.where, f"{fi.short}|{key}|refused:{oc.exc.name}",
                              f"{call}: a valid request ends in {oc.exc.name}"
                              f"{' (Python fault: ' + oc.exc.msg + ')' if oc.exc.fault else ''}"),
               nontrivial_key=(fi.short, key))
        return
    v = oc.value
    num = v.num if isinstance(v, Arr) else v
    if not isinstance(num, Num):
        ctx.ob(False, Finding(rule, fi.where, f"{fi.short}|{key}|nonnumeric", f"{call}: returns {v!r}"))
        return
    got = normalise(I, num)
    ok = got == expected_num
    ctx.ob(ok, Finding(rule, fi.where, f"{fi.short}|{key}|value",
                       f"{call}: returns {got.canon()} but permanent conversion + native read gives {expected_num.canon()}",
                       {"derived": got.canon(), "required": expected_num.canon()}),
           nontrivial_key=(fi.short, key), sample={"rule": rule, "call": call, "derived": got.canon()})
    if expected_sel_opts is not None and isinstance(v, Arr):
        oks = v.sel in expected_sel_opts
        ctx.ob(oks, Finding("C03.R-sel", fi.where, f"{fi.short}|{key}|selection",
                            f"{call}: rows selected by {list(v.sel)}; required one of {[list(x) for x in expected_sel_opts]}"))
    if kind_expected is not None and isinstance(v, Arr):
        ctx.ob(v.kind == kind_expected, Finding("C03.R-sel", fi.where, f"{fi.short}|{key}|container",
                                                f"{call}: returns a {v.kind}, expected {kind_expected}"))


def check_refusal(ctx, rule, fi, call, key, oc):
    ok = oc.kind == "raise" and oc.exc.is_a("pgError") and not oc.exc.fault
    ctx.ob(ok, Finding(rule, fi.where, f"{fi.short}|{key}|impossible:{'number' if oc.kind == 'ok' else oc.exc.name}",
                       f"{call}: names no valid representation and must be refused with a pygaps error, but "
                       f"{'returns a value' if oc.kind == 'ok' else 'raises ' + oc.exc.name + (' (Python fault: ' + oc.exc.msg + ')' if oc.exc.fault else '')}"),
           nontrivial_key=(fi.short, key, "refuse"))


# ---- PointIsotherm.pressure / loading --------------------------------------------------------------

def work_point_read(E, ctx, states, shard):
    I, t, o = E.I, E.t, E.o
    pres, load_, mat, tus = states
    fp = E.model.func(f"{PI}.pressure")
    fl = E.model.func(f"{PI}.loading")
    fo = E.model.func(f"{PI}.other_data")
    fd = E.model.func(f"{PI}.data")
    n = 0
    P, L = Num.atom("P"), Num.atom("L")
    # pressure()
    combos = [(p, tu) for p in pres for tu in tus]
    for p, tu in combos[shard[0]::shard[1]]:
        s = mkstate(p, load_[0], mat[0], tu)
        T = kelvin(tu)
        for req in p_requests(t, s):
            r = target_pressure(t, s, req[0], req[1])
            for branch, limits, indexed in itertools.product([None, "ads", "des", "all"], LIMITS, [False, True]):
                if (limits is not LIMITS[0] or indexed) and branch not in ("ads",):
                    continue
                kw = {"branch": branch, "pressure_mode": req[0], "pressure_unit": req[1], "limits": limits, "indexed": indexed}
                call = f"pressure({', '.join(f'{k}={I.describe(v) if not isinstance(v, str) else repr(v)}' for k, v in kw.items() if v is not None and v is not False)}) on {desc_s(s)}"
                key = f"{p[0]}|req={req_cls(req, p[0])}|lim={'none' if limits is None else '/'.join('N' if x is None else '0' if x.is_const() else 'v' for x in limits)}"
                for oc, obj in E.run(fp, lambda: mk_point_isotherm(I, s), [], kw):
                    n += 1
                    nonempty = ("empty(" not in str(oc.decisions)) or any(lbl.startswith("empty") and c == 1 for lbl, c in oc.decisions)
                    if r == REFUSE:
                        if nonempty:
                            check_refusal(ctx, "C03.R-acc", fp, call, key, oc)
                        continue
                    exp = P * (o.U_P(s, T) / o.U_P(r, T))
                    sel = sel_desc(branch)
                    if not nonempty:
                        exp, opts = P, {sel}
                    else:
                        ld = lim_descs(I, limits, exp if (req[0] or req[1]) else P)
                        # the mask description carries the un-normalised value it was computed on
                        opts = None if ld is not None else {sel}
                    check_value(ctx, "C03.R-acc", fp, call, key, oc, exp, opts, "series" if indexed else "array", I)
                    if nonempty and limits is not None and any(x is not None for x in limits) and oc.kind == "ok" and isinstance(oc.value, Arr):
                        v = oc.value
                        last = v.sel[len(sel):]
                        good = v.sel[:len(sel)] == sel and len(last) == 1 and _between_ok(I, last[0], limits, normalise(I, v.num))
                        ctx.ob(good, Finding("C03.R-sel", fp.where, f"PointIsotherm.pressure|{key}|limits",
                                             f"{call}: limits must select rows by between(lo|-inf, hi|+inf) on the converted "
                                             f"values after the branch filter; derived selection {list(v.sel)}"),
                               nontrivial_key=("pressure", "limits", key))
    # loading()
    combos = [(l, m, tu) for l in load_ for m in mat for tu in tus[:1]]
    for ci, (l, m, tu) in enumerate(combos[shard[0]::shard[1]]):
        s = mkstate(pres[0], l, m, tu)
        T = kelvin(tu)
        for lreq, mreq in itertools.product(l_requests(t, s), m_requests(t, s)):
            r = target_l(t, s, lreq, mreq)
            variants = [("ads", None), (None, None), ("des", (Num.atom("lo"), Num.atom("hi"))), ("ads", (None, Num.const(0)))]
            if not E.thorough:
                variants = [variants[ci % 2], variants[2]] + ([variants[3]] if ci % 7 == 0 else [])      # (a limit that is exactly 0 is a limit)
            for branch, limits in variants:
                kw = {"branch": branch, "loading_basis": lreq[0], "loading_unit": lreq[1], "material_basis": mreq[0],
                      "material_unit": mreq[1], "limits": limits}
                call = f"loading({', '.join(f'{k}={I.describe(v) if not isinstance(v, str) else repr(v)}' for k, v in kw.items() if v is not None)}) on {desc_s(s)}"
                key = f"{l[0]}/{m[0]}|lreq={req_cls(lreq, l[0])}|mreq={req_cls(mreq, m[0])}|lim={'none' if limits is None else 'set'}"
                if l[0] in FRAC and mreq != (None, None):
                    key = "stored-fractional+material-request"
                for oc, obj in E.run(fl, lambda: mk_point_isotherm(I, s), [], kw):
                    n += 1
                    nonempty = not any(lbl.startswith("empty") and c == 0 for lbl, c in oc.decisions)
                    if r == REFUSE:
                        if nonempty:
                            check_refusal(ctx, "C03.R-acc", fl, call, key, oc)
                        continue
                    exp = L * (o.U_L(s, T) / o.U_L(r, T)) if nonempty else L
                    sel = sel_desc(branch)
                    check_value(ctx, "C03.R-acc", fl, call, key, oc, exp, {sel} if limits is None or not nonempty else None, "array", I)
                    if nonempty and limits is not None and oc.kind == "ok" and isinstance(oc.value, Arr):
                        v = oc.value
                        last = v.sel[len(sel):]
                        good = v.sel[:len(sel)] == sel and len(last) == 1 and _between_ok(I, last[0], limits, normalise(I, v.num))
                        ctx.ob(good, Finding("C03.R-sel", fl.where, f"PointIsotherm.loading|{key}|limits",
                                             f"{call}: limits must select by between() on the converted values after the "
                                             f"branch filter; derived selection {list(v.sel)}"),
                               nontrivial_key=("loading", "limits", key))
    # data() and other_data(): structural
    if shard[0] == 0:
        s = mkstate(pres[0], load_[0], mat[0], tus[0])
        for branch in (None, "all", "ads", "des", "bogus"):
            for oc, obj in E.run(fd, lambda: mk_point_isotherm(I, s), [], {"branch": branch}):
                n += 1
                if branch == "bogus":
                    check_refusal(ctx, "C03.R-sel", fd, f"data(branch={branch!r})", "branch=bogus", oc)
                else:
                    ok = oc.kind == "ok" and getattr(oc.value, "sel", None) == sel_desc(branch)
                    ctx.ob(ok, Finding("C03.R-sel", fd.where, f"PointIsotherm.data|branch={branch}",
                                       f"data(branch={branch!r}) selects {getattr(oc.value, 'sel', oc)}; required {sel_desc(branch)}"),
                           nontrivial_key=("data", branch))
        for branch, limits in itertools.product(("ads", "des", None), LIMITS):
            for oc, obj in E.run(fo, lambda: mk_point_isotherm(I, s), ["enthalpy"], {"branch": branch, "limits": limits}):
                n += 1
                nonempty = not any(lbl.startswith("empty") and c == 0 for lbl, c in oc.decisions)
                v = oc.value if oc.kind == "ok" else None
                ok = isinstance(v, Arr) and v.num == Num.atom("H") and v.sel[:len(sel_desc(branch))] == sel_desc(branch)
                if ok and nonempty and limits is not None and any(x is not None for x in limits):
                    last = v.sel[len(sel_desc(branch)):]
                    ok = len(last) == 1 and _between_ok(I, last[0], limits, Num.atom("H"))
                elif ok:
                    ok = v.sel == sel_desc(branch)
                ctx.ob(ok, Finding("C03.R-sel", fo.where, f"PointIsotherm.other_data|branch={branch}|lim={'none' if limits is None else '/'.join('N' if x is None else '0' if x.is_const() else 'v' for x in limits)}",
                                   f"other_data('enthalpy', branch={branch!r}, limits={I.describe(limits) if limits else None}) -> {oc!r}"),
                       nontrivial_key=("other_data", branch, str(limits)))
        for oc, obj in E.run(fo, lambda: mk_point_isotherm(I, s), ["nokey"], {}):
            check_refusal(ctx, "C03.R-sel", fo, "other_data('nokey')", "missing-key", oc)
    return n


def _between_ok(I, tag, limits, on_num):
    """tag is the structured mask ("between", lo, hi, Num the mask was computed on)"""
    lo = "-numpy.inf" if limits[0] is None else I.describe(limits[0])
    hi = "numpy.inf" if limits[1] is None else I.describe(limits[1])
    if not (isinstance(tag, tuple) and len(tag) == 4 and tag[0] == "between"):
        return False
    return tag[1] == lo and tag[2] == hi and normalise(I, tag[3]) == on_num


# ---- *_at ---------------------------------------------------------------------------------------------

def cache_variants(branch, kind, fill, ci=None):
    """abstract cache states for the interpolator field: instances of the real IsothermInterpolator class (so that helper methods a
    refactoring adds to it are interpreted) whose interpolating function is the opaque callable CACHED"""
    def mk(b, k, f):
        return Obj(cls=ci, kind=None if ci is not None else "CachedInterp", label="cached", attrs={
            "interp_branch": b, "interp_kind": k, "interp_fill": f, "interp_fun": Opaque("CACHED", callable_=True)})
    return {
        "absent": None,
        "same": mk(branch, kind, fill),
        "other-branch": mk("des" if branch == "ads" else "ads", kind, fill),
        "other-kind": mk(branch, "cubic" if kind == "linear" else "linear", fill),
        "other-fill": mk(branch, kind, Num.const(0) if fill is None else None),
    }


def cache_discipline(ctx, E, s, prop="C03"):
    """interpolator caches: the accessor evaluates the cached interpolator iff it was built for the same (branch, kind, fill), builds a
    fresh one from the native data of the requested branch otherwise, and afterwards the cache describes the current arguments -
    interpreted on the accessors with five abstract cache states, so it holds however the test is spelled (inline, helper, ...)"""
    I = E.I
    fla = E.model.func(f"{PI}.loading_at")
    fpa = E.model.func(f"{PI}.pressure_at")
    I.libmeth[("CachedInterp", "__call__")] = lambda I, v, a, k, n: I.apply_opaque(v.attrs["interp_fun"], a, k, n)
    ci_interp = E.model.cls(II)
    x = Num.atom("x")
    n = 0
    for which, fi, field in (("loading_at", fla, "l_interpolator"), ("pressure_at", fpa, "p_interpolator")):
        for branch, kind, fill in [("ads", "linear", None), ("des", "cubic", None), ("ads", "linear", Num.const(0)), ("des", "linear", "extrapolate")]:
            for cname, cobj in cache_variants(branch, kind, fill, ci_interp).items():
                kw = {"branch": branch, "interpolation_type": kind, "interp_fill": fill}
                res = E.run(fi, lambda: mk_point_isotherm(I, s, cache={field: cache_variants(branch, kind, fill, ci_interp)[cname]}), [x], kw)
                for oc, obj in res:
                    n += 1
                    xs, ys = ("P", "L") if which == "loading_at" else ("L", "P")
                    b = "B==0" if branch == "ads" else "B==1"
                    fresh = f"interp1d({xs}@{b},{ys}@{b},kind={kind!r}" + \
                        (f",bounds_error=False,fill_value={I.describe(fill)},kind={kind!r})" if fill is not None else ")")
                    if fill is not None:
                        fresh = f"interp1d({xs}@{b},{ys}@{b},bounds_error=False,fill_value={I.describe(fill)},kind={kind!r})"
                    want = "CACHED(x)" if cname == "same" else f"{fresh}(x)"
                    got = I.describe(oc.value) if oc.kind == "ok" else str(oc.exc)
                    ctx.ob(oc.kind == "ok" and got == want,
                           Finding(f"{prop}.R-cache", fi.where, f"{which}|cache={cname}|fill={'set' if fill is not None else 'none'}",
                                   f"{which}(x, branch={branch!r}, interpolation_type={kind!r}, interp_fill={I.describe(fill)}) with cached "
                                   f"interpolator '{cname}': evaluates {got}; required {want}"),
                           nontrivial_key=(which, "cache", cname, str(fill)),
                           sample={"rule": "R-cache", "call": which, "cache": cname, "evaluates": got})
                    # the cache field afterwards describes the current arguments
                    c = obj.attrs.get(field)
                    if oc.kind == "ok" and c is not None:
                        okk = (c.attrs.get("interp_branch"), c.attrs.get("interp_kind")) == (branch, kind) and \
                            I.py_eq(c.attrs.get("interp_fill"), fill) is True
                        ctx.ob(okk, Finding(f"{prop}.R-cache", fi.where, f"{which}|cache-key-after|{cname}",
                                            f"{which}: cache key after the call is ({c.attrs.get('interp_branch')}, "
                                            f"{c.attrs.get('interp_kind')}, {I.describe(c.attrs.get('interp_fill'))}), "
                                            f"arguments were ({branch}, {kind}, {I.describe(fill)})"))

    # a build that fails (scipy refuses the data: fewer points than the spline order, an empty branch) must not leave a cache that
    # claims the current arguments: the repeated call would be answered by whatever interpolating function the field still holds
    orig = I.ext["scipy.interpolate.interp1d"]

    def interp1d_refuses(I, a, k, n):
        raise I.fault("ValueError", n, "interp1d refuses the data")
    I.ext["scipy.interpolate.interp1d"] = interp1d_refuses
    try:
        for which, fi, field in (("loading_at", fla, "l_interpolator"), ("pressure_at", fpa, "p_interpolator")):
            for branch, kind, fill in [("des", "cubic", None), ("ads", "linear", Num.const(0))]:
                for cname in ("absent", "other-branch", "other-kind", "other-fill"):
                    kw = {"branch": branch, "interpolation_type": kind, "interp_fill": fill}
                    res = E.run(fi, lambda: mk_point_isotherm(I, s, cache={field: cache_variants(branch, kind, fill, ci_interp)[cname]}), [x], kw)
                    for oc, obj in res:
                        n += 1
                        c = obj.attrs.get(field)
                        claims = isinstance(c, Obj) and (c.attrs.get("interp_branch"), c.attrs.get("interp_kind")) == (branch, kind) and \
                            I.py_eq(c.attrs.get("interp_fill"), fill) is True
                        ctx.ob(oc.kind != "ok" and not claims,
                               Finding(f"{prop}.R-cache", fi.where, f"{which}|failed-build|cache={cname}|{'answered' if oc.kind == 'ok' else 'cache-claims-arguments'}",
                                       f"{which}(x, branch={branch!r}, interpolation_type={kind!r}, interp_fill={I.describe(fill)}) with cached interpolator "
                                       f"'{cname}' while scipy refuses to build the interpolator: " +
                                       ("the call is answered" if oc.kind == "ok" else
                                        "the call fails but the cache field afterwards is keyed with the arguments of the failed call - a repeated call "
                                        "is answered by the function the field still holds")),
                               nontrivial_key=(which, "failed-build", cname, str(fill)),
                               sample={"rule": "R-cache", "call": which, "cache": cname, "scenario": "failed build"})
    finally:
        I.ext["scipy.interpolate.interp1d"] = orig
    return n


def work_point_at(E, ctx, states, shard):
    I, t, o = E.I, E.t, E.o
    pres, load_, mat, tus = states
    fla = E.model.func(f"{PI}.loading_at")
    fpa = E.model.func(f"{PI}.pressure_at")
    I.libmeth[("CachedInterp", "__call__")] = lambda I, v, a, k, n: I.apply_opaque(v.attrs["interp_fun"], a, k, n)
    n = 0
    x = Num.atom("x")
    for (s, preq, lreq, mreq, dim) in request_plan(t, states, shard, E.thorough):
        T = kelvin(s["temperature_unit"])
        p = (s["pressure_mode"], s["pressure_unit"])
        l = (s["loading_basis"], s["loading_unit"])
        m = (s["material_basis"], s["material_unit"])
        if True:
            rp = target_pressure(t, s, preq[0], preq[1])
            if True:
                rl = target_l(t, s, lreq, mreq)
                for which, fi in (("loading_at", fla), ("pressure_at", fpa)):
                    kw = {"branch": "ads", "pressure_mode": preq[0], "pressure_unit": preq[1], "loading_basis": lreq[0],
                          "loading_unit": lreq[1], "material_basis": mreq[0], "material_unit": mreq[1]}
                    call = f"{which}(x, {', '.join(f'{k}={v!r}' for k, v in kw.items() if v is not None)}) on {desc_s(s)}"
                    key = plan_key(dim, p, l, m, preq, lreq, mreq)
                    for oc, obj in E.run(fi, lambda: mk_point_isotherm(I, s), [x], kw):
                        n += 1
                        if rp == REFUSE or rl == REFUSE:
                            check_refusal(ctx, "C03.R-acc", fi, call, key, oc)
                            continue
                        if which == "loading_at":
                            xin = x * (o.U_P(rp, T) / o.U_P(s, T))
                            fout = o.U_L(s, T) / o.U_L(rl, T)
                            tag = "interp1d(P@B==0,L@B==0,kind='linear')"
                            under = preq[0] == "absolute" and preq[1] is None
                        else:
                            xin = x * (o.U_L(rl, T) / o.U_L(s, T))
                            fout = o.U_P(s, T) / o.U_P(rp, T)
                            tag = "interp1d(L@B==0,P@B==0,kind='linear')"
                            under = (lreq[0] is not None and lreq[1] is None) or (mreq[0] is not None and mreq[1] is None)
                        # compare through normalisation of the argument inside the opaque application
                        exp = _apply_norm(I, tag, xin) * fout
                        got_oc = oc
                        if oc.kind == "ok" and isinstance(oc.value, Num):
                            got_oc = Outcome("ok", value=_renorm_apps(I, oc.value))
                        check_value(ctx, "C03.R-acc", fi, call, key, got_oc, exp, None, None, I, allow_refuse=under)
    # cache discipline
    if shard[0] == 0:
        n += cache_discipline(ctx, E, mkstate(pres[0], load_[0], mat[0], tus[0]))
    return n


def _apply_norm(I, tag, arg):
    return Num.atom(f"{tag}({arg.canon()})")


def _renorm_apps(I, num):
    """normalise CoolProp atoms, also inside the arguments of opaque applications (interp1d / model calls)"""
    mapping = {}
    for a in num.atoms():
        info = I.apps.get(a)
        if info is None:
            continue
        tag, args, kwargs = info
        if len(args) == 1 and not kwargs and isinstance(args[0], Num):
            mapping[a] = Num.atom(f"{tag}({normalise(I, args[0]).canon()})")
    num = num.subs(mapping) if mapping else num
    return normalise(I, num)


# ---- ModelIsotherm -------------------------------------------------------------------------------------

def work_model(E, ctx, states, shard):
    I, t, o = E.I, E.t, E.o
    pres, load_, mat, tus = states
    n = 0
    x = Num.atom("x")
    f = {nm: E.model.func(f"{MI}.{nm}") for nm in ("pressure", "loading", "pressure_at", "loading_at", "spreading_pressure_at")}
    for (s, preq, lreq, mreq, dim) in request_plan(t, states, shard, E.thorough):
        T = kelvin(s["temperature_unit"])
        p = (s["pressure_mode"], s["pressure_unit"])
        l = (s["loading_basis"], s["loading_unit"])
        m = (s["material_basis"], s["material_unit"])
        if True:
            rp = target_pressure(t, s, preq[0], preq[1])
            # spreading_pressure_at: input conversion only
            kw = {"pressure_mode": preq[0], "pressure_unit": preq[1]}
            call = f"ModelIsotherm.spreading_pressure_at(x, {kw}) on {desc_s(s)}"
            key = f"p={p[0]}>{req_cls(preq, p[0])}"
            for oc, obj in (E.run(f["spreading_pressure_at"], lambda: mk_model_isotherm(I, s), [x], kw) if dim == "p" else []):
                n += 1
                if rp == REFUSE:
                    check_refusal(ctx, "C03.R-acc", f["spreading_pressure_at"], call, key, oc)
                else:
                    exp = _apply_norm(I, "model.spreading_pressure", x * (o.U_P(rp, T) / o.U_P(s, T)))
                    goc = Outcome("ok", value=_renorm_apps(I, oc.value)) if oc.kind == "ok" and isinstance(oc.value, Num) else oc
                    check_value(ctx, "C03.R-acc", f["spreading_pressure_at"], call, key, goc, exp, None, None, I,
                                allow_refuse=(preq[0] == "absolute" and preq[1] is None))
            if not getattr(E, "only_spreading", False):
                rl = target_l(t, s, lreq, mreq)
                for which in ("loading_at", "pressure_at"):
                    kw = {"pressure_mode": preq[0], "pressure_unit": preq[1], "loading_basis": lreq[0],
                          "loading_unit": lreq[1], "material_basis": mreq[0], "material_unit": mreq[1]}
                    call = f"ModelIsotherm.{which}(x, {', '.join(f'{k}={v!r}' for k, v in kw.items() if v is not None)}) on {desc_s(s)}"
                    key = plan_key(dim, p, l, m, preq, lreq, mreq)
                    for oc, obj in E.run(f[which], lambda: mk_model_isotherm(I, s), [x], kw):
                        n += 1
                        if rp == REFUSE or rl == REFUSE:
                            check_refusal(ctx, "C03.R-acc", f[which], call, key, oc)
                            continue
                        if which == "loading_at":
                            exp = _apply_norm(I, "model.loading", x * (o.U_P(rp, T) / o.U_P(s, T))) * (o.U_L(s, T) / o.U_L(rl, T))
                            under = preq[0] == "absolute" and preq[1] is None
                        else:
                            exp = _apply_norm(I, "model.pressure", x * (o.U_L(rl, T) / o.U_L(s, T))) * (o.U_P(s, T) / o.U_P(rp, T))
                            under = (lreq[0] is not None and lreq[1] is None) or (mreq[0] is not None and mreq[1] is None)
                        goc = Outcome("ok", value=_renorm_apps(I, oc.value)) if oc.kind == "ok" and isinstance(oc.value, Num) else oc
                        check_value(ctx, "C03.R-acc", f[which], call, key, goc, exp, None, None, I, allow_refuse=under)
        # branch handling of the model isotherm
    if shard[0] == 0:
        s = mkstate(pres[0], load_[0], mat[0], tus[0])
        for which in ("pressure_at", "loading_at", "spreading_pressure_at"):
            for br, expect_ok in ((None, True), ("ads", True), ("des", False)):
                for oc, obj in E.run(f[which], lambda: mk_model_isotherm(I, s, branch="ads"), [x], {"branch": br}):
                    n += 1
                    ok = (oc.kind == "ok") if expect_ok else (oc.kind == "raise" and oc.exc.is_a("ParameterError"))
                    ctx.ob(ok, Finding("C03.R-sel", f[which].where, f"ModelIsotherm.{which}|branch={br}",
                                       f"ModelIsotherm.{which}(branch={br!r}) on an 'ads' model: {oc!r}"),
                           nontrivial_key=("model-branch", which, br))
        # pressure()/loading() of a loading-calculating / pressure-calculating model
        for calc in ("loading", "pressure"):
            for preq in [(None, None), (None, "kPa"), ("relative", None)]:
                for limits in (None, (Num.atom("lo"), Num.atom("hi")), (None, Num.const(0))):
                    s2 = mkstate(pres[0], load_[0], mat[0], tus[0])
                    T = kelvin(s2["temperature_unit"])
                    rp = target_pressure(t, s2, preq[0], preq[1])
                    kw = {"pressure_mode": preq[0], "pressure_unit": preq[1], "limits": limits}
                    for oc, obj in E.run(f["pressure"], lambda: mk_model_isotherm(I, s2, calculates=calc), [], kw):
                        n += 1
                        v = oc.value if oc.kind == "ok" else None
                        ok = isinstance(v, Arr)
                        if ok:
                            got = _renorm_apps(I, v.num)
                            fac = o.U_P(s2, T) / o.U_P(rp, T)
                            if calc == "loading":
                                base = [a for a in got.atoms() if a.startswith("linspace(pr_lo,pr_hi")]
                                ok = len(base) == 1 and got == Num.atom(base[0]) * fac
                            else:
                                base = [a for a in got.atoms() if a.startswith("model.pressure(")]
                                ok = len(base) == 1 and got == Num.atom(base[0]) * fac
                            if limits is not None:
                                ok = ok and len(v.sel) == 1 and v.sel[0] in lim_descs_model(I, limits, Arr(v.num))
                            else:
                                ok = ok and v.sel == ()
                        ctx.ob(ok, Finding("C03.R-acc", f["pressure"].where,
                                           f"ModelIsotherm.pressure|calc={calc}|req={req_cls(preq, 'absolute')}|lim={'none' if limits is None else 'set' if limits[0] is not None else 'N/0'}",
                                           f"ModelIsotherm.pressure({kw}) for a {calc}-calculating model -> {oc!r}"),
                               nontrivial_key=("model.pressure", calc, str(preq), str(limits)))
    return n


# ---- structural rules -----------------------------------------------------------------------------------

def r_interp(ctx, model):
    ctx.rule("R-interp: IsothermInterpolator defaults to kind='linear'; without a fill value interp1d gets neither "
             "fill_value nor bounds_error; loading_at/pressure_at default interpolation_type='linear', interp_fill=None")
    ci = model.cls(II)
    init = ci.methods.get("__init__")
    if init is None:
        raise AnalysisError("anchor missing: IsothermInterpolator.__init__")
    a = init.node.args
    defaults = dict(zip([x.arg for x in a.args][-len(a.defaults):], a.defaults))
    k = defaults.get("interp_kind")
    ctx.ob(isinstance(k, ast.Constant) and k.value == "linear",
           Finding("C03.R-interp", init.where, "IsothermInterpolator|default-kind",
                   f"default interp_kind is {ast.unparse(k) if k else None}, the documented default is 'linear'"),
           nontrivial_key=("interp", "kind"))
    fdef = defaults.get("interp_fill")
    ctx.ob(isinstance(fdef, ast.Constant) and fdef.value is None,
           Finding("C03.R-interp", init.where, "IsothermInterpolator|default-fill",
                   "default interp_fill is not None: out-of-range queries would be answered by default"),
           nontrivial_key=("interp", "fill"))
    # abstract interpretation of the constructor for fill None / given
    from ..domain import make_interp
    I = make_interp(model)
    seen = {}

    def interp1d(I, a, k, n):
        seen["kw"] = set(k)
        seen["kind"] = k.get("kind")
        return Opaque("f", callable_=True)
    I.ext["scipy.interpolate.interp1d"] = interp1d
    for fill in (None, Num.const(0), "extrapolate"):
        seen.clear()
        outs = I.explore(lambda I: I.instantiate(ci, [Arr(Num.atom("X")), Arr(Num.atom("Y"))], {"interp_kind": "linear", "interp_fill": fill}, None))
        if fill is None:
            ok = all(o.kind == "ok" for o in outs) and seen.get("kw") is not None and not ({"fill_value", "bounds_error"} & seen["kw"]) and seen.get("kind") == "linear"
            msg = f"without a fill value interp1d is built with keywords {sorted(seen.get('kw') or [])}: out-of-range queries are not refused"
        else:
            ok = all(o.kind == "ok" for o in outs) and {"fill_value", "bounds_error"} <= (seen.get("kw") or set())
            msg = f"with interp_fill given interp1d is built with keywords {sorted(seen.get('kw') or [])}"
        ctx.ob(ok, Finding("C03.R-interp", init.where, f"IsothermInterpolator|fill={'none' if fill is None else 'set'}", msg),
               nontrivial_key=("interp", "ctor", str(fill)))
    for q in (f"{PI}.loading_at", f"{PI}.pressure_at"):
        fi = model.func(q)
        a = fi.node.args
        d = dict(zip([x.arg for x in a.args][-len(a.defaults):], a.defaults))
        ok = isinstance(d.get("interpolation_type"), ast.Constant) and d["interpolation_type"].value == "linear" \
            and isinstance(d.get("interp_fill"), ast.Constant) and d["interp_fill"].value is None \
            and isinstance(d.get("branch"), ast.Constant) and d["branch"].value == "ads"
        ctx.ob(ok, Finding("C03.R-interp", fi.where, f"{fi.short}|defaults",
                           f"{fi.short} defaults must be branch='ads', interpolation_type='linear', interp_fill=None"),
               nontrivial_key=("interp", "defaults", fi.short))


def r_split(ctx, model):
    """label/position typing of split_ads_data"""
    ctx.rule("R-split: in split_ads_data values derived from data.index[...] / idxmax() are row *labels*, values from "
             "get_loc(), len(), shape are *positions*; a comparison or arithmetic mixing both makes the branch guess "
             "depend on row labels")
    fi = model.func("pygaps.utilities.math_utilities.split_ads_data")
    LABEL, POS, OTHER = "label", "position", "other"
    env = {}

    def ty(e):
        if isinstance(e, ast.Constant):
            return POS if isinstance(e.value, int) else OTHER
        if isinstance(e, ast.Name):
            return env.get(e.id, OTHER)
        if isinstance(e, ast.BinOp):
            a, b = ty(e.left), ty(e.right)
            if {a, b} == {LABEL, POS} or (a == LABEL and b == LABEL and False):
                report(e, "arithmetic between a row label and a position")
            if LABEL in (a, b):
                if isinstance(e.right, ast.Constant) or isinstance(e.left, ast.Constant):
                    report(e, "arithmetic on a row label")
                return LABEL
            return POS if POS in (a, b) else OTHER
        if isinstance(e, ast.Subscript):
            base = ast.unparse(e.value)
            if base.endswith(".index"):
                return LABEL
            if base.endswith(".shape"):
                return POS
            return OTHER
        if isinstance(e, ast.Call):
            fn = ast.unparse(e.func)
            if fn.endswith(".idxmax") or fn.endswith(".idxmin"):
                return LABEL
            if fn.endswith(".get_loc"):
                for a in e.args:
                    if ty(a) != LABEL:
                        report(e, "get_loc() of a non-label")
                return POS
            if fn == "len" or fn.endswith(".argmax") or fn.endswith(".argmin"):
                return POS
            return OTHER
        return OTHER
    problems = []

    def report(node, what):
        problems.append((node.lineno, what, ast.unparse(node)))
    ncmp = 0
    for st in ast.walk(fi.node):
        if isinstance(st, ast.Assign) and len(st.targets) == 1 and isinstance(st.targets[0], ast.Name):
            env[st.targets[0].id] = ty(st.value)
    for st in ast.walk(fi.node):
        if isinstance(st, ast.Compare):
            ncmp += 1
            a = ty(st.left)
            for c in st.comparators:
                b = ty(c)
                if {a, b} == {LABEL, POS}:
                    report(st, "comparison of a position with a row label")
        if isinstance(st, ast.Subscript) and isinstance(st.slice, ast.Slice):
            for part in (st.slice.lower, st.slice.upper):
                if part is not None and ty(part) == LABEL:
                    report(st, "row label used as a slice position")
    ctx.floor("comparisons in split_ads_data", ncmp, 1)
    if not problems:
        ctx.ob(True, nontrivial_key=("split", "typed"))
    for ln, what, src in problems:
        ctx.ob(False, Finding("C03.R-split", fi.where, f"split_ads_data|{what}",
                              f"line {ln}: {what}: `{src}` - the branch guess depends on the row labels, not only on the pressures"),
               nontrivial_key=("split", what))


def r_split_values(ctx, model, prop="C03"):
    """what split_ads_data computes, decided by interpretation on concrete pressure sequences with non-default row labels: points up to
    and including the (first) pressure maximum are adsorption (0), the points after it desorption (1); a maximum at the last point
    means no desorption; a maximum at the first point (that is not also the last) means desorption only"""
    import numpy as _np
    import sympy as _sp
    from ..absint import Obj
    from ..domain import make_interp
    from ..ndsym import install_nd, to_np
    ctx.rule("R-split (values): split_ads_data interpreted on concrete pressure sequences (labels != positions): marks == "
             "[0]*(k+1) + [1]*(n-k-1) for the first maximum at position k, all 0 if k is last, all 1 if k is first and not last")
    fi = model.func("pygaps.utilities.math_utilities.split_ads_data")
    I = make_interp(model)
    install_nd(I)
    R = _sp.Rational
    I.libattr[("SplitFrame", "shape")] = lambda I, v, n: (_sp.Integer(len(v.attrs["p"])), _sp.Integer(2))
    I.libattr[("SplitFrame", "index")] = lambda I, v, n: Obj(kind="SplitIndex", label="index", attrs=v.attrs)
    I.libmeth[("SplitFrame", "__getitem__")] = lambda I, v, a, k, n: Obj(kind="SplitCol", label="pressure", attrs=v.attrs) if a[0] == "pressure" \
        else I.err(n, f"split_ads_data reads column {a[0]!r}")
    I.libmeth[("SplitFrame", "__len__")] = lambda I, v, a, k, n: _sp.Integer(len(v.attrs["p"]))
    first_max = lambda v: max(range(len(v.attrs["p"])), key=lambda i: (v.attrs["p"][i], -i))
    I.libmeth[("SplitCol", "idxmax")] = lambda I, v, a, k, n: v.attrs["labels"][first_max(v)]
    I.libmeth[("SplitCol", "argmax")] = lambda I, v, a, k, n: _sp.Integer(first_max(v))
    I.libmeth[("SplitCol", "max")] = lambda I, v, a, k, n: max(v.attrs["p"])
    I.libmeth[("SplitCol", "to_numpy")] = lambda I, v, a, k, n: _np.array(list(v.attrs["p"]), dtype=object)
    I.libattr[("SplitCol", "values")] = lambda I, v, n: _np.array(list(v.attrs["p"]), dtype=object)
    I.libattr[("SplitCol", "index")] = lambda I, v, n: Obj(kind="SplitIndex", label="index", attrs=v.attrs)
    I.libmeth[("SplitCol", "__len__")] = lambda I, v, a, k, n: _sp.Integer(len(v.attrs["p"]))
    I.libmeth[("SplitIndex", "get_loc")] = lambda I, v, a, k, n: _sp.Integer(v.attrs["labels"].index(a[0])) if a[0] in v.attrs["labels"] \
        else (_ for _ in ()).throw(I.fault("KeyError", n, f"label {a[0]!r} not in the index (a position was used as a label?)"))
    I.libmeth[("SplitIndex", "__getitem__")] = lambda I, v, a, k, n: v.attrs["labels"][int(I.to_py(a[0], n))]
    old_len = I.ext["builtins.len"]
    I.ext["builtins.len"] = lambda I, a, k, n: _sp.Integer(len(a[0].attrs["p"])) if isinstance(a[0], Obj) and a[0].kind in ("SplitFrame", "SplitCol", "SplitIndex") \
        else _sp.Integer(len(a[0].attrs["arr"])) if isinstance(a[0], Obj) and a[0].kind == "MarkSeries" else old_len(I, a, k, n)
    I.ext["numpy.argmax"] = lambda I, a, k, n: _sp.Integer(first_max(a[0])) if isinstance(a[0], Obj) and a[0].kind == "SplitCol" else I.err(n, "argmax of an unknown value")
    # a labelled result (pandas.Series): the callers store it with `data['branch'] = result`, which pandas aligns on row LABELS - so a
    # Series is a correct result only when it carries the labels of `data`; one with the default 0..n-1 labels is misaligned (or all-NaN)
    # for any table whose labels are not its positions
    def _pos(x):
        return None if x is None else int(I.to_py(x, None))

    def _key(kx):
        return slice(_pos(kx.start), _pos(kx.stop), _pos(kx.step)) if isinstance(kx, slice) else _pos(kx)

    def series(I, a, k, n):
        data = a[0] if a else k.get("data")
        idx = a[1] if len(a) > 1 else k.get("index")
        labels = list(idx.attrs["labels"]) if isinstance(idx, Obj) and idx.kind in ("SplitIndex", "SplitCol", "SplitFrame") else None
        if idx is not None and labels is None:
            I.err(n, "pandas.Series with an index that is not the table's own")
        return Obj(kind="MarkSeries", label="series", attrs={"arr": _np.array(list(to_np(I, data)), dtype=object), "labels": labels})
    I.ext["pandas.Series"] = series
    I.libattr[("MarkSeries", "iloc")] = lambda I, v, n: Obj(kind="MarkILoc", label="iloc", attrs={"s": v})
    I.libattr[("MarkSeries", "values")] = lambda I, v, n: v.attrs["arr"]
    I.libmeth[("MarkSeries", "to_numpy")] = lambda I, v, a, k, n: v.attrs["arr"]
    I.libmeth[("MarkSeries", "__len__")] = lambda I, v, a, k, n: _sp.Integer(len(v.attrs["arr"]))

    def iloc_set(I, v, a, k, n):
        v.attrs["s"].attrs["arr"][_key(a[0])] = a[1]
    I.libmeth[("MarkILoc", "__setitem__")] = iloc_set
    I.libmeth[("MarkILoc", "__getitem__")] = lambda I, v, a, k, n: v.attrs["s"].attrs["arr"][_key(a[0])]
    seqs = [[1, 2, 3], [3, 2, 1], [1, 3, 2], [1, 2, 4, 3, 1], [R(1, 10), R(1, 5), R(2, 5), R(4, 5), 1, R(7, 10)], [1, R(1, 2)], [5], [1, 3, 3, 2], [2, 1, 3],
            [1, 2, 3, 4, 5, 4, 3]]
    nrun = 0
    for seq in seqs:
        n = len(seq)
        k = max(range(n), key=lambda i: (seq[i], -i))
        want = [0] * n if k == n - 1 else [1] * n if k == 0 else [0] * (k + 1) + [1] * (n - k - 1)
        frame = lambda: Obj(kind="SplitFrame", label="data", attrs={"p": [_sp.sympify(x) for x in seq], "labels": [_sp.Integer(100 + 7 * i) for i in range(n)]})
        outs = I.explore(lambda I: I.call_func(fi, [frame(), "pressure"], {}, None))
        nrun += 1
        got = None
        if len(outs) == 1 and outs[0].kind == "ok" and isinstance(outs[0].value, Obj) and outs[0].value.kind == "MarkSeries" \
                and outs[0].value.attrs["labels"] != [_sp.Integer(100 + 7 * i) for i in range(n)]:
            got = "a pandas Series labelled 0..n-1 (stored by the callers with label alignment, not by position)"
        elif len(outs) == 1 and outs[0].kind == "ok":
            v = outs[0].value
            v = to_np(I, v.attrs["arr"] if isinstance(v, Obj) and v.kind == "MarkSeries" else v)
            try:
                got = [int(bool(x)) if isinstance(x, bool) else int(x) for x in list(v)]
            except (TypeError, ValueError):
                got = repr(v)
        else:
            got = f"{[repr(o)[:80] for o in outs[:2]]}"
        ctx.ob(got == want, Finding(f"{prop}.R-split", fi.where, f"split_ads_data|values|n={n}|max-at={'last' if k == n - 1 else 'first' if k == 0 else 'inner'}"
                                    + ("|one-after" if k == n - 2 and k != 0 else ""),
                                    f"split_ads_data on pressures {[str(x) for x in seq]} marks {got}; required {want} (adsorption up to and including the "
                                    "pressure maximum, desorption after it): the branch split must depend only on the sequence of pressures"),
               nontrivial_key=("split-values", tuple(map(str, seq))))
    ctx.floor("split_ads_data sequences interpreted", nrun, 8)


def r_order(ctx, model, prop="C03"):
    """get_iso_loading_and_pressure_ordered, interpreted on a stub isotherm (any stored pressure mode) whose accessors record
    their keyword arguments and return tagged arrays"""
    ctx.rule("R-order: get_iso_loading_and_pressure_ordered reads loading and pressure through the accessors with the caller's "
             "branch and ALL requested unit arguments (whatever the stored mode), returns (pressure, loading), and reverses both "
             "arrays - or neither - on the desorption branch; a missing branch is refused")
    from ..absint import Obj, Term
    fi = model.func("pygaps.utilities.pygaps_utilities.get_iso_loading_and_pressure_ordered")
    lu = {"loading_basis": "molar", "loading_unit": "mmol", "material_basis": "mass", "material_unit": "g"}
    pu = {"pressure_mode": "relative", "pressure_unit": None}
    n = 0
    for stored_mode in ("absolute", "relative", "relative%"):
        for branch in ("ads", "des"):
            I = make_interp(model)
            calls = []
            for acc in ("loading", "pressure"):
                I.libmeth[("IsoStub", acc)] = (lambda acc: lambda I, v, a, k, n_: (calls.append((acc, list(a), dict(k))), Term(acc + "_data"))[1])(acc)
            iso = Obj(kind="IsoStub", label="iso", attrs={"pressure_mode": stored_mode, "pressure_unit": "bar" if stored_mode == "absolute" else None,
                                                          "loading_basis": "molar", "loading_unit": "mmol", "material_basis": "mass", "material_unit": "g"})
            outs = I.explore(lambda I: (calls.clear(), I.call_func(fi, [iso, branch, dict(lu), dict(pu)], {}, None))[1])
            for oc in outs:
                n += 1
                key = f"stored={stored_mode}|branch={branch}"
                if oc.kind != "ok":
                    ctx.ob(False, Finding(f"{prop}.R-order", fi.where, f"ordered|{key}|raises:{oc.exc.name}", f"{key}: raises {oc.exc}"))
                    continue
                by = {c[0]: c for c in calls}
                okc = set(by) == {"loading", "pressure"} and all(c[2].get("branch") == branch for c in calls) \
                    and all(by["loading"][2].get(k_) == v for k_, v in lu.items()) and all(by["pressure"][2].get(k_) == v for k_, v in pu.items()) \
                    and "pressure_mode" in by["pressure"][2]
                ctx.ob(okc, Finding(f"{prop}.R-order", fi.where, f"ordered|{key}|accessor-arguments",
                                    f"{key}: accessor calls {[(c[0], c[2]) for c in calls]}; required loading(branch, **{lu}) and "
                                    f"pressure(branch, **{pu}) - e.g. data stored in relative% must still be converted to the requested mode"),
                       nontrivial_key=("order", key, "args"))
                val = oc.value
                want_p, want_l = Term("pressure_data"), Term("loading_data")
                if branch == "des":
                    rev = lambda t: Term("getitem", [t, slice(None, None, -1)])
                    both = isinstance(val, tuple) and len(val) == 2 and val[0] == rev(want_p) and val[1] == rev(want_l)
                    neither = isinstance(val, tuple) and len(val) == 2 and val[0] == want_p and val[1] == want_l
                    okv = both or neither
                else:
                    okv = isinstance(val, tuple) and len(val) == 2 and val[0] == want_p and val[1] == want_l
                ctx.ob(okv, Finding(f"{prop}.R-order", fi.where, f"ordered|{key}|result",
                                    f"{key}: returns {val!r}; required (pressure, loading) from the accessors" +
                                    (", both reversed or both as read" if branch == "des" else "")),
                       nontrivial_key=("order", key, "result"))
    # a branch the isotherm does not have: loading() returns None -> ParameterError
    I = make_interp(model)
    I.libmeth[("IsoStub", "loading")] = lambda I, v, a, k, n_: None
    I.libmeth[("IsoStub", "pressure")] = lambda I, v, a, k, n_: None
    outs = I.explore(lambda I: I.call_func(fi, [Obj(kind="IsoStub", label="iso", attrs={"pressure_mode": "absolute"}), "des", dict(lu), dict(pu)], {}, None))
    ctx.ob(all(o.kind == "raise" and o.exc.is_a("ParameterError") for o in outs),
           Finding(f"{prop}.R-order", fi.where, "ordered|missing-branch", "a branch without data must be refused with ParameterError"),
           nontrivial_key=("order", "missing"))
    ctx.floor("ordered-read cases", n, 6)


def _worker(args):
    root, tier, kind, shard = args[:4]
    opts = args[4] if len(args) > 4 else {}
    ctx = Ctx("C03", tier=tier, root=root)
    E = Engine(root, tier == "thorough")
    states = all_states(E.t, tier == "thorough")
    if tier != "thorough":
        pres, load_, mat, tus = states
        states = (pres, load_, one_per_basis(mat) + [m for m in mat if m not in one_per_basis(mat)][:1], tus)
    E.only_spreading = bool(opts.get("only_spreading"))
    if opts.get("stored_nonfractional"):
        pres, load_, mat, tus = states
        states = (pres, [l for l in load_ if l[0] not in ("fraction", "percent")], mat, tus)
    fn = {"point_read": work_point_read, "point_at": work_point_at, "model": work_model}[kind]
    n = fn(E, ctx, states, shard)
    return (n, ctx.obligations, ctx.discharged, [(f.rule, f.where, f.key, f.message, f.detail) for f in ctx.findings],
            list(ctx._nontrivial), ctx.samples[:2])



def accessors_for(ctx, prop, label, kinds, methods=None, opts=None, tier="quick", floor=1):
    """the accessor interpretation of this module run on behalf of another property (the clause "evaluating through an isotherm
    gives the bare values after unit conversion" is part of C10 / C11 / C15 too): findings are re-labelled <prop>.<label>,
    optionally restricted to the accessors named in `methods` (prefix of the semantic key)"""
    jobs = max(1, ctx.jobs)
    k = min(jobs, 4)
    tasks = [(str(ctx.root), tier, kind, (i, k), opts or {}) for kind in kinds for i in range(k)]
    if jobs > 1:
        with multiprocessing.Pool(min(jobs, len(tasks))) as pool:
            results = list(pool.imap_unordered(_worker, tasks))
    else:
        results = [_worker(t) for t in tasks]
    n = 0
    for kk, ob, di, fs, nt, sm in results:
        n += kk
        keep = [f for f in fs if methods is None or any(f[2].startswith(m + "|") for m in methods)]
        failed = (ob - di) if keep else 0       # failed instances of accessors outside `methods` belong to another property's check
        ctx.obligations += di + failed
        ctx.evaluations += di + failed
        ctx.discharged += di
        for (rule, where, key, message, detail) in keep:
            ctx.add(Finding(f"{prop}.{label}", where, key, message, detail))
        ctx._nontrivial.update(("acc",) + tuple(x) if isinstance(x, tuple) else ("acc", x) for x in nt)
    ctx.floor(f"abstract accessor evaluations ({'/'.join(kinds)})", n, floor)
    return n


def r_scale(ctx, model):
    from ..sites import no_absolute_tolerance
    ctx.rule("R-scale: no absolute-tolerance comparison on pressures / loadings in the accessors, the interpolator or the converters")
    no_absolute_tolerance(ctx, model, "C03", "R-scale", ("pygaps.core.pointisotherm.", "pygaps.core.modelisotherm.", "pygaps.core.baseisotherm.",
                                                      "pygaps.utilities.isotherm_interpolator.", "pygaps.units.", "pygaps.utilities.pygaps_utilities."),
                          "stored or queried pressures / loadings")

def run(ctx: Ctx):
    model = load(ctx.root)
    ctx.assume("scipy interp1d interpolates its construction data; without bounds_error=False it raises outside the range")
    ctx.assume("pandas boolean-mask selection keeps row order; Series.between is inclusive")
    ctx.assume("CoolProp returns SI quantities")
    ctx.rule("R-acc/R-sel/R-cache: abstract interpretation of PointIsotherm.pressure/loading/other_data/data/"
             "pressure_at/loading_at and ModelIsotherm.pressure/pressure_at/loading_at/spreading_pressure_at on "
             "(stored representation x request); result must be F_out * g(F_in * x) with C02's oracle factors")
    r_interp(ctx, model)
    r_split(ctx, model)
    r_split_values(ctx, model)
    r_order(ctx, model)
    r_scale(ctx, model)
    from .C02 import cache_reset_for
    ctx.rule("R-cache (conversions): after every permanent conversion that changed the stored numbers (also a unit-only one) both interpolator "
             "caches are gone, so that an accessor used before and after a conversion agrees with the converted data (the conversions "
             "interpreted on isotherms holding cached interpolators; shared with C02 R-reset)")
    cache_reset_for(ctx, "C03", "R-cache")
    Engine(ctx.root)
    jobs = max(1, ctx.jobs)
    k = jobs if ctx.tier == "thorough" else min(jobs, 4)
    tasks = [(str(ctx.root), ctx.tier, kind, (i, k)) for kind in ("point_read", "point_at", "model") for i in range(k)]
    if jobs > 1:
        with multiprocessing.Pool(min(jobs, len(tasks))) as pool:
            results = list(pool.imap_unordered(_worker, tasks))
    else:
        results = [_worker(t) for t in tasks]
    n = 0
    for kk, ob, di, fs, nt, sm in results:
        n += kk
        ctx.obligations += ob
        ctx.evaluations += ob
        ctx.discharged += di
        for f in fs:
            ctx.add(Finding(*f))
        ctx._nontrivial.update(nt)
        for s_ in sm:
            if len(ctx.samples) < 12:
                ctx.samples.append(s_)
    ctx.extra["exhaustive"] = ctx.tier == "thorough"
    ctx.floor("abstract accessor evaluations", n, 2000)
    ctx.analysed["functions"] = [f"{PI}.{x}" for x in ("data", "pressure", "loading", "other_data", "pressure_at", "loading_at")] + \
        [f"{MI}.{x}" for x in ("pressure", "pressure_at", "loading_at", "spreading_pressure_at")] + \
        [II, "split_ads_data", "get_iso_loading_and_pressure_ordered"]


META = {
    "technique": "abstract interpretation of the accessors over stored x requested representations against the permanent-convers"
                 "ion oracle; label/position typing; split_ads_data and the interpolator caches interpreted on concrete sequence"
                 "s / cache states; structural rules on interpolator construction",
    "level_text": "Static: every accessor of both isotherm classes is abstractly interpreted for each stored "
                  "representation and request shape (keep / other unit / other mode or basis / impossible); the "
                  "derived expression must be F_out*g(F_in*x) with exactly the factors of the permanent conversion, "
                  "row selections must be the branch mask followed by limits on converted values, the interpolator "
                  "cache must be keyed by (branch, kind, fill) and built from native data. This quantifies over all "
                  "representation pairs and cache states, which tests sample sparsely.",
    "level_note": "Trusted: scipy interp1d semantics, pandas mask selection order, CoolProp SI outputs. Not decided: "
                  "numerical interpolation accuracy.",
}
