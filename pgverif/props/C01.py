"""C01 - unit / mode / basis conversions are physically correct and consistent.

Decided statically (DESIGN.md section 4, C01):
  R-table   unit tables equal SI definitions (reference table below, not taken from the repo)
  R-struct  which table serves which mode/basis
  R-factor  for every (from, to) pair c_pressure/c_loading/c_material/c_temperature multiply the value by
            exactly unit(from)/unit(to) over CoolProp/material atoms (end-to-end through the Adsorbate
            getters and Material properties) - identity / there-and-back / via-intermediate follow
            because the oracle is the quotient of a potential function
  R-refuse  missing / unknown unit, mode, basis => ParameterError, never a number, never a Python fault
  R-shape   the value is only multiplied / divided / shifted, never compared, indexed or truth-tested
Not decided: numerical values of p_sat, densities, molar mass (CoolProp), float rounding.
"""
from __future__ import annotations

import ast
import itertools
from fractions import Fraction

from ..absint import Raised
from ..core import AnalysisError, Ctx, Finding
from ..domain import CM, CU, Oracle, Tables, make_interp, mk_adsorbate, mk_material, normalise
from ..num import Num
from ..srcmodel import load

# ---- oracle: SI definitions (CODATA 2018 / BIPM), independent of the repo -------------------------
SI_PRESSURE = {  # Pa
    "Pa": 1, "kPa": 1e3, "MPa": 1e6, "GPa": 1e9, "mbar": 100, "bar": 1e5, "atm": 101325,
    "mmHg": 133.322387415, "torr": 101325 / 760, "Torr": 101325 / 760, "psi": 6894.757293168,
}
_VM = 22413.96954  # cm3(STP)/mol, ideal gas at 273.15 K and 101325 Pa
SI_MOLAR = {  # mol
    "mmol": 1e-3, "mol": 1, "kmol": 1e3, "umol": 1e-6,
    "cm3(STP)": 1 / _VM, "mL(STP)": 1 / _VM, "cc(STP)": 1 / _VM, "L(STP)": 1e3 / _VM,
}
SI_MASS = {  # g
    "amu": 1.66053906660e-24, "ug": 1e-6, "mg": 1e-3, "cg": 1e-2, "dg": 1e-1, "g": 1, "kg": 1e3, "t": 1e6,
}
SI_VOLUME = {  # cm3
    "cm3": 1, "mL": 1, "cc": 1, "dm3": 1e3, "L": 1e3, "m3": 1e6, "uL": 1e-3, "mm3": 1e-3,
}
SI_TEMPERATURE = {"K": -273.15, "°C": 273.15}
TOL = 5e-4
# exactly defined: decimal multiples and defined constants; the others (mmHg / torr, amu, gas volumes at STP) are rounded in the repo's tables
EXACT_UNITS = {"Pa", "kPa", "MPa", "GPa", "mbar", "bar", "atm", "mmol", "mol", "kmol", "umol", "ug", "mg", "cg", "dg", "g", "kg", "t",
               "cm3", "mL", "cc", "dm3", "L", "m3", "uL", "mm3", "K", "°C"}

UNKNOWN = "bogus"


def where_const(model, mod, name):
    m = model.module(mod)
    n = m.assign_nodes.get(name)
    return f"{m.relpath}:{n.lineno if n else '?'} {name}"


def r_table(ctx: Ctx, model, t: Tables):
    ctx.rule("R-table: every unit-table entry equals its SI definition: exactly for decimal multiples and defined units (atm, K / °C offset), within 5e-4 for the rounded ones (mmHg, torr, amu, STP gas volumes)")
    for tabname, tab, ref in (("_PRESSURE_UNITS", t.pressure, SI_PRESSURE), ("_MOLAR_UNITS", t.molar, SI_MOLAR),
                              ("_MASS_UNITS", t.mass, SI_MASS), ("_VOLUME_UNITS", t.volume, SI_VOLUME),
                              ("_TEMPERATURE_UNITS", t.temperature, SI_TEMPERATURE)):
        for unit, val in tab.items():
            if unit not in ref:
                raise AnalysisError(f"unit '{unit}' of {tabname} is not in the checker's SI reference table; "
                                    "extend pgverif/props/C01.py with its definition")
            got = float(val.value())
            exp = ref[unit]
            ok = abs(got - exp) <= TOL * abs(exp)
            if unit in EXACT_UNITS:
                # decimal multiples of the SI unit and units fixed by definition (atm = 101325 Pa, 0 C = 273.15 K): the table value is exact
                from fractions import Fraction as _Fr
                ok = val.value() == _Fr(repr(exp)) or val.value() == _Fr(int(exp)) if float(exp).is_integer() else val.value() == _Fr(repr(exp))
            ctx.ob(ok, Finding("C01.R-table", where_const(model, CU, tabname), f"{tabname}|{unit}",
                               f"{tabname}['{unit}'] = {got:g} but the SI definition gives {exp:g} "
                               f"(relative deviation {abs(got - exp) / abs(exp):.3g})",
                               {"got": got, "expected": exp}),
                   nontrivial_key=("table", tabname, unit),
                   sample={"rule": "R-table", "table": tabname, "unit": unit, "value": str(val.value()), "si": exp})


def r_synonym(ctx: Ctx, model, t: Tables):
    ctx.rule("R-synonym: unit names with the same SI definition carry exactly the same table value "
             "(conversion between synonyms is the identity)")
    for tabname, tab, ref in (("_PRESSURE_UNITS", t.pressure, SI_PRESSURE), ("_MOLAR_UNITS", t.molar, SI_MOLAR),
                              ("_MASS_UNITS", t.mass, SI_MASS), ("_VOLUME_UNITS", t.volume, SI_VOLUME)):
        groups = {}
        for unit in tab:
            groups.setdefault(ref[unit], []).append(unit)
        for val, units in groups.items():
            if len(units) < 2:
                continue
            vals = {str(tab[u].value()) for u in units}
            ctx.ob(len(vals) == 1, Finding("C01.R-synonym", where_const(model, CU, tabname), f"{tabname}|{'='.join(sorted(units))}",
                                           f"{tabname}: the synonyms {units} have different factors "
                                           f"{ {u: str(tab[u].value()) for u in units} }: converting between them is not the identity"),
                   nontrivial_key=("synonym", tabname, tuple(units)))


def r_struct(ctx: Ctx, model, t: Tables):
    ctx.rule("R-struct: absolute->pressure table; mass/volume_*/molar->their tables; relative/fraction/percent->None")
    exp_p = {"absolute": t.pressure, "relative": None, "relative%": None}
    exp_l = {"mass": t.mass, "volume_gas": t.volume, "volume_liquid": t.volume, "molar": t.molar,
             "percent": None, "fraction": None}
    exp_m = {"mass": t.mass, "volume": t.volume, "molar": t.molar}
    for name, got, exp in (("_PRESSURE_MODE", t.pressure_mode, exp_p), ("_LOADING_MODE", t.loading_mode, exp_l),
                           ("_MATERIAL_MODE", t.material_mode, exp_m)):
        ok = set(got) == set(exp) and all(got[k] is exp[k] for k in exp if k in got)
        ctx.ob(ok, Finding("C01.R-struct", where_const(model, CM, name), name,
                           f"{name} does not map {sorted(exp)} to the expected unit tables",
                           {"keys": sorted(map(str, got))}), nontrivial_key=("struct", name))


# ---- expected outcome specifications (what the property demands) ------------------------------------

def spec_pressure(o: Oracle, T, mf, mt, uf, ut, temp_given=True):
    modes = o.t.pressure_mode
    if mf not in modes or mt not in modes or not mf or not mt:
        return ("raise",)
    if mf == mt:
        if mf == "absolute" and ut:
            if uf not in o.t.pressure or ut not in o.t.pressure:
                return ("raise",)
            return ("ok", o.U_p(mf, uf, T) / o.U_p(mt, ut, T))
        return ("ok", Num.const(1))
    if mf == "absolute" and (not uf or uf not in o.t.pressure):
        return ("raise",)
    if mt == "absolute" and (not ut or ut not in o.t.pressure):
        return ("raise",)
    if "absolute" in (mf, mt) and not temp_given:
        return ("raise",)
    return ("ok", o.U_p(mf, uf, T) / o.U_p(mt, ut, T))


def spec_loading(o: Oracle, T, bf, bt, uf, ut, mb, mu):
    bases = o.t.loading_mode
    if not bf or not bt or bf not in bases or bt not in bases:
        return ("raise",)
    frac = ("fraction", "percent")
    if bf == bt:
        if bf in frac:
            return ("ok", Num.const(1))
        if ut and uf != ut:
            tab = o.t.loading_table(bf)
            if not uf or uf not in tab or ut not in tab:
                return ("raise",)
            return ("ok", o.U_l(bf, uf, T) / o.U_l(bt, ut, T))
        return ("ok", Num.const(1))
    if bf in frac and bt in frac:
        return ("ok", Num.const(100) if bt == "percent" else Num.const(Fraction(1, 100)))
    for b, u in ((bf, uf), (bt, ut)):
        if b in frac:
            mtab = o.t.material_table(mb) if mb else None
            if mtab is None or not mu or mu not in mtab:
                return ("raise",)
        else:
            tab = o.t.loading_table(b)
            if not u or u not in tab:
                return ("raise",)
    return ("ok", o.U_l(bf, uf, T, mb, mu) / o.U_l(bt, ut, T, mb, mu))


def spec_material(o: Oracle, bf, bt, uf, ut):
    bases = o.t.material_mode
    if not bf or not bt or bf not in bases or bt not in bases:
        return ("raise",)
    if bf == bt:
        if ut and uf != ut:
            tab = o.t.material_table(bf)
            if not uf or uf not in tab or ut not in tab:
                return ("raise",)
            return ("ok", o.U_m(bt, ut) / o.U_m(bf, uf))
        return ("ok", Num.const(1))
    tf, tt = o.t.material_table(bf), o.t.material_table(bt)
    if not uf or uf not in tf or not ut or ut not in tt:
        return ("raise",)
    return ("ok", o.U_m(bt, ut) / o.U_m(bf, uf))


def ucls(u, table):
    if u is None:
        return "None"
    if table is not None and u in table:
        return "valid"
    if u == UNKNOWN:
        return "unknown"
    return "foreign"


def check_outcomes(ctx, rule, fi, outs, spec, x, key, args_desc, I):
    """compare interpreter outcomes with the specification; returns derived factor or None"""
    factor = None
    for o in outs:
        if spec[0] == "raise":
            ok = o.kind == "raise" and o.exc.is_a("ParameterError") and not o.exc.fault
            got = ("returns " + I.describe(o.value)) if o.kind == "ok" else f"raises {o.exc.name}{' (Python fault: ' + o.exc.msg + ')' if o.exc.fault else ''}"
            ctx.ob(ok, Finding(f"C01.R-refuse", fi.where, f"{fi.name}|{key}|got={'number' if o.kind == 'ok' else o.exc.name}",
                               f"{fi.name}({args_desc}) must be refused with ParameterError but {got}",
                               {"args": args_desc}),
                   nontrivial_key=(fi.name, "refuse", key), sample={"rule": "R-refuse", "call": f"{fi.name}({args_desc})", "outcome": got})
        else:
            expv = x * spec[1]
            if o.kind == "ok":
                v = o.value
                gotn = normalise(I, v) if isinstance(v, Num) else None
                ok = gotn is not None and gotn == expv
                if ok:
                    factor = spec[1]
                ctx.ob(ok, Finding("C01.R-factor", fi.where, f"{fi.name}|{key}",
                                   f"{fi.name}({args_desc}) returns {I.describe(gotn if gotn is not None else v)} "
                                   f"but the physical factor requires {expv.canon()}",
                                   {"args": args_desc, "derived": I.describe(gotn if gotn is not None else v),
                                    "required": expv.canon()}),
                       nontrivial_key=(fi.name, "factor", key) if spec[1] != Num.const(1) else None,
                       sample={"rule": "R-factor", "call": f"{fi.name}({args_desc})", "derived": I.describe(v),
                               "required": expv.canon()})
            else:
                got = f"raises {o.exc.name}{' (Python fault: ' + o.exc.msg + ')' if o.exc.fault else ''}"
                ctx.ob(False, Finding("C01.R-refuse", fi.where, f"{fi.name}|{key}|got={o.exc.name}",
                                      f"{fi.name}({args_desc}) is a valid request (factor {spec[1].canon()}) but {got}",
                                      {"args": args_desc}))
    return factor


def unit_reps(table, thorough, extra=()):
    keys = list(table)
    if thorough:
        return keys
    reps = [keys[0], keys[-1]]
    for e in extra:
        if e in table and e not in reps:
            reps.append(e)
    return reps


def r_factor(ctx: Ctx, model, I, t: Tables, o: Oracle):
    thorough = ctx.tier == "thorough"
    ctx.rule("R-factor/R-refuse: abstract interpretation of c_pressure, c_loading, c_material, c_temperature, "
             "c_unit on every (from,to) pair of modes/bases x representative (quick) or all (thorough) unit "
             "names x {None, unknown, foreign-table} inputs; derived monomial == unit(from)/unit(to)")
    x = Num.atom("x")
    T = Num.atom("T")
    ads = lambda: mk_adsorbate(I)
    mat = lambda: mk_material(I)
    n_calls = 0

    # ---------------- c_pressure
    f = model.func(f"{CM}.c_pressure")
    modes = list(t.pressure_mode) + [None, UNKNOWN]
    up = unit_reps(t.pressure, thorough, extra=("Pa",)) + [None, UNKNOWN, "g"]
    for mf, mt in itertools.product(modes, modes):
        ufs = up if mf == "absolute" or mf not in t.pressure_mode else [None, up[0]]
        uts = up if mt == "absolute" or mt not in t.pressure_mode else [None, up[0]]
        for uf, ut in itertools.product(ufs, uts):
            for temp_given in (True, False):
                if not temp_given and (uf, ut) != (ufs[0], uts[0]):
                    continue
                spec = spec_pressure(o, T, mf, mt, uf, ut, temp_given)
                outs = I.explore(lambda I: I.call_func(f, [x, mf, mt, uf, ut],
                                                       {"adsorbate": ads(), "temp": T if temp_given else None}))
                n_calls += 1
                key = f"{mf}->{mt}|uf={ucls(uf, t.pressure)},ut={ucls(ut, t.pressure)}" + ("" if temp_given else "|temp=None")
                check_outcomes(ctx, "C01", f, outs, spec, x, key,
                               f"x, {mf!r}, {mt!r}, {uf!r}, {ut!r}, temp={'T' if temp_given else None}", I)

    # ---------------- c_loading
    f = model.func(f"{CM}.c_loading")
    bases = list(t.loading_mode) + [None, UNKNOWN]
    mats = [("mass", "g"), ("mass", "kg"), ("volume", "cm3"), ("volume", "m3"), ("molar", "mmol"),
            (None, None), ("mass", None), (UNKNOWN, "g"), ("mass", "cm3")]
    if thorough:
        mats = [(b, u) for b in t.material_mode for u in t.material_table(b)] + mats[5:]

    def lunits(b):
        tab = t.loading_table(b)
        if tab is None:
            return [None, "g"] if b in t.loading_mode else [None, "mol"]
        wrong = "Pa"
        other = next(k for k in t.all_units if k not in tab and k != "Pa")
        return unit_reps(tab, thorough) + [None, UNKNOWN, wrong] + ([other] if thorough else [])
    for bf, bt in itertools.product(bases, bases):
        frac_involved = bf in ("fraction", "percent") or bt in ("fraction", "percent")
        for uf, ut in itertools.product(lunits(bf), lunits(bt)):
            for mb, mu in (mats if frac_involved and bf != bt else [("mass", "g")]):
                spec = spec_loading(o, T, bf, bt, uf, ut, mb, mu)
                outs = I.explore(lambda I: I.call_func(f, [x, bf, bt, uf, ut], {
                    "adsorbate": ads(), "temp": T, "basis_material": mb, "unit_material": mu}))
                n_calls += 1
                key = (f"{bf}->{bt}|uf={ucls(uf, t.loading_table(bf))},ut={ucls(ut, t.loading_table(bt))}"
                       + (f"|mat={mb if mb in t.material_mode or mb is None else 'unknown'}/{ucls(mu, t.material_table(mb) if mb else None)}" if frac_involved and bf != bt else ""))
                check_outcomes(ctx, "C01", f, outs, spec, x, key,
                               f"x, {bf!r}, {bt!r}, {uf!r}, {ut!r}, basis_material={mb!r}, unit_material={mu!r}", I)

    # ---------------- c_material
    f = model.func(f"{CM}.c_material")
    mbases = list(t.material_mode) + [None, UNKNOWN, "fraction"]

    def munits(b):
        tab = t.material_table(b)
        if tab is None:
            return [None, "g"]
        return unit_reps(tab, thorough) + [None, UNKNOWN, "Pa"]
    for bf, bt in itertools.product(mbases, mbases):
        for uf, ut in itertools.product(munits(bf), munits(bt)):
            spec = spec_material(o, bf, bt, uf, ut)
            outs = I.explore(lambda I: I.call_func(f, [x, bf, bt, uf, ut], {"material": mat()}))
            n_calls += 1
            key = f"{bf}->{bt}|uf={ucls(uf, t.material_table(bf))},ut={ucls(ut, t.material_table(bt))}"
            check_outcomes(ctx, "C01", f, outs, spec, x, key, f"x, {bf!r}, {bt!r}, {uf!r}, {ut!r}", I)

    # ---------------- c_temperature (affine)
    f = model.func(f"{CM}.c_temperature")
    kel = Fraction("273.15")
    tu = ["K", "°C", "C", "c", "degC", None, UNKNOWN, "F"]

    def canon_t(u):
        if u and "c" in u.lower():
            return "°C"
        return u
    for uf, ut in itertools.product(tu, tu):
        cf, ct = canon_t(uf), canon_t(ut)
        outs = I.explore(lambda I: I.call_func(f, [x, uf, ut], {}))
        n_calls += 1
        key = f"{cf}->{ct}"
        for oc in outs:
            if cf in ("K", "°C") and ct in ("K", "°C"):
                exp = x if cf == ct else (x - Num.const(kel) if ct == "°C" else x + Num.const(kel))
                ok = oc.kind == "ok" and oc.value == exp
                ctx.ob(ok, Finding("C01.R-factor", f.where, f"c_temperature|{key}",
                                   f"c_temperature(x, {uf!r}, {ut!r}) gives "
                                   f"{I.describe(oc.value) if oc.kind == 'ok' else oc.exc} but must give {exp.canon()}"),
                       nontrivial_key=("c_temperature", key),
                       sample={"rule": "R-factor", "call": f"c_temperature(x,{uf!r},{ut!r})",
                               "derived": I.describe(oc.value) if oc.kind == "ok" else str(oc.exc)})
            else:
                ok = oc.kind == "raise" and oc.exc.is_a("ParameterError") and not oc.exc.fault
                ctx.ob(ok, Finding("C01.R-refuse", f.where, f"c_temperature|{key}|got={'number' if oc.kind == 'ok' else oc.exc.name}",
                                   f"c_temperature(x, {uf!r}, {ut!r}) must raise ParameterError but "
                                   f"{'returns ' + I.describe(oc.value) if oc.kind == 'ok' else 'raises ' + oc.exc.name}"),
                       nontrivial_key=("c_temperature", "refuse", key))

    # ---------------- c_unit (sign semantics)
    f = model.func(f"{CU}.c_unit")
    for tab in (t.pressure, t.mass):
        ks = list(tab)
        for a, b in itertools.product(ks[:3] + [None, UNKNOWN], ks[:3] + [None, UNKNOWN]):
            for sign in (1, -1):
                outs = I.explore(lambda I: I.call_func(f, [tab, x, a, b], {"sign": Num.const(sign)}))
                n_calls += 1
                for oc in outs:
                    if a in tab and b in tab:
                        exp = x * (tab[a] / tab[b]) ** Num.const(sign)
                        ok = oc.kind == "ok" and oc.value == exp
                    else:
                        ok = oc.kind == "raise" and oc.exc.is_a("ParameterError") and not oc.exc.fault
                    ctx.ob(ok, Finding("C01.R-factor", f.where, f"c_unit|{ucls(a, tab)}->{ucls(b, tab)}|sign={sign}",
                                       f"c_unit(table, x, {a!r}, {b!r}, sign={sign}) gives {oc!r}"),
                           nontrivial_key=("c_unit", ucls(a, tab), ucls(b, tab), sign))
    ctx.analysed["abstract_calls"] = n_calls
    ctx.extra["exhaustive"] = thorough
    return n_calls


def r_shape(ctx: Ctx, model):
    """value is only an operand of * / - + ** or passed on as the value argument; never compared/indexed/tested"""
    ctx.rule("R-shape: the converted value only occurs as an arithmetic operand, as the value argument of "
             "c_unit, or in `return value` (so arrays are mapped elementwise by the same factor)")
    n = 0
    for q in (f"{CM}.c_pressure", f"{CM}.c_loading", f"{CM}.c_material", f"{CM}.c_temperature", f"{CU}.c_unit"):
        fi = model.func(q)
        parents = {}
        for node in ast.walk(fi.node):
            for ch in ast.iter_child_nodes(node):
                parents[ch] = node
        for node in ast.walk(fi.node):
            if isinstance(node, ast.Name) and node.id == "value" and isinstance(node.ctx, ast.Load):
                n += 1
                p = parents[node]
                ok = False
                if isinstance(p, ast.BinOp) and isinstance(p.op, (ast.Mult, ast.Div, ast.Sub, ast.Add)):
                    ok = True
                elif isinstance(p, ast.Return):
                    ok = True
                elif isinstance(p, ast.Call) and node in p.args:
                    callee = ast.unparse(p.func)
                    ok = callee == "c_unit" and p.args.index(node) == 1
                elif isinstance(p, ast.keyword) and p.arg == "value":
                    ok = True
                ctx.ob(ok, Finding("C01.R-shape", fi.where, f"{fi.name}|value-use|{type(p).__name__}",
                                   f"line {node.lineno}: the converted value is used in a {type(p).__name__} "
                                   f"({ast.unparse(p)[:80]}) - not elementwise-safe"),
                       nontrivial_key=("shape", fi.name, node.lineno))
            if isinstance(node, ast.Name) and node.id == "value" and isinstance(node.ctx, ast.Store):
                ctx.ob(False, Finding("C01.R-shape", fi.where, f"{fi.name}|value-rebound",
                                      f"line {node.lineno}: parameter 'value' is re-bound"))
    ctx.floor("value uses in converters", n, 8)


def r_material_props(ctx: Ctx, model, I):
    ctx.rule("R-const: Material.density / molar_mass read the 'density' / 'molar_mass' properties unscaled")
    for prop in ("density", "molar_mass"):
        m = mk_material(I)
        outs = I.explore(lambda I: I.getattr_(mk_material(I), prop, None))
        for oc in outs:
            ok = oc.kind == "ok" and oc.value == Num.atom(f"mat.{prop}")
            ctx.ob(ok, Finding("C01.R-const", model.cls("pygaps.core.material.Material").methods[prop].where,
                               f"Material.{prop}", f"Material.{prop} yields {oc!r}, expected the stored '{prop}'"),
                   nontrivial_key=("matprop", prop))


def run(ctx: Ctx):
    model = load(ctx.root)
    I = make_interp(model, backend_ok=True)
    t = Tables(I)
    o = Oracle(I, t)
    ctx.assume("CoolProp returns SI quantities (Pa, kg/m3, mol/m3, kg/mol) and rhomass = rhomolar * molar_mass")
    ctx.assume("numpy/pandas arithmetic broadcasts a scalar factor elementwise")
    ctx.analysed["functions"] = ["c_unit", "_check_unit", "_check_basis", "c_pressure", "c_loading", "c_material",
                                 "c_temperature", "Adsorbate.saturation_pressure/molar_mass/liquid_density/"
                                 "liquid_molar_density/gas_density/gas_molar_density/backend", "Material.density/molar_mass"]
    r_table(ctx, model, t)
    r_synonym(ctx, model, t)
    r_struct(ctx, model, t)
    r_shape(ctx, model)
    r_material_props(ctx, model, I)
    n = r_factor(ctx, model, I, t, o)
    ctx.floor("abstract converter calls", n, 1500)
    # the adsorbate quantities entering the factors are those AT THE STATED TEMPERATURE, whatever the shared backend state was asked before
    from .C20 import r_getter_history
    r_getter_history(ctx, model, prop="C01", rule="R-adsorbate")
    # ... and in the unit asked for, on every route of the getter (backend value, stored property when the backend cannot answer): the
    # relative <-> absolute factor is Adsorbate.saturation_pressure(temp, unit=...) (getter outcome table shared with C20)
    # ... after ANY other query on the same adsorbate (an enthalpy look-up between two conversions): getter sequences shared with C04 R-state
    from .C04 import r_state
    r_state(ctx, model, prop="C01", rule="R-adsorbate")
    from .C20 import r_getters
    r_getters(ctx, model, prop="C01", rule="R-adsorbate", only=("saturation_pressure", "liquid_density", "gas_density", "liquid_molar_density",
                                                              "gas_molar_density", "molar_mass"))


META = {
    "technique": "abstract interpretation of the converters over unit labels with exact symbolic monomials, "
                 "compared with a physical-unit oracle; SI table lint",
    "level_text": "Static: every (from,to) pair of modes/bases (thorough: every concrete unit name) of c_pressure, "
                  "c_loading, c_material, c_temperature, c_unit is abstractly interpreted end-to-end through the "
                  "Adsorbate getters down to CoolProp reads; the derived factor must equal unit(from)/unit(to) of an "
                  "oracle written over SI/CoolProp atoms (a quotient of a potential, so identity, there-and-back and "
                  "via-intermediate follow for all pairs and triples), refusals must be ParameterError, the value "
                  "must be used elementwise, and the unit tables must equal SI definitions. This covers all "
                  "representation pairs rather than the 43 pairs at value 1 the tests sample.",
    "level_note": "Trusted: CoolProp returns SI and rhomass = rhomolar*M; numpy/pandas broadcast scalars elementwise. "
                  "Not decided: numeric values of p_sat/densities/M, float rounding.",
}
