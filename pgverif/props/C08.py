"""C08 - the SQLite store behaves as a keyed collection over any operation history.

Decided statically (engines E5 traces + E6 writer/reader agreement + DDL):
  D-ddl      names/types/ids UNIQUE or PRIMARY KEY; every reference is a declared FOREIGN KEY; FK enforcement is
             switched on first on every connection (duplicates / unknown references are refused by SQLite)
  D-path     every public store function x call shape (db_path keyword / positional / None / omitted) opens exactly
             the intended file; nothing but the file decides the outcome: no registry membership is consulted
             before a write (T-registry), no undeclared module-level state (with C04 R-module)
  D-delete   deletion of an absent item is refused before any write; children are deleted before the parent
  D-read     readers consume the whole result set (no statement on a cursor with pending rows); bookkeeping
             columns (id, iso_type) never reach the constructor, not even when a user property has the same name;
             list-valued properties written one row per element are regrouped by the reader; the literal data
             keys / bool encodings of writer and reader agree
  D-ref      a row id (cursor.lastrowid / id column of a fetched row) bound to a foreign-key column comes from the table the
             column references (lastrowid is read before any other INSERT runs on the cursor)
Not decided: arbitrary interleavings vs a dictionary model (needs executing histories); value/type fidelity of
SQLite's column affinity.
"""
from __future__ import annotations

import ast
import re

from ..absint import Obj, Opaque, UnknownBool
from ..core import AnalysisError, Ctx, Finding
from ..num import Num
from ..srcmodel import load
from ..txn import SQLITE, WRITE_KINDS
from . import C09

EXPECT_UNIQUE = [("adsorbates", "id"), ("adsorbates", "name"), ("materials", "id"), ("materials", "name"),
                 ("isotherms", "id"), ("adsorbate_properties_type", "type"), ("material_properties_type", "type"),
                 ("isotherm_type", "type"), ("isotherm_properties_type", "type")]
EXPECT_FK = [("adsorbate_properties", "ads_id", "adsorbates", "id"),
             ("adsorbate_properties", "type", "adsorbate_properties_type", "type"),
             ("material_properties", "mat_id", "materials", "id"),
             ("material_properties", "type", "material_properties_type", "type"),
             ("isotherms", "iso_type", "isotherm_type", "type"),
             ("isotherms", "material", "materials", "name"),
             ("isotherms", "adsorbate", "adsorbates", "name"),
             ("isotherm_properties", "iso_id", "isotherms", "id"),
             ("isotherm_data", "iso_id", "isotherms", "id")]
EXPECT_NOTNULL = [("adsorbates", "name"), ("materials", "name"), ("isotherms", "material"), ("isotherms", "adsorbate"),
                  ("isotherms", "temperature"), ("isotherm_data", "data"), ("adsorbate_properties", "value"),
                  ("material_properties", "value"), ("isotherm_properties", "value")]


def r_ddl(ctx: Ctx, model, mach):
    ctx.rule("D-ddl: UNIQUE/PRIMARY KEY on every key column, FOREIGN KEY for every reference, NOT NULL on content")
    mod = model.module("pygaps.utilities.sqlite_db_pragmas")
    where = f"{mod.relpath} PRAGMAS"
    T = mach.tables
    for t, c in EXPECT_UNIQUE:
        if t not in T and t == "isotherm_properties_type":
            continue
        ok = t in T and c in T[t].columns and T[t].columns[c]["unique"]
        ctx.ob(ok, Finding("C08.D-ddl", where, f"unique:{t}.{c}",
                           f"table {t}: column {c} is not UNIQUE / PRIMARY KEY any more: a duplicate upload would be accepted"),
               nontrivial_key=("unique", t, c))
    for t, c, rt, rc in EXPECT_FK:
        ok = t in T and (c, rt, rc) in T[t].fks
        ctx.ob(ok, Finding("C08.D-ddl", where, f"fk:{t}.{c}->{rt}.{rc}",
                           f"table {t}: FOREIGN KEY({c}) REFERENCES {rt}({rc}) is missing: an unknown reference would be accepted"),
               nontrivial_key=("fk", t, c))
    for t, c in EXPECT_NOTNULL:
        ok = t in T and c in T[t].columns and T[t].columns[c]["notnull"]
        ctx.ob(ok, Finding("C08.D-ddl", where, f"notnull:{t}.{c}", f"table {t}: column {c} lost NOT NULL"),
               nontrivial_key=("notnull", t, c))
    # the creator runs every pragma and registers the isotherm types the writer uses: db_create and isotherm_to_db are interpreted on
    # the abstract connection and the values bound to isotherm_type.type / isotherms.iso_type are compared
    from .C09 import mk_iso
    I = mach.I
    cr = model.func("pygaps.utilities.sqlite_db_creator.db_create")
    executed = []
    saved_over, saved_ext = dict(I.overrides), dict(I.ext)
    I.overrides["pygaps.utilities.sqlite_utilities.db_execute_general"] = lambda I, fi_, env, n: executed.append(env.get("statement"))
    for nm in ("adsorbate_property_type_to_db", "adsorbate_to_db", "material_property_type_to_db", "material_to_db"):
        I.overrides[f"{SQLITE}.{nm}"] = lambda I, fi_, env, n: None
    I.ext["json.loads"] = lambda I, a, k, n: []
    for nm in ("importlib.resources.files", "importlib_resources.files"):
        I.ext[nm] = lambda I, a, k, n: Obj(kind="ResourceDir", label="resources")
    I.libmeth[("ResourceDir", "joinpath")] = lambda I, v, a, k, n: Obj(kind="ResourceFile", label="resource")
    I.libmeth[("ResourceDir", "__truediv__")] = I.libmeth[("ResourceDir", "joinpath")]
    I.libmeth[("ResourceFile", "read_text")] = lambda I, v, a, k, n: "[]"
    saved_inject, mach.inject = mach.inject, False
    types, used = set(), set()
    try:
        executed.clear()
        outs = mach.explore(lambda I: I.call_func(cr, ["NEW.db"], {}, None))
        for oc, trace in outs:
            if oc.kind != "ok":
                continue
            for e in trace:
                if e[0] == "bind" and e[2] == "isotherm_type":
                    for row in (e[3] if isinstance(e[3], (list, tuple)) else [e[3]]):
                        if isinstance(row, dict) and isinstance(row.get("type"), str):
                            types.add(row["type"])
        ran = list(executed)
    finally:
        I.overrides.clear()
        I.overrides.update(saved_over)
        I.ext.clear()
        I.ext.update(saved_ext)
    try:
        wr = model.func(f"{SQLITE}.isotherm_to_db")
        for kind in ("point", "model", "base"):
            for oc, trace in mach.explore(lambda I, kind=kind: I.call_func(wr, [mk_iso(I, kind)], {"db_path": "USER.db", "verbose": False}, None)):
                for e in trace:
                    if e[0] == "bind" and e[2] == "isotherms":
                        for row in (e[3] if isinstance(e[3], (list, tuple)) else [e[3]]):
                            if isinstance(row, dict) and "iso_type" in row:
                                used.add(row["iso_type"] if isinstance(row["iso_type"], str) else I.describe(row["iso_type"]))
    finally:
        mach.inject = saved_inject
    ctx.ob(len(used) == 3 and used <= types, Finding("C08.D-ddl", cr.where, f"iso-types:{sorted(used - types)}",
                                                     f"isotherm_to_db writes the iso_type values {sorted(used)} (point / model / metadata-only isotherm) but db_create "
                                                     f"registers only {sorted(types)}: an upload of the missing kind is refused by the foreign key"),
           nontrivial_key=("isotypes",))
    pragmas = I.global_value("pygaps.utilities.sqlite_db_pragmas", "PRAGMAS")
    ctx.ob(isinstance(pragmas, list) and ran == pragmas, Finding("C08.D-ddl", cr.where, "creator-runs-all-pragmas",
                                                                 f"db_create executes {len(ran)} of the {len(pragmas) if isinstance(pragmas, list) else '?'} "
                                                                 "statements of PRAGMAS (in order): tables or constraints are missing from a new file"),
           nontrivial_key=("pragmas",))


def r_collation(ctx: Ctx, mach):
    ctx.rule("D-ddl(collation): key and content columns compare byte-wise (no COLLATE NOCASE / RTRIM): 'CO' and 'Co' are different keys, "
             "as in the dictionary model")
    for t in mach.tables.values():
        for c, info in t.columns.items():
            col = info.get("collate")
            ctx.ob(col in (None, "BINARY"), Finding("C08.D-ddl", "src/pygaps/utilities/sqlite_db_pragmas.py", f"collate:{t.name}.{c}:{col}",
                                                     f"table {t.name}: column {c} is declared COLLATE {col}: keys that differ only in case (or trailing "
                                                     "blanks) become the same key - deleting an absent 'Co' removes 'CO', uploading it is refused as duplicate"),
                   nontrivial_key=("collate", t.name, c))


def all_store_functions(model):
    m = model.module(SQLITE)
    return [fi for n, fi in m.functions.items() if "with_connection" in fi.decorators]


def reader_variants(fi, I):
    n = fi.name
    if n == "isotherms_from_db":
        yield "all", (lambda: ([], {"db_path": "USER.db", "verbose": False}))
        yield "criteria", (lambda: ([{"material": "MAT"}], {"db_path": "USER.db", "verbose": False}))
    else:
        yield "all", (lambda: ([], {"db_path": "USER.db", "verbose": False}))


def setup(root):
    model, mach = C09.setup_machine(root, inject=False)
    I = mach.I
    constructed = []
    mach.constructed = constructed

    def ctor(clsname):
        def f(I, ci, args, kwargs, node):
            mach.ev("construct", clsname, tuple(sorted(k if isinstance(k, str) else "<prop>" for k in kwargs)), dict(kwargs), list(args))
            return Obj(kind=clsname, label=clsname.lower())
        return f
    for q in ("pygaps.core.pointisotherm.PointIsotherm", "pygaps.core.modelisotherm.ModelIsotherm",
              "pygaps.core.baseisotherm.BaseIsotherm", "pygaps.core.adsorbate.Adsorbate", "pygaps.core.material.Material"):
        I.overrides[q] = ctor(q.rsplit(".", 1)[1])
    I.ext["pandas.DataFrame"] = lambda I, a, k, n: Opaque("DataFrame")
    I.overrides["pygaps.modelling.model_from_dict"] = lambda I, fi, env, n: Opaque("model")
    I.overrides["pygaps.utilities.python_utilities.grouped"] = lambda I, fi, env, n: [env["iterable"]] if env["iterable"] else []
    return model, mach


def r_paths(ctx: Ctx, model, mach):
    ctx.rule("D-path: for every store function and call shape the single connection is opened on the intended file, "
             "foreign keys are enabled first, no registry membership precedes a write, no pending rows are discarded")
    I = mach.I
    fns = all_store_functions(model)
    ctx.floor("store functions under with_connection", len(fns), 21)
    children = C09.child_tables(mach.tables)
    n = 0
    nref = [0]
    for fi in fns:
        if re.search(r"(_to_db|_delete_db)$", fi.name):
            vs = list(C09.variants(fi, I))
        else:
            vs = list(reader_variants(fi, I))
        for vdesc, build in vs:
            for shape in ("keyword", "positional", "none", "omitted"):
                def thunk(I, build=build, fi=fi, shape=shape):
                    args, kwargs = build()
                    kwargs = dict(kwargs)
                    p = kwargs.pop("db_path")
                    if shape == "keyword":
                        kwargs["db_path"] = p
                    elif shape == "none":
                        kwargs["db_path"] = None
                    elif shape == "positional":
                        names = fi.params()
                        idx = names.index("db_path")
                        args = list(args)
                        while len(args) < idx:
                            nm = names[len(args)]
                            args.append(kwargs.pop(nm) if nm in kwargs else None)
                        args.append(p)
                    return I.call_func(fi, args, kwargs, None)
                if shape != "keyword" and vdesc != vs[0][0]:
                    continue
                exp = "USER.db" if shape in ("keyword", "positional") else "DEFAULT.db"
                for oc, trace in mach.explore(thunk):
                    n += 1
                    conns = [e for e in trace if e[0] == "connect"]
                    ok = len(conns) == 1 and conns[0][1] == repr(exp)
                    ctx.ob(ok, Finding("C08.D-path", fi.where, f"{fi.name}|db_path-{shape}|connects:{[c[1] for c in conns]}",
                                       f"{fi.name}({vdesc}; db_path {shape}): connects to {[c[1] for c in conns]}, expected {exp!r}: the "
                                       "outcome would depend on another database file"),
                           nontrivial_key=("path", fi.name, vdesc, shape, tuple(c for l, c in oc.decisions)),
                           sample={"rule": "D-path", "function": fi.name, "shape": shape, "connects": [c[1] for c in conns]} if n % 25 == 1 else None)
                    sqls = [e for e in trace if e[0] == "sql"]
                    prag = [e for e in sqls if e[1] == "PRAGMA"]
                    okp = len(prag) == 1 and sqls and sqls[0] is prag[0] and re.fullmatch(r"foreign_keys\s*=\s*ON", prag[0][2] or "", re.I)
                    ctx.ob(bool(okp), Finding("C08.D-path", fi.where, f"{fi.name}|foreign-keys-not-first",
                                              f"{fi.name}: PRAGMA foreign_keys = ON is not the first statement of the connection "
                                              f"(statements: {[(e[1], e[2]) for e in sqls][:3]}): unknown references would be accepted"))
                    # D-ref: a row id bound to a foreign-key column of an INSERT / DELETE / UPDATE comes from the referenced table
                    for e in trace:
                        if e[0] != "bind" or e[2] not in mach.tables:
                            continue
                        fks = {col: ref for col, ref, refcol in mach.tables[e[2]].fks if mach.tables.get(ref) and
                               mach.tables[ref].columns.get(refcol, {}).get("pk")}
                        for row in (e[3] if isinstance(e[3], (list, tuple)) else [e[3]]):
                            if not isinstance(row, dict):
                                continue
                            for col, ref in fks.items():
                                if col not in row:
                                    continue
                                d = I.describe(row[col])
                                src = re.fullmatch(r"rowid:(\w+)", d) or re.fullmatch(r"row:(\w+)\[\w+\]", d)
                                if src is None:
                                    continue
                                nref[0] += 1
                                ctx.ob(src.group(1) == ref, Finding(
                                    "C08.D-ref", fi.where, f"{fi.name}|{e[2]}.{col}<-{src.group(1)}",
                                    f"{fi.name}({vdesc}): the {e[1]} on {e[2]} binds {col} = {d}, the row id of a row of '{src.group(1)}', but {col} "
                                    f"references '{ref}': (another INSERT ran on the cursor before lastrowid was read, or the id was taken from the wrong "
                                    "result) - the rows are attached to another item or refused by the foreign key"),
                                    nontrivial_key=("ref", fi.name, e[2], col, tuple(c for l, c in oc.decisions)))
                    for i, e in enumerate(trace):
                        if e[0] == "registry-read":
                            later = [x for x in trace[i + 1:] if x[0] == "sql" and x[1] in WRITE_KINDS]
                            ctx.ob(not later, Finding("C08.D-path", fi.where, f"{fi.name}|{e[1]}-read-before-write",
                                                      f"{fi.name}({vdesc}): membership in the in-memory {e[1]} decides whether "
                                                      f"{[(x[1], x[2]) for x in later][:2]} are issued: the outcome depends on uploads made "
                                                      "earlier in the session / to other files, not only on the target file"))
                        if e[0] == "discard-pending":
                            ctx.ob(False, Finding("C08.D-read", fi.where, f"{fi.name}|pending-rows-discarded:{e[1]}",
                                                  f"{fi.name}({vdesc}): a new statement ({e[2]} {e[3]}) is executed on a cursor that still "
                                                  f"has unfetched rows of {e[1]} (fetchmany): the remaining rows are lost"))
                    if shape == "keyword" and fi.name in ("material_to_db", "adsorbate_to_db") and "overwrite=True" in vdesc and oc.kind == "ok":
                        ptab = fi.name.split("_")[0] + "_properties"
                        # ... one that removes ALL stored properties of the item: keyed by the item only, not property by property (a
                        # per-type delete leaves the properties the overwriting object does not have)
                        def _where_cols(sql_):
                            w = re.split(r"\bWHERE\b", sql_, maxsplit=1, flags=re.I)
                            return set(re.findall(r"(\w+)\s*(?:=|\bIN\b|\bLIKE\b)", w[1], flags=re.I)) if len(w) == 2 else set()
                        okd = any(e[1] == "DELETE" and e[2] == ptab and isinstance(e[3], str) and not ({"type", "value"} & _where_cols(e[3])) for e in sqls)
                        ctx.ob(okd, Finding("C08.D-delete", fi.where, f"{fi.name}|overwrite-keeps-old-properties",
                                            f"{fi.name}({vdesc}) completes without a DELETE FROM {ptab} keyed by the item alone: the properties stored before the "
                                            "overwrite survive it (the stored item is not the one uploaded)"),
                               nontrivial_key=("overwrite-delete", fi.name, vdesc))
                    if shape == "keyword":
                        C09.r_absent(ctx, fi, vdesc, oc, trace)
                        seen_del = set()
                        for e in sqls:
                            if e[1] == "DELETE":
                                miss = children.get(e[2], set()) - seen_del
                                ctx.ob(not miss, Finding("C08.D-delete", fi.where, f"{fi.name}|delete:{e[2]}|children-not-deleted:{sorted(miss)}",
                                                         f"{fi.name}: deletes from {e[2]} before {sorted(miss)}"))
                                seen_del.add(e[2])
                        check_constructs(ctx, fi, vdesc, trace, mach)
    ctx.floor("store-function paths", n, 150)
    ctx.floor("row ids bound to foreign-key columns (D-ref)", nref[0], 20)


def check_constructs(ctx, fi, vdesc, trace, mach):
    """what reaches the constructors in the readers"""
    for e in trace:
        if e[0] != "construct":
            continue
        cls, keys, kwargs, args = e[1], e[2], e[3], e[4]
        if fi.name == "isotherms_from_db":
            bad = [k for k in ("id",) if k in kwargs]
            ctx.ob(not bad, Finding("C08.D-read", fi.where, f"isotherms_from_db|column-reaches-constructor:{bad}",
                                    f"isotherms_from_db passes the bookkeeping column(s) {bad} to {cls}(): they become metadata, the "
                                    "retrieved isotherm differs from the stored one"), nontrivial_key=("ctor", cls, "id"))
            v = kwargs.get("iso_type", None)
            # adversarial database content: a user property named 'iso_type' (pinned cell value 'USERVALUE')
            ok = ("iso_type" not in kwargs) or v == "USERVALUE"
            ctx.ob(ok, Finding("C08.D-read", fi.where, "isotherms_from_db|column-reaches-constructor:['iso_type']",
                               f"isotherms_from_db passes the iso_type column ({mach.I.describe(v)}) to {cls}(): the retrieved isotherm "
                               "has an extra 'iso_type' property, is not equal to the stored one and cannot be deleted through it"),
                   nontrivial_key=("ctor", cls, "iso_type"))
            for req in ("material", "adsorbate", "temperature"):
                ctx.ob(req in kwargs, Finding("C08.D-read", fi.where, f"isotherms_from_db|missing:{req}",
                                              f"{cls}() is built without '{req}'"))
            if cls == "PointIsotherm":
                ok = kwargs.get("pressure_key") == "pressure" and kwargs.get("loading_key") == "loading"
                ctx.ob(ok, Finding("C08.D-read", fi.where, "isotherms_from_db|data-keys",
                                   "the reader's pressure_key/loading_key differ from the 'pressure'/'loading' row types the writer stores"),
                       nontrivial_key=("ctor", "keys"))
        if fi.name in ("adsorbates_from_db", "materials_from_db"):
            nm = args[0] if args else kwargs.get("name")
            ctx.ob(nm is not None and "id" not in kwargs,
                   Finding("C08.D-read", fi.where, f"{fi.name}|name-or-id",
                           f"{fi.name} builds {cls}({mach.I.describe(args)}, {sorted(map(str, kwargs))}): the name column must be the name and the "
                           "row id must not become a property"), nontrivial_key=("ctor", cls))


def r_autoinsert(ctx: Ctx, model, mach):
    """an uploaded item comes back: with the table of property types EMPTY (pinned by the scenario, so nothing can be "found") and
    autoinsert_properties left at its default (or True), every property row is preceded in the same transaction by the registration of
    its type; with autoinsert_properties=False nothing is registered on the caller's behalf (the foreign key then refuses the unknown type)"""
    ctx.rule("D-upload: adsorbate_to_db / material_to_db (autoinsert_properties omitted, True, False) against an empty property-type table: "
             "each property row's type was registered before the row; False registers nothing")
    I = mach.I
    n = 0
    for kind, mk in (("adsorbate", C09.mk_ads), ("material", C09.mk_mat)):
        fi = model.func(f"pygaps.parsing.sqlite.{kind}_to_db")
        ptable, ttable = f"{kind}_properties", f"{kind}_properties_type"
        for how in ("omitted", True, False):
            def thunk(I, mk=mk, fi=fi, how=how):
                kw = {"db_path": "USER.db", "verbose": False}
                if how != "omitted":
                    kw["autoinsert_properties"] = how
                return I.call_func(fi, [mk(I)], kw, None)
            mach.empty_tables = {ttable}
            try:
                paths = list(mach.explore(thunk))
            finally:
                mach.empty_tables = set()
            for oc, trace in paths:
                if oc.kind != "ok" or any(e[0] == "fault" for e in trace):
                    continue
                n += 1
                registered, problems, any_reg = set(), [], False
                for e in trace:
                    if e[0] != "bind" or e[1] != "INSERT":
                        continue
                    rows = e[3] if isinstance(e[3], (list, tuple)) else [e[3]]
                    for row in rows:
                        if not isinstance(row, dict):
                            continue
                        if e[2] == ttable:
                            registered.add(row.get("type"))
                            any_reg = True
                        elif e[2] == ptable and how is not False and row.get("type") not in registered:
                            problems.append(row.get("type"))
                if how is False:
                    ctx.ob(not any_reg, Finding("C08.D-upload", fi.where, f"{fi.name}|autoinsert=False|registers-types",
                                                f"{fi.name}(autoinsert_properties=False) registers property types {sorted(map(str, registered))}: the caller asked "
                                                "for unknown types to be refused"), nontrivial_key=("autoinsert", kind, "False", tuple(c for _, c in oc.decisions)))
                else:
                    ctx.ob(not problems, Finding("C08.D-upload", fi.where, f"{fi.name}|autoinsert={how}|unregistered:{sorted(set(map(str, problems)))}",
                                                 f"{fi.name}(autoinsert_properties {how}) against an empty {ttable}: property rows of type "
                                                 f"{sorted(set(map(str, problems)))} are inserted although the type was not registered before: the foreign key "
                                                 "refuses the upload of an item with a new property"),
                           nontrivial_key=("autoinsert", kind, str(how), tuple(c for _, c in oc.decisions)))
    ctx.floor("fault-free upload paths inspected for property-type registration", n, 6)


def r_lists(ctx: Ctx, model, mach, prop="C08", rule="D-read", kinds=("adsorbate", "material")):
    """repeated property rows of one type (what the writer stores for a list-valued property) come back as one list, in row order:
    interpreted on the readers with a pinned two-row result of the property table"""
    ctx.rule("D-read(lists): two stored rows (type T, values V1, V2) of one item reach the constructor as T=[V1, V2]; a single row as the "
             "bare value")
    I = mach.I
    for kind in kinds:
        r = model.func(f"{SQLITE}.{kind}s_from_db")
        ptab = f"{kind}_properties"
        for nrows, want in ((4, ["V1", "V2", "V3", "V4"]), (3, ["V1", "V2", "V3"]), (2, ["V1", "V2"]), (1, "V1")):
            mach.multi_rows = {ptab: nrows}
            saved = dict(mach.cell_values)
            mach.cell_values[(ptab, "type")] = "TYPEX"
            mach.cell_values[(ptab, "value")] = ["V1", "V2", "V3", "V4"]
            try:
                seen = []
                for oc, trace in mach.explore(lambda I: I.call_func(r, [], {"db_path": "USER.db", "verbose": False}, None)):
                    for e in trace:
                        if e[0] == "construct" and "TYPEX" in e[3]:
                            seen.append(e[3]["TYPEX"])
            finally:
                mach.multi_rows = {}
                mach.cell_values.clear()
                mach.cell_values.update(saved)
            ok = bool(seen) and all(v == want for v in seen)
            ctx.ob(ok, Finding(f"{prop}.{rule}", r.where, f"{kind}s_from_db|list-properties-not-regrouped|rows={nrows}" if nrows >= 2 else f"{kind}s_from_db|single-row-property",
                               f"{kind}s_from_db with {nrows} stored row(s) of one property type (values V1, V2, ...) hands the constructor {seen[:2] or 'nothing'}; "
                               f"required {want!r}" + (": list-valued properties do not come back" if nrows >= 2 else "")),
                   nontrivial_key=("lists", kind, nrows))


def r_pairing(ctx: Ctx, model, mach):
    """several isotherms in one retrieval: each constructed isotherm gets the property rows and the data / model row of its OWN id"""
    ctx.rule("D-read(pairing): isotherms_from_db on two stored isotherms (ids I1, I2) builds isotherm k from the property row and the "
             "data / model row whose iso_id is Ik - interpreted with pinned two-row results of the three tables")
    I = mach.I
    r = model.func(f"{SQLITE}.isotherms_from_db")
    saved_cells, saved_over, saved_ext = dict(mach.cell_values), dict(I.overrides), dict(I.ext)
    n = 0
    try:
        for iso_type in ("modelisotherm", "pointisotherm"):
            mach.multi_rows = {"isotherms": 2, "isotherm_properties": 2, "isotherm_data": 2}
            mach.cell_values.clear()
            mach.cell_values.update({("isotherms", "id"): ["I1", "I2"], ("isotherms", "iso_type"): iso_type,
                                     ("isotherm_properties", "iso_id"): ["I1", "I2"], ("isotherm_properties", "type"): "TYPEX",
                                     ("isotherm_properties", "value"): ["P1", "P2"],
                                     ("isotherm_data", "iso_id"): ["I1", "I2"], ("isotherm_data", "type"): "model" if iso_type == "modelisotherm" else "pressure",
                                     ("isotherm_data", "data"): ["D1", "D2"], ("isotherm_data", "dtype"): "float"})
            I.ext["json.loads"] = lambda I, a, k, n_: Obj(kind="Parsed", label=f"parsed:{a[0]}") if isinstance(a[0], str) else Opaque("parsed")
            I.overrides["pygaps.modelling.model_from_dict"] = lambda I, fi_, env, n_: Obj(kind="ModelFrom", label="model<" + getattr(next(iter(env.values())), "label", "?") + ">")
            I.ext["pandas.DataFrame"] = lambda I, a, k, n_: Obj(kind="FrameOf", label="frame<" + ",".join(getattr(v, "label", str(v)) for v in (a[0].values() if a and isinstance(a[0], dict) else [])) + ">")
            for oc, trace in mach.explore(lambda I: I.call_func(r, [], {"db_path": "USER.db", "verbose": False}, None)):
                cons = [e for e in trace if e[0] == "construct"]
                if oc.kind != "ok" or len(cons) != 2:
                    ctx.ob(False, Finding("C08.D-read", r.where, f"isotherms_from_db|pairing|{iso_type}|outcome",
                                          f"two stored {iso_type}s: {oc!r}, {len(cons)} isotherm(s) constructed; two required"))
                    continue
                n += 1
                for j, e in enumerate(cons):
                    kw = e[3]
                    payload = kw.get("model") if iso_type == "modelisotherm" else kw.get("isotherm_data")
                    got = (kw.get("TYPEX"), getattr(payload, "label", repr(payload)))
                    want = (f"P{j + 1}", ("model<parsed:D%d>" if iso_type == "modelisotherm" else "frame<parsed:D%d>") % (j + 1))
                    ctx.ob(got == want, Finding("C08.D-read", r.where, f"isotherms_from_db|pairing|{iso_type}|isotherm-{j + 1}",
                                                f"isotherms_from_db over two stored {iso_type}s (ids I1, I2): isotherm {j + 1} is built from property "
                                                f"{got[0]!r} and {got[1]}; required {want[0]!r} and {want[1]} - the rows of its own id (otherwise every "
                                                "isotherm after the first comes back with another one's model / data and is unequal to the stored one)"),
                           nontrivial_key=("pairing", iso_type, j))
    finally:
        mach.multi_rows = {}
        mach.cell_values.clear()
        mach.cell_values.update(saved_cells)
        I.overrides.clear()
        I.overrides.update(saved_over)
        I.ext.clear()
        I.ext.update(saved_ext)
    ctx.floor("two-isotherm retrievals interpreted", n, 2)


def r_bool(ctx: Ctx, model, mach, prop="C08", rule="D-read"):
    ctx.rule(f"{rule}(bool): isotherm_to_db interpreted on metadata (True, False, 1, 0, text): only booleans are stored under the two "
             "boolean spellings, numbers and text as themselves; check_SQL_bool inverts exactly those two spellings")
    from .C09 import mk_iso
    from ..num import Num
    I = mach.I
    w = model.func(f"{SQLITE}.isotherm_to_db")
    f = model.func("pygaps.utilities.sqlite_utilities.check_SQL_bool")
    props = {"flagT": True, "flagF": False, "one": Num.const(1), "zero": Num.const(0), "text": "some text"}

    def thunk(I):
        iso = mk_iso(I, "base")
        iso.attrs["properties"] = dict(props)
        return I.call_func(w, [iso], {"db_path": "USER.db", "verbose": False}, None)
    saved_inject, mach.inject = mach.inject, False
    bound_paths = []
    try:
        for oc, trace in mach.explore(thunk):
            if oc.kind != "ok":
                continue
            bound = {}
            for e in trace:
                if e[0] == "bind" and e[2] == "isotherm_properties":
                    for row in (e[3] if isinstance(e[3], (list, tuple)) else [e[3]]):
                        if isinstance(row, dict) and "type" in row:
                            bound[row["type"]] = row.get("value")
            bound_paths.append(bound)
    finally:
        mach.inject = saved_inject
    ctx.floor("isotherm_to_db completing paths (bool rule)", len(bound_paths), 1)
    encs = set()
    for bound in bound_paths:
        missing = [k_ for k_ in props if k_ not in bound]
        ctx.ob(not missing, Finding(f"{prop}.{rule}", w.where, f"bool-encode:not-stored:{missing}", f"isotherm_to_db does not store the metadata {missing}"),
               nontrivial_key=("bool-enc", "stored"))
        if missing:
            continue
        eT, eF = bound["flagT"], bound["flagF"]
        okb = isinstance(eT, str) and isinstance(eF, str) and eT != eF
        ctx.ob(okb, Finding(f"{prop}.{rule}", w.where, "bool-encode:spelling", f"True / False are stored as {eT!r} / {eF!r}; two distinct text spellings required "
                            "(SQLite has no boolean type: 1/0 would come back as numbers)"), nontrivial_key=("bool-enc", "spelling"))
        if okb:
            encs.add((eT, eF))
        for nm in ("one", "zero", "text"):
            v = bound[nm]
            same = I.py_eq(v, props[nm]) is True and not isinstance(v, bool) and type(v) is type(props[nm])
            ctx.ob(same, Finding(f"{prop}.{rule}", w.where, f"bool-encode:{nm}-stored-as-{v!r}",
                                 f"the metadata value {props[nm]!r} is stored as {v!r}: a number equal to 1 / 0 (or a text) is not a boolean and must "
                                 "come back as what it was (the retrieved isotherm would differ from the stored one)"),
                   nontrivial_key=("bool-enc", nm))
    if len(encs) != 1:
        return
    eT, eF = next(iter(encs))
    others = [x for x in ("true", "True", "false", "False", "tRuE", "other", "1", "0", "TRUE", "FALSE") if x not in (eT, eF)]
    for enc, want in [(eT, True), (eF, False)] + [(x, x) for x in others]:
        outs = I.explore(lambda I: I.call_func(f, [enc], {}, None))
        ok = len(outs) == 1 and outs[0].kind == "ok" and outs[0].value == want and (outs[0].value is want or isinstance(want, str))
        ctx.ob(ok, Finding(f"{prop}.{rule}", f.where, f"bool-decode:{enc}",
                           f"check_SQL_bool({enc!r}) gives {outs[0]!r}; required {want!r}: only the writer's own encodings "
                           f"({eT!r}/{eF!r}) stand for booleans, any other text property must come back as the text it was"),
               nontrivial_key=("bool", enc))


def r_module_state(ctx: Ctx, model, prop="C08", rule="D-path"):
    ctx.rule(f"{rule}(state): store functions write no module-level object except the two name registries "
             "(an undeclared per-process cache makes the outcome depend on earlier calls, not on the file, and is not rolled back with "
             "the transaction)")
    from ..effects import Effects
    eff = Effects(model)
    allowed = {"pygaps.data.ADSORBATE_LIST", "pygaps.data.MATERIAL_LIST"}
    for fi in all_store_functions(model):
        s_ = eff.sum[eff.key(fi)]
        bad = sorted({g for g, _ in s_.gwrites} - allowed)
        ctx.ob(not bad, Finding(f"{prop}.{rule}", fi.where, f"{fi.name}|module-state:{bad}",
                                f"{fi.name} may write the module-level object(s) {bad}: results of later store calls depend on this "
                                "process-local state instead of the database file"),
               nontrivial_key=("modstate", fi.name))


def run(ctx: Ctx):
    model, mach = setup(ctx.root)
    r_module_state(ctx, model)
    mach.cell_values[("isotherm_properties", "type")] = "iso_type"
    mach.cell_values[("isotherm_properties", "value")] = "USERVALUE"
    ctx.assume("SQLite enforces UNIQUE / NOT NULL / FOREIGN KEY (with PRAGMA foreign_keys = ON) as declared")
    r_ddl(ctx, model, mach)
    r_collation(ctx, mach)
    r_paths(ctx, model, mach)
    r_autoinsert(ctx, model, mach)
    r_lists(ctx, model, mach)
    r_pairing(ctx, model, mach)
    r_bool(ctx, model, mach)
    ctx.analysed["tables"] = sorted(mach.tables)
    ctx.extra["exhaustive"] = True


META = {
    "technique": "DDL constraint/foreign-key lint + abstract SQL traces of every store function per call shape (bound values rec"
                 "orded: row-id provenance, boolean encoding, isotherm types) + writer/reader agreement on pinned multi-row resu"
                 "lts (regrouping, pairing by id)",
    "level_text": "Static: the schema is parsed for the UNIQUE/FK/NOT NULL constraints that make SQLite refuse duplicates "
                  "and unknown references; every with_connection function is abstractly interpreted for each way of "
                  "passing db_path and each abstract database answer, checking the file opened, FK enforcement first, no "
                  "registry-guarded writes, refusal-before-write and child-before-parent deletes, complete result-set "
                  "consumption and that bookkeeping columns never reach a constructor (with an adversarial user property "
                  "of the same name). Arbitrary interleavings vs a dictionary model are not decided.",
    "level_note": "Trusted: SQLite constraint enforcement. Not decided: histories (needs execution), column affinity / value "
                  "type fidelity.",
}
