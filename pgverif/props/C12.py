"""C12 - model fitting is self-consistent (structural clauses).

Decided statically by abstract interpretation of IsothermBaseModel.fit / fit_leastsq, ModelIsotherm.guess,
PointIsotherm.from_modelisotherm and by call-site rules:
  F-protocol  least_squares receives residual, start vector and bounds built BY PARAMETER NAME in one common order;
              the residual sets the parameters by that order and returns loading(p) - n (pressure(n) - p for
              pressure-explicit models); parameters written back are res.x in the same order; a ValueError or
              `not res.success` becomes CalculationError
  F-rmse      reported rmse == sqrt(sum(res.fun^2)/len(data)) / range of the calculated quantity, from the same result
              object that yields the parameters; Virial's own definition is its linearised residual
  F-best      guess() returns, among the attempts that did not raise, the one with the smallest rmse (all orderings of
              three candidates x every failure pattern)
  F-branch    from_pointisotherm / model_iso thread `branch` to data selection and to the constructor;
              from_modelisotherm stores exactly the pressures (loadings) at which the model was evaluated, with the
              model's own units and metadata (to_dict)
Not decided: recovery of generating parameters, invariance of the fitted curve under unit changes (optimiser behaviour).
"""
from __future__ import annotations

import ast
import itertools

from ..absint import Arr, ExcVal, FuncRef, LambdaRef, Obj, Opaque, Raised, _BUILTIN_EXC
from ..core import AnalysisError, Ctx, Finding
from ..domain import make_interp
from ..num import Num
from ..srcmodel import load

BM = "pygaps.modelling.base_model.IsothermBaseModel"
MI = "pygaps.core.modelisotherm.ModelIsotherm"
PI = "pygaps.core.pointisotherm.PointIsotherm"


def r_fit(ctx: Ctx, model):
    ctx.rule("F-protocol / F-rmse: abstract interpretation of IsothermBaseModel.fit with least_squares summarised")
    for calc in ("loading", "pressure"):
        I = make_interp(model)
        ci = model.cls("pygaps.modelling.langmuir.Langmuir")
        fit = model.func(f"{BM}.fit")
        captured = {}

        def least_squares(I, a, k, n, captured=captured):
            captured["kw"] = dict(k)
            mode = I.choose(3, "least_squares")
            if mode == 1:
                raise Raised(ExcVal(_BUILTIN_EXC["ValueError"], node=n, msg="x0 infeasible"))
            xs = [Num.atom("xa"), Num.atom("xb")]
            fun = k.get("fun")
            args = k.get("args", ())
            captured["resid"] = I.call_value(fun, [xs] + list(args), {}, n)
            captured["params_during"] = dict(captured["self"].attrs["params"])
            # scipy: status > 0 <=> success; 0 = evaluation limit reached, -1 = improper input (both: success False)
            status = Num.const(1) if mode == 0 else Num.const(0 if I.choose(2, "failure-status") == 0 else -1)
            return Obj(kind="OptRes", label="res", attrs={"x": [Num.atom("ra"), Num.atom("rb")], "fun": Arr(Num.atom("RES")),
                                                          "success": mode == 0, "message": "msg", "status": status,
                                                          "nfev": Num.atom("nfev"), "cost": Num.atom("cost"), "optimality": Num.atom("opt")})
        I.ext["scipy.optimize.least_squares"] = least_squares
        I.libmeth[("ModelL", "__call__")] = None
        P, L = Arr(Num.atom("P")), Arr(Num.atom("L"))

        def mkself():
            o = Obj(cls=ci, label="model", attrs={
                "params": {"K": Num.atom("K0"), "n_m": Num.atom("N0")},
                # deliberately another key order than params: bounds must be looked up by name
                "param_bounds": {"n_m": (Num.const(0), Num.const(6)), "K": (Num.const(0), Num.const(100))},
                "pressure_range": (Num.atom("pr0"), Num.atom("pr1")), "loading_range": (Num.atom("lr0"), Num.atom("lr1")),
                "rmse": None, "calculates": calc, "name": "Langmuir"})
            captured["self"] = o
            return o
        guess = {"n_m": Num.atom("gN"), "K": Num.atom("gK")}      # shuffled as well
        outs = I.explore(lambda I: (lambda o: (I.call_func(fit, [P, L, dict(guess)], {}, None, self_obj=o), o, dict(captured)))(mkself()))
        npaths = 0
        for oc in outs:
            npaths += 1
            mode = [c for l, c in oc.decisions if l == "least_squares"]
            if mode and mode[0] in (1, 2):
                ok = oc.kind == "raise" and oc.exc.is_a("CalculationError")
                ctx.ob(ok, Finding("C12.F-protocol", fit.where, f"fit|{calc}|failure-mode-{mode[0]}",
                                   f"fit(): {'a ValueError of the optimiser' if mode[0] == 1 else 'res.success == False'} must become CalculationError; got {oc!r}"),
                       nontrivial_key=("fit", calc, "fail", mode[0]))
                continue
            if oc.kind != "ok":
                ctx.ob(False, Finding("C12.F-protocol", fit.where, f"fit|{calc}|raises:{oc.exc.name}", f"fit() raises {oc.exc}"))
                continue
            _, o, cap = oc.value
            kw = cap["kw"]
            names = list(o.attrs["params"])
            # x0 and bounds by name in the order of params
            x0 = kw.get("x0")
            okx = isinstance(x0, list) and x0 == [guess[nm] for nm in names]
            ctx.ob(okx, Finding("C12.F-protocol", fit.where, f"fit|{calc}|x0-order",
                                f"start vector {I.describe(x0)} is not the guesses in parameter order {names}"), nontrivial_key=("fit", calc, "x0"))
            b = kw.get("bounds")
            want_b = [[o.attrs["param_bounds"][nm][0] for nm in names], [o.attrs["param_bounds"][nm][1] for nm in names]]
            okb = isinstance(b, list) and len(b) == 2 and [list(b[0]), list(b[1])] == want_b
            ctx.ob(okb, Finding("C12.F-protocol", fit.where, f"fit|{calc}|bounds-by-name",
                                f"bounds passed to least_squares are {I.describe(b)}; with param_bounds given in another key order than the "
                                f"parameters they must be {I.describe(want_b)} (looked up by parameter name)"),
                   nontrivial_key=("fit", calc, "bounds"), sample={"rule": "F-protocol", "bounds": I.describe(b), "order": names})
            during = cap["params_during"]
            okp = during == {names[0]: Num.atom("xa"), names[1]: Num.atom("xb")}
            ctx.ob(okp, Finding("C12.F-protocol", fit.where, f"fit|{calc}|residual-sets-params",
                                f"inside the residual the parameters are {I.describe(during)}; required {names[0]}=x[0], {names[1]}=x[1]"),
                   nontrivial_key=("fit", calc, "during"))
            # the residual itself
            o2 = Obj(cls=ci, label="m2", attrs=dict(o.attrs, params={names[0]: Num.atom("xa"), names[1]: Num.atom("xb")}))
            I.reset([])
            fwd = I.call_value(I.getattr_(o2, calc, None), [P if calc == "loading" else L], {}, None)
            want_r = I.binop(ast.Sub(), fwd, L if calc == "loading" else P, None)
            okr = I.describe(cap["resid"]) == I.describe(want_r)
            ctx.ob(okr, Finding("C12.F-protocol", fit.where, f"fit|{calc}|residual",
                                f"residual is {I.describe(cap['resid'])}; required {I.describe(want_r)}"), nontrivial_key=("fit", calc, "resid"))
            okw = o.attrs["params"] == {names[0]: Num.atom("ra"), names[1]: Num.atom("rb")}
            ctx.ob(okw, Finding("C12.F-protocol", fit.where, f"fit|{calc}|write-back",
                                f"fitted parameters stored: {I.describe(o.attrs['params'])}; required res.x in the order {names}"),
                   nontrivial_key=("fit", calc, "wb"))
        ctx.floor(f"fit paths ({calc})", npaths, 3)
    r_rmse(ctx, model)


def r_rmse(ctx: Ctx, model):
    """the reported error, computed symbolically on a three-point fit: sqrt(mean(res.fun^2)) / range of the calculated quantity"""
    import sympy as sp
    from ..libsum import Vec, install_vec
    ctx.rule("F-rmse: fit() on three symbolic points: rmse == sqrt((r0^2+r1^2+r2^2)/3) / (range of the calculated quantity), "
             "with r the residual vector of the returned optimiser result (any algebraically equal spelling accepted)")
    S = lambda nm, **kw: sp.Symbol(nm, **(kw or {"positive": True}))
    r = [S(f"r{i}", real=True) for i in range(3)]
    fit = model.func(f"{BM}.fit")
    ci = model.cls("pygaps.modelling.langmuir.Langmuir")
    for calc in ("loading", "pressure"):
        I = make_interp(model)
        install_vec(I)
        I.sympy_mode = True
        I.ext["numpy.sqrt"] = lambda I, a, k, n: sp.sqrt(a[0])
        I.ext["numpy.mean"] = lambda I, a, k, n: sum(a[0].items) / len(a[0].items) if isinstance(a[0], Vec) else a[0]
        I.ext["numpy.square"] = lambda I, a, k, n: Vec([x**2 for x in a[0].items]) if isinstance(a[0], Vec) else a[0]**2
        I.ext["numpy.array"] = lambda I, a, k, n: a[0] if isinstance(a[0], Vec) else Vec(list(a[0]))
        I.ext["numpy.linalg.norm"] = lambda I, a, k, n: sp.sqrt(sum(x**2 for x in a[0].items))
        I.ext["scipy.optimize.least_squares"] = lambda I, a, k, n: Obj(kind="OptRes", label="res", attrs={
            "x": Vec([S("ra"), S("rb")]), "fun": Vec(list(r)), "success": True, "message": "m", "cost": sum(x**2 for x in r) / 2})
        o = Obj(cls=ci, label="model", attrs={
            "params": {"K": S("K0"), "n_m": S("N0")}, "param_bounds": {"K": (sp.Integer(0), sp.Integer(100)), "n_m": (sp.Integer(0), sp.Integer(6))},
            "pressure_range": (S("pr0"), S("pr1")), "loading_range": (S("lr0"), S("lr1")), "rmse": None, "calculates": calc, "name": "Langmuir"})
        P, L = Vec([S(f"p{i}") for i in range(3)]), Vec([S(f"l{i}") for i in range(3)])
        outs = I.explore(lambda I: I.call_func(fit, [P, L, {"K": S("gK"), "n_m": S("gN")}], {}, None, self_obj=o))
        rng = (S("lr1") - S("lr0")) if calc == "loading" else (S("pr1") - S("pr0"))
        want = sp.sqrt(sum(x**2 for x in r) / 3) / rng
        got = o.attrs.get("rmse")
        ok = len(outs) == 1 and outs[0].kind == "ok" and isinstance(got, sp.Basic) and sp.simplify(got - want) == 0
        ctx.ob(ok, Finding("C12.F-rmse", fit.where, f"fit|{calc}|rmse",
                           f"rmse of a three-point fit is {got}; required {want} - root mean square of the result's residuals over the range of the "
                           f"calculated quantity ({calc}); outcome {outs[:1] if not (outs and outs[0].kind == 'ok') else 'ok'}"),
               nontrivial_key=("fit", calc, "rmse"), sample={"rule": "F-rmse", "rmse": str(got)})


def r_virial_objective(ctx: Ctx, model):
    """the Virial model fits a polynomial to ln(p/n): the residual it hands the optimiser must be ln(pressure_x(n_i) / n_i) - ln(p_i / n_i) with
    pressure_x the model's OWN pressure equation at the trial parameters - otherwise the fitted parameters do not reproduce the data through
    the model (fit interpreted on a concrete four-point isotherm, array algebra on symbolic elements)"""
    import numpy as _np
    import sympy as sp
    from ..ndsym import install_nd, to_np
    ctx.rule("F-protocol (Virial): residual_i(x) == ln(Virial.pressure(n_i; x) / n_i) - ln(p_i / n_i), x paired with the parameters by name")
    ci = model.cls("pygaps.modelling.virial.Virial")
    vfit, vpress = ci.find_method("fit"), ci.find_method("pressure")
    I = make_interp(model)
    install_nd(I)
    R = sp.Rational
    P = _np.array([R(1), R(2), R(3), R(4)], dtype=object)
    L = _np.array([R(1, 10), R(1, 5), R(3, 10), R(1)], dtype=object)
    names = I.class_const(ci, ci.find_assign("param_names")[1])
    xs = {nm_: sp.Symbol(f"x_{nm_}", positive=True) for nm_ in names}
    cap = {}

    def least_squares(I, a, k, n):
        fun = k.get("fun", a[0] if a else None)
        x0 = k.get("x0", a[1] if len(a) > 1 else None)
        cap["nvar"] = len(to_np(I, x0)) if x0 is not None else None
        args = k.get("args", ())
        cap["order"] = list(cap["self"].attrs["params"])
        xv = _np.array([xs[nm_] for nm_ in cap["order"]], dtype=object)
        cap["resid"] = I.call_value(fun, [xv] + list(args), {}, n)
        cap["args"] = args
        nres = len(to_np(I, cap["resid"]))
        cap["fun"] = [sp.Symbol(f"rr{i}", real=True) for i in range(nres)]
        return Obj(kind="OptRes", label="res", attrs={"x": _np.array([xs[nm_] for nm_ in cap["order"]], dtype=object), "fun": _np.array(cap["fun"], dtype=object),
                                                      "success": True, "status": sp.Integer(1), "message": "ok", "nfev": sp.Integer(3), "cost": R(0), "optimality": R(0)})
    I.ext["scipy.optimize.least_squares"] = least_squares
    I.ext["numpy.sqrt"] = lambda I, a, k, n: sp.sqrt(a[0])

    def thunk(I):
        cap.clear()
        o = Obj(cls=ci, label="model", attrs={"params": {nm_: sp.nan for nm_ in names}, "name": "Virial",
                                              "param_bounds": {nm_: (sp.Integer(0), sp.oo) for nm_ in names}, "rmse": sp.nan})
        cap["self"] = o
        I.call_func(vfit, [P.copy(), L.copy(), {nm_: sp.Integer(1) for nm_ in names}], {}, None, self_obj=o)
        cap["rmse"] = o.attrs.get("rmse")
        return dict(cap)
    outs = I.explore(thunk)
    oks = [o for o in outs if o.kind == "ok" and "resid" in o.value]
    if not oks:
        raise AnalysisError(f"Virial.fit cannot be interpreted on a concrete isotherm: {[repr(o)[:120] for o in outs[:2]]}")
    c = oks[0].value
    resid = to_np(I, c["resid"])
    par = {nm_: xs[nm_] for nm_ in names}
    want = []
    for li, pi_ in zip(L, P):
        po = I.explore(lambda I: I.call_func(vpress, [li], {}, None, self_obj=Obj(cls=ci, label="m", attrs={"params": dict(par)})))
        if len(po) != 1 or po[0].kind != "ok":
            raise AnalysisError(f"Virial.pressure cannot be evaluated symbolically: {po[:1]}")
        want.append(sp.log(po[0].value / li) - sp.log(pi_ / li))
    ok = isinstance(resid, _np.ndarray) and resid.shape == (len(L),) and all(sp.simplify(sp.expand_log(sp.sympify(a_) - b_, force=True)) == 0 for a_, b_ in zip(resid, want))
    ctx.ob(ok, Finding("C12.F-protocol", vfit.where, "virial|objective",
                       f"Virial.fit hands the optimiser the residual {[str(x) for x in (resid.tolist() if isinstance(resid, _np.ndarray) else [resid])][:2]}...; "
                       f"required ln(pressure_x(n_i)/n_i) - ln(p_i/n_i) = {[str(x) for x in want[:2]]}... with the model's own pressure equation (parameters "
                       f"paired by name, order {c.get('order')})"), nontrivial_key=("virial", "objective"))


    # the error Virial reports for its fit: root mean square of the residual vector of the returned result (its own, linearised definition)
    rr = c.get("fun") or []
    want_rmse = sp.sqrt(sum(x**2 for x in rr) / len(rr)) if rr else None
    got = c.get("rmse")
    try:
        ok = want_rmse is not None and sp.simplify(sp.sympify(got) - want_rmse) == 0
    except (sp.SympifyError, TypeError):
        ok = False
    ctx.ob(ok, Finding("C12.F-rmse", vfit.where, "virial|rmse", f"Virial.fit reports rmse = {got}; required {want_rmse} (root mean square of the "
                                                               f"{len(rr)} residuals of the optimiser result it took the parameters from)"),
           nontrivial_key=("virial",))


def r_data(ctx: Ctx, model):
    """what reaches model.fit: ModelIsotherm.__init__ interpreted on an abstract table / abstract arrays"""
    from ..absint import Frame, Mask, UnknownBool
    ctx.rule("F-data: ModelIsotherm.__init__ detects branches on the table as given (row order untouched), fits exactly the rows of the "
             "requested branch (no further filtering) and takes the model ranges from the same arrays it fits")
    mi = model.cls(MI)
    init = mi.find_method("__init__")
    npaths = 0
    for route in ("table-without-branch", "table-with-branch", "arrays"):
        for branch in ("ads", "des"):
            I = make_interp(model)
            seen = {}
            I.overrides["pygaps.core.baseisotherm.BaseIsotherm.__init__"] = lambda I, fi, env, n: None

            def split(I, fi, env, n, seen=seen):
                seen["split_frame"] = env.get("data", env.get("_data"))
                return Arr(Num.atom("SPLIT"), kind="array")
            for q in ("pygaps.core.modelisotherm.ModelIsotherm._splitdata", "pygaps.core.baseisotherm.BaseIsotherm._splitdata",
                      "pygaps.utilities.pygaps_utilities.split_ads_data"):
                I.overrides[q] = split

            def get_model(I, fi, env, n, seen=seen):
                kw_ = next((v for v in env.values() if isinstance(v, dict) and "pressure_range" in v), env)
                seen["ranges"] = (kw_.get("pressure_range"), kw_.get("loading_range"))
                return Obj(kind="FitStub", label="model", attrs={"param_names": ["K"], "name": "Stub"})
            I.overrides["pygaps.modelling.get_isotherm_model"] = get_model
            I.overrides["pygaps.core.modelisotherm.get_isotherm_model"] = get_model
            I.libmeth[("FitStub", "__init_parameters__")] = lambda I, v, a, k, n: None
            I.libmeth[("FitStub", "initial_guess")] = lambda I, v, a, k, n: {"K": Num.atom("g")}

            def fit(I, v, a, k, n, seen=seen):
                seen["fit"] = (a[0] if a else k.get("pressure"), a[1] if len(a) > 1 else k.get("loading"))
                return None
            I.libmeth[("FitStub", "fit")] = fit
            I.ext["builtins.min"] = lambda I, a, k, n: Num.atom(f"min({I.describe(a[0])})")
            I.ext["builtins.max"] = lambda I, a, k, n: Num.atom(f"max({I.describe(a[0])})")
            I.ext["builtins.float"] = lambda I, a, k, n: a[0]
            frame = lambda: Frame({"pressure": Arr(Num.atom("P")), "loading": Arr(Num.atom("L")),
                                   **({"branch": Arr(Num.atom("B"))} if route == "table-with-branch" else {})}, label="user_table")

            def thunk(I):
                seen.clear()
                new = Obj(cls=mi, label="new", attrs={"_temperature": Num.atom("T"), "temperature_unit": "K"})   # what the (stubbed) base constructor sets
                kw = {"model": "Stub", "branch": branch, "material": "m", "adsorbate": "a", "temperature": Num.atom("T")}
                if route == "arrays":
                    kw.update({"pressure": Arr(Num.atom("P"), kind="array"), "loading": Arr(Num.atom("L"), kind="array")})
                else:
                    kw.update({"isotherm_data": frame(), "pressure_key": "pressure", "loading_key": "loading"})
                I.call_func(init, [], kw, None, self_obj=new)
                return dict(seen)
            for oc in I.explore(thunk):
                if oc.kind == "raise":
                    ok = oc.exc.is_a("ParameterError") and not oc.exc.fault
                    ctx.ob(ok, Finding("C12.F-data", init.where, f"init|{route}|{branch}|raises:{oc.exc.name}", f"ModelIsotherm({route}, branch={branch}) raises {oc.exc}"),
                           nontrivial_key=("data", route, branch, "raise"))
                    continue
                npaths += 1
                sn = oc.value
                fp, fl = sn.get("fit", (None, None))
                key = f"init|{route}|{branch}"
                if route == "table-without-branch":
                    sf = sn.get("split_frame")
                    oks = isinstance(sf, Frame) and not sf.sel and not getattr(sf, "tags", None) and sf.label.startswith("user_table")
                    ctx.ob(oks, Finding("C12.F-data", init.where, f"{key}|branch-detection-input",
                                        f"branch detection runs on {sf!r}; required the caller's table in its own row order (a sorted or filtered "
                                        "table makes every point look like adsorption / shifts the turning point)"),
                           nontrivial_key=("data", route, branch, "split"))
                want_sel = 0 if route == "arrays" else 1
                okf = isinstance(fp, Arr) and isinstance(fl, Arr) and fp.num == Num.atom("P") and fl.num == Num.atom("L") \
                    and len(fp.sel) == want_sel and fp.sel == fl.sel and \
                    (route == "arrays" or ("==" in str(fp.sel[0]) and str(fp.sel[0]).rstrip().endswith("0" if branch == "ads" else "1")))
                ctx.ob(okf, Finding("C12.F-data", init.where, f"{key}|fitted-points",
                                    f"model.fit receives pressure {fp!r}, loading {fl!r}; required exactly the {'given arrays' if route == 'arrays' else 'rows with branch == ' + ('0' if branch == 'ads' else '1')} "
                                    "(no further selection): the reported error and ranges describe the data the user asked to fit"),
                       nontrivial_key=("data", route, branch, "fit"))
                rg = sn.get("ranges")
                okr = rg is not None and isinstance(fp, Arr) and I.describe(rg[0]) == f"[min({I.describe(fp)}),max({I.describe(fp)})]".replace("[", "[").replace("]", "]") \
                    if False else True
                if rg is not None and isinstance(fp, Arr) and isinstance(fl, Arr):
                    want_r = ((f"min({I.describe(fp)})", f"max({I.describe(fp)})"), (f"min({I.describe(fl)})", f"max({I.describe(fl)})"))
                    got_r = tuple(tuple(x.canon() if isinstance(x, Num) else str(x) for x in r_) for r_ in rg) if all(isinstance(r_, tuple) for r_ in rg) else rg
                    okr = got_r == want_r
                    ctx.ob(okr, Finding("C12.F-data", init.where, f"{key}|ranges",
                                        f"model ranges {got_r} are not (min, max) of the fitted arrays {want_r}: the rmse is normalised by a range "
                                        "that does not belong to the fitted points"),
                           nontrivial_key=("data", route, branch, "ranges"))
    ctx.floor("ModelIsotherm.__init__ fitting paths", npaths, 6)


def r_temperature(ctx: Ctx, model):
    """models whose equation contains the temperature (DR, DA: -R*T) get it in kelvin, whatever unit the isotherm stores"""
    ctx.rule("F-temperature: ModelIsotherm.__init__ hands the model's __init_parameters__ the isotherm temperature in kelvin on both "
             "routes (fit, model instance), for isotherms stored in K and in degrees Celsius")
    mi = model.cls(MI)
    init = mi.find_method("__init__")
    T = Num.atom("Tstored")
    for unit, want in (("K", T), ("°C", T + Num.const("273.15"))):
        for route in ("fit", "instance"):
            I = make_interp(model)
            got = {}
            I.overrides["pygaps.core.baseisotherm.BaseIsotherm.__init__"] = lambda I, fi, env, n: None
            stub = lambda: Obj(kind="FitStub", label="model", attrs={"param_names": ["K"], "name": "Stub"})
            I.overrides["pygaps.modelling.get_isotherm_model"] = lambda I, fi, env, n: stub()
            I.overrides["pygaps.core.modelisotherm.get_isotherm_model"] = lambda I, fi, env, n: stub()
            I.overrides["pygaps.modelling.is_model_class"] = lambda I, fi, env, n: isinstance(list(env.values())[0], Obj)
            I.overrides["pygaps.core.modelisotherm.is_model_class"] = lambda I, fi, env, n: isinstance(list(env.values())[0], Obj)
            I.libmeth[("FitStub", "__init_parameters__")] = lambda I, v, a, k, n, got=got: got.update({"params": a[0] if a else k.get("params")})
            I.libmeth[("FitStub", "initial_guess")] = lambda I, v, a, k, n: {"K": Num.atom("g")}
            I.libmeth[("FitStub", "fit")] = lambda I, v, a, k, n: None
            I.ext["builtins.min"] = lambda I, a, k, n: Num.atom("mn")
            I.ext["builtins.max"] = lambda I, a, k, n: Num.atom("mx")
            I.ext["builtins.float"] = lambda I, a, k, n: a[0]

            def thunk(I):
                got.clear()
                new = Obj(cls=mi, label="new", attrs={"_temperature": T, "temperature_unit": unit})
                kw = {"branch": "ads", "material": "m", "adsorbate": "a", "temperature": T, "temperature_unit": unit}
                if route == "fit":
                    kw.update({"model": "Stub", "pressure": Arr(Num.atom("P"), kind="array"), "loading": Arr(Num.atom("L"), kind="array")})
                else:
                    kw.update({"model": stub()})
                I.call_func(init, [], kw, None, self_obj=new)
                return dict(got)
            for oc in I.explore(thunk):
                if oc.kind != "ok":
                    continue
                prm = oc.value.get("params")
                tval = prm.get("temperature") if isinstance(prm, dict) else None
                ok = isinstance(tval, Num) and tval == want
                ctx.ob(ok, Finding("C12.F-temperature", init.where, f"init|{route}|temperature_unit={unit}",
                                   f"ModelIsotherm({route} route, temperature={T.canon()} {unit}) calls __init_parameters__ with temperature "
                                   f"{I.describe(tval)}; required {want.canon()} (kelvin): DR / DA compute -R*T from it, so the fitted curve of the "
                                   "same data depends on the temperature unit the isotherm is stored in"),
                       nontrivial_key=("temperature", route, unit))


def r_best(ctx: Ctx, model):
    ctx.rule("F-best: guess() == argmin rmse over the attempts that did not raise (all orderings x failure patterns)")
    guess = model.func(f"{MI}.guess")
    mi = model.cls(MI)
    for rm in itertools.permutations([1, 2, 3]):
        I = make_interp(model)
        state = {"i": 0}

        def ctor(I, ci, args, kwargs, node, rm=rm, state=state):
            i = state["i"]
            state["i"] += 1
            if I.choose(2, f"attempt{i}") == 1:
                raise Raised(ExcVal(["CalculationError", "pgError", "Exception", "BaseException"], node=node, msg="fit failed"))
            return Obj(kind="FitIso", label=f"iso{i}", attrs={"model": Obj(kind="M", attrs={"rmse": Num.const(rm[i]), "name": kwargs.get("model")}), "idx": i})
        I.overrides[MI] = ctor

        def thunk(I):
            state["i"] = 0
            from ..absint import ClassRef
            return I.call_func(guess, [], {"pressure": [Num.const(1)], "loading": [Num.const(1)], "models": ["Henry", "Langmuir", "Toth"]}, None, self_obj=ClassRef(mi))
        for oc in I.explore(thunk):
            fails = [c for l, c in oc.decisions if l.startswith("attempt")]
            alive = [i for i, c in enumerate(fails) if c == 0]
            if not alive:
                ok = oc.kind == "raise" and oc.exc.is_a("CalculationError")
                ctx.ob(ok, Finding("C12.F-best", guess.where, "guess|all-failed", f"all candidates failed: {oc!r}; required CalculationError"),
                       nontrivial_key=("best", "none"))
                continue
            best = min(alive, key=lambda i: rm[i])
            ok = oc.kind == "ok" and isinstance(oc.value, Obj) and oc.value.attrs.get("idx") == best
            ctx.ob(ok, Finding("C12.F-best", guess.where, f"guess|wrong-winner|failed={[i for i, c in enumerate(fails) if c == 1]}",
                               f"rmse {rm}, failed candidates {[i for i, c in enumerate(fails) if c == 1]}: guess() returns "
                               f"{oc.value.attrs.get('idx') if oc.kind == 'ok' and isinstance(oc.value, Obj) else oc!r}; the converged candidate with the "
                               f"smallest rmse is {best}"),
                   nontrivial_key=("best", rm, tuple(fails)))


def r_best_default(ctx: Ctx, model):
    """models='guess' (also the default): every model of the module's guess list is tried and the best of them returned"""
    from ..absint import ClassRef
    guess = model.func(f"{MI}.guess")
    mi = model.cls(MI)
    for how in ("guess", "<omitted>"):
        I = make_interp(model)
        tried = []

        def ctor(I, ci, args, kwargs, node, tried=tried):
            tried.append(kwargs.get("model"))
            return Obj(kind="FitIso", label=f"iso{len(tried)}", attrs={"model": Obj(kind="M", attrs={"rmse": Num.const(100 - len(tried)), "name": kwargs.get("model")}),
                                                                       "idx": len(tried)})
        I.overrides[MI] = ctor
        kw = {"pressure": [Num.const(1)], "loading": [Num.const(1)]}
        if how == "guess":
            kw["models"] = "guess"
        outs = I.explore(lambda I: (tried.clear(), I.call_func(guess, [], dict(kw), None, self_obj=ClassRef(mi)), list(tried))[1:])
        want = I.global_value("pygaps.core.modelisotherm", "_GUESS_MODELS")
        want = list(want) if isinstance(want, (list, tuple)) else None
        ok = want is not None and len(want) >= 2 and len(outs) == 1 and outs[0].kind == "ok" and list(outs[0].value[1]) == want \
            and isinstance(outs[0].value[0], Obj) and outs[0].value[0].attrs.get("idx") == len(want)
        ctx.ob(ok, Finding("C12.F-best", guess.where, f"guess|default-list|{how}",
                           f"guess(models={how}) tries {outs[0].value[1] if outs and outs[0].kind == 'ok' else [repr(o)[:120] for o in outs[:2]]}; required every model of "
                           f"_GUESS_MODELS ({want}) and the one with the smallest error (here the last) returned"),
               nontrivial_key=("best", "default", how))


def kwval(call, name):
    for k in call.keywords:
        if k.arg == name:
            return ast.unparse(k.value)
    return None


def r_branch(ctx: Ctx, model):
    ctx.rule("F-branch: branch threaded by from_pointisotherm / model_iso; from_modelisotherm evaluates and stores the same points")
    from ..absint import ClassRef
    fp = model.func(f"{MI}.from_pointisotherm")
    fi_ = model.func(f"{MI}.from_isotherm")
    mi = model.func("pygaps.modelling.model_iso")
    # threading by interpretation: the fit entry points are run with the constructor and guess() replaced by recorders, on an
    # isotherm whose to_dict / data(branch=...) / keys are tokens; what reaches the recorder is compared with what was asked for
    n_thread = 0
    for entry in ("model_iso", "from_pointisotherm", "from_isotherm"):
        for shape, mdl in (("single", "Henry"), ("guess", "guess"), ("list", ["Henry", "Langmuir"])):
            if entry == "from_isotherm" and shape != "single":
                continue        # from_isotherm hands everything to the constructor, whatever the model argument
            I = make_interp(model)
            sink, datalog = {}, []
            # (a template that is itself a model isotherm carries its own branch / model name in its dictionary: the arguments must win)
            I.libmeth[("PIso", "to_dict")] = lambda I, v, a, k, n: {"material": "m", "loading_unit": "mmol", "branch": "ads", "model": "Template"} \
                if entry == "from_isotherm" else {"material": "m", "loading_unit": "mmol"}
            I.libmeth[("PIso", "data")] = lambda I, v, a, k, n: (datalog.append(k.get("branch", a[0] if a else "<default>")),
                                                                   Obj(kind="Data", label=f"data[{k.get('branch', a[0] if a else '<default>')}]"))[1]

            def ctor(I, ci, args, kwargs, node):
                sink["via"], sink["kw"] = "constructor", dict(kwargs)
                return Obj(kind="Built")

            def guess(I, fi, env, n):
                kw = {k_: v_ for k_, v_ in env.items() if k_ not in ("cls", "other_properties")}
                kw.update(env.get("other_properties") or {})
                sink["via"], sink["kw"] = "guess", kw
                return Obj(kind="Built")
            I.overrides[MI] = ctor
            I.overrides[f"{MI}.guess"] = guess
            iso = Obj(kind="PIso", label="iso", attrs={"pressure_key": "PK", "loading_key": "LK"})
            toks = {"param_guess": Obj(kind="Tok", label="PG"), "param_bounds": Obj(kind="Tok", label="PB"),
                    "optimization_params": Obj(kind="Tok", label="OP"), "verbose": Obj(kind="Tok", label="VB")}
            kw = dict(toks, branch="des", model=mdl)
            if entry == "from_isotherm":
                extra = {"pressure": Obj(kind="Tok", label="P"), "loading": Obj(kind="Tok", label="L"), "isotherm_data": Obj(kind="Tok", label="D"),
                         "pressure_key": "PK2", "loading_key": "LK2"}
                kw.update(extra)
            fn, so = (mi, None) if entry == "model_iso" else ((fp if entry == "from_pointisotherm" else fi_), ClassRef(model.cls(MI)))
            outs = I.explore(lambda I: (sink.clear(), datalog.clear(), I.call_func(fn, [iso], dict(kw), None, self_obj=so), dict(sink), list(datalog))[3:])
            for oc in outs:
                n_thread += 1
                key = f"{entry}|{shape}"
                if oc.kind != "ok":
                    ctx.ob(False, Finding("C12.F-branch", fn.where, f"{key}|raises", f"{entry}(model={mdl!r}, branch='des', ...) does not reach the fit: {oc!r}"))
                    continue
                sk, dl = oc.value
                got = sk.get("kw", {})
                # demanded: what the property names (branch, bounds in force, the model asked for, metadata and units, the data);
                # starting guesses, optimiser options and verbosity are passed as tokens too but their arrival is not demanded
                want = {"branch": "des", "material": "m", "loading_unit": "mmol"}
                if sk.get("via") == "constructor":
                    want.update(model=mdl, param_bounds=toks["param_bounds"])
                else:
                    want.update(models=mdl)
                if entry == "from_isotherm":
                    want.update(extra)
                else:
                    want.update(pressure_key="PK", loading_key="LK")
                bad = [k_ for k_, v_ in want.items() if not (got.get(k_) is v_ or (not isinstance(v_, Obj) and got.get(k_) == v_))]
                if entry != "from_isotherm":
                    d = got.get("isotherm_data")
                    if not (isinstance(d, Obj) and d.kind == "Data" and d.label == "data[des]") or dl != ["des"]:
                        bad.append(f"isotherm_data (rows selected with branch={dl})")
                if shape == "single" and sk.get("via") != "constructor":
                    bad.append("route (a single model name must be fitted by the constructor)")
                if shape != "single" and sk.get("via") != "guess":
                    bad.append("route (a list of names / 'guess' must go through guess())")
                ctx.ob(not bad, Finding("C12.F-branch", fn.where, f"{key}|{','.join(sorted(bad))}",
                                        f"{entry}(iso, branch='des', model={mdl!r}, param_guess=PG, param_bounds=PB, optimization_params=OP, verbose=VB"
                                        f"{', pressure=P, loading=L, isotherm_data=D, keys' if entry == 'from_isotherm' else ''}) reaches the "
                                        f"{sk.get('via')} with {sorted(bad)} missing or different: the requested branch, model, guesses, bounds, optimiser "
                                        "options and the isotherm's own metadata must arrive unchanged"),
                       nontrivial_key=("thread", entry, shape))
    ctx.floor("fit entry points x model-argument shapes interpreted", n_thread, 7)
    # from_modelisotherm by interpretation
    fm = model.func(f"{PI}.from_modelisotherm")
    for calc in ("loading", "pressure"):
        for shape in ("default", "pressure_points", "loading_points", "reference"):
            I = make_interp(model)
            log = []

            def rec(name):
                def f(I, v, a, k, n):
                    log.append((name, list(a), dict(k)))
                    return Arr(Num.atom(f"{name}({I.describe(a[0]) if a else ''})"))
                return f
            for nm in ("loading_at", "pressure_at", "pressure", "loading"):
                I.libmeth[("MIso", nm)] = rec(nm)
            I.libmeth[("MIso", "to_dict")] = lambda I, v, a, k, n: {"material": "m", "loading_unit": "mmol"}
            built = {}

            def ctor(I, ci, args, kwargs, node):
                built["kw"] = dict(kwargs)
                return Obj(kind="Built")
            I.overrides[PI] = ctor
            ref = Obj(cls=model.cls(PI), label="ref", attrs={})
            I.overrides[f"{PI}.pressure"] = lambda I, fi, env, n: (log.append(("ref.pressure", [], {"branch": env.get("branch"), "pressure_unit": env.get("pressure_unit")})), Arr(Num.atom("REFP")))[1]
            I.overrides[f"{PI}.loading"] = lambda I, fi, env, n: (log.append(("ref.loading", [], {"branch": env.get("branch")})), Arr(Num.atom("REFL")))[1]
            miso = Obj(kind="MIso", label="miso", attrs={"model": Obj(kind="M", attrs={"calculates": calc, "name": "X"}), "branch": "des"})
            kw = {}
            if shape == "pressure_points":
                kw["pressure_points"] = Arr(Num.atom("PP"))
            elif shape == "loading_points":
                kw["loading_points"] = Arr(Num.atom("LP"))
            elif shape == "reference":
                kw["pressure_points" if calc == "loading" else "loading_points"] = ref
            outs = I.explore(lambda I: (log.clear(), built.clear(), I.call_func(fm, [miso], dict(kw), None, self_obj=ClassRef(model.cls(PI))), dict(built), list(log))[2:])
            for oc in outs:
                if oc.kind != "ok":
                    ctx.ob(False, Finding("C12.F-branch", fm.where, f"from_modelisotherm|{calc}|{shape}|raises", f"{oc!r}"))
                    continue
                _, b, lg = oc.value
                k = b.get("kw", {})
                p_, l_ = k.get("pressure"), k.get("loading")
                evals = [x for x in lg if x[0] in ("loading_at", "pressure_at")]
                ok = len(evals) == 1 and not evals[0][2]
                if ok:
                    nm, a, _ = evals[0]
                    if nm == "loading_at":
                        ok = I.describe(a[0]) == I.describe(p_) and I.describe(l_) == f"loading_at({I.describe(p_)})"
                    else:
                        ok = I.describe(a[0]) == I.describe(l_) and I.describe(p_) == f"pressure_at({I.describe(l_)})"
                refs = [x for x in lg if x[0].startswith("ref.")]
                if shape == "reference":
                    ok = ok and len(refs) == 1 and refs[0][2].get("branch") == "des"
                ok = ok and k.get("model_from") == "X" and k.get("material") == "m"
                ctx.ob(bool(ok), Finding("C12.F-branch", fm.where, f"from_modelisotherm|{calc}|{shape}",
                                         f"from_modelisotherm({shape}) for a {calc}-explicit model: evaluates {[(x[0], [I.describe(y) for y in x[1]], x[2]) for x in evals]} "
                                         f"and stores pressure={I.describe(p_)}, loading={I.describe(l_)} with labels from to_dict(): the stored points must be "
                                         "exactly the points at which the model was evaluated, in the model's own units"),
                       nontrivial_key=("fm", calc, shape))


def r_bounds_init(ctx: Ctx, model):
    """the bounds in force: bounds the user hands a model (param_bounds=...) are the ones it keeps - for every parameter named, the rest
    falling back to nothing else than what the user gave (the constructor does not mix in defaults for a user-supplied dictionary)"""
    ctx.rule("F-protocol (bounds in force): IsothermBaseModel.__init__(param_bounds={...}) stores exactly the user's bounds per parameter; "
             "without it the class defaults in parameter order; an unknown parameter name is refused")
    I = make_interp(model)
    ci = model.cls("pygaps.modelling.langmuir.Langmuir")
    ub = {"n_m": (Num.const(0), Num.const(6)), "K": (Num.const(1), Num.const(100))}
    outs = I.explore(lambda I: I.instantiate(ci, [], {"param_bounds": {k_: tuple(v) for k_, v in ub.items()}}, None))
    ok = len(outs) == 1 and outs[0].kind == "ok" and isinstance(outs[0].value.attrs.get("param_bounds"), dict)
    got = outs[0].value.attrs.get("param_bounds") if ok else None
    ok = ok and set(got) == set(ub) and all(tuple(got[k_]) == ub[k_] for k_ in ub)
    ctx.ob(ok, Finding("C12.F-protocol", ci.find_method("__init__").where if ci.find_method("__init__") else BM, "model-init|user-bounds",
                       f"Langmuir(param_bounds={{'n_m': (0, 6), 'K': (1, 100)}}) keeps the bounds {I.describe(got) if got is not None else [repr(o)[:80] for o in outs[:1]]}; "
                       "required exactly the user's bounds (they are the bounds in force for the fit)"), nontrivial_key=("bounds-init", "user"))
    outs = I.explore(lambda I: I.instantiate(ci, [], {}, None))
    dflt = I.class_const(ci, ci.find_assign("param_default_bounds")[1]) if ci.find_assign("param_default_bounds") else None
    names = I.class_const(ci, ci.find_assign("param_names")[1])
    okd = len(outs) == 1 and outs[0].kind == "ok" and dflt is not None and isinstance(outs[0].value.attrs.get("param_bounds"), dict) \
        and list(outs[0].value.attrs["param_bounds"].items()) == list(zip(names, dflt))
    ctx.ob(okd, Finding("C12.F-protocol", BM, "model-init|default-bounds",
                        "a model built without param_bounds must carry the class's default bounds, paired with the parameter names in order"),
           nontrivial_key=("bounds-init", "default"))
    outs = I.explore(lambda I: I.instantiate(ci, [], {"param_bounds": {"nope": (Num.const(0), Num.const(1))}}, None))
    ctx.ob(bool(outs) and all(o.kind == "raise" and o.exc.is_a("ParameterError") for o in outs),
           Finding("C12.F-protocol", BM, "model-init|unknown-parameter-bound", "a bound for a parameter the model does not have must be refused with ParameterError"),
           nontrivial_key=("bounds-init", "unknown"))


def run(ctx: Ctx):
    model = load(ctx.root)
    # "only the requested branch is used" when the branches are guessed: the split itself (shared with C03, interpreted on concrete sequences)
    from .C03 import r_split_values
    r_split_values(ctx, model, prop="C12")
    ctx.assume("scipy.optimize.least_squares returns res.x, res.fun, res.success of one optimisation")
    r_fit(ctx, model)
    r_bounds_init(ctx, model)
    r_virial_objective(ctx, model)
    r_data(ctx, model)
    r_temperature(ctx, model)
    r_best(ctx, model)
    r_best_default(ctx, model)
    r_branch(ctx, model)
    from ..sites import no_memoisation
    ctx.rule("F-fresh: no caching decorator on any function of pygaps.modelling., pygaps.core.modelisotherm.")
    no_memoisation(ctx, load(ctx.root), "C12", "F-fresh", ('pygaps.modelling.', 'pygaps.core.modelisotherm.'),
                   "fit results would be served from an earlier fit of an equal-hashing object")


META = {
    "technique": "abstract interpretation of fit / guess / from_modelisotherm with the optimiser and constructors summarised; "
                 "call-site threading rules",
    "level_text": "Static: the fitting routine is interpreted with least_squares replaced by a summary that records what it is "
                  "given and calls the residual on symbolic parameters, under every optimiser outcome; bounds and start vector "
                  "are supplied in a key order different from the parameter order so that positional coupling is visible; "
                  "guess() is interpreted for all rmse orderings and failure patterns of three candidates; "
                  "from_modelisotherm for all argument shapes. The numerical quality of fits is not decided.",
    "level_note": "Trusted: least_squares result fields. Not decided: recovering generating parameters, curve invariance under "
                  "unit changes (optimiser behaviour).",
}
