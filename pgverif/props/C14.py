"""C14 - linearised characterisation methods recover the generating parameters.

Decided statically:
  L-affine  [ALG] the BET / Langmuir / DA transform of the governing equation is affine in the regression abscissa
            and feeding its slope and intercept to the *_parameters code returns the generating quantities:
            BET (n_m, C, 1/(sqrt(C)+1), area), Langmuir (n_m, K, area), DA (V0, E/1000); t-plot / alpha-s area and
            volume formulas (unit factors for mmol, nm, g/mol, g/cm3); alpha-s against itself returns the reference area;
            simple_bet / simple_lang agree with the BET(N=1) / Langmuir model classes
  L-window  abstract interpretation of area_BET_raw, area_langmuir_raw, da_plot_raw on symbolic 5-point arrays
            (comparisons between elements fork: all orderings): with manual limits minimum = searchsorted(lo) (0 when
            absent), maximum = searchsorted(hi) - 1 (last when absent); both arrays are sliced [minimum : maximum+1];
            fewer than three points (maximum - minimum < 2) is refused with CalculationError before the fit;
            automatic BET window: maximum = first index after which n(1-p) decreases (else last), minimum =
            searchsorted(0.1 * p[maximum]); automatic Langmuir window 5 % - 90 % of the last pressure
Not decided: regression numerics (linregress trusted on affine data), the automatic linear-section finder.
"""
from __future__ import annotations

import ast
import itertools

import sympy as sp

from ..absint import Arr, Obj, Raised
from ..alg import ArraySym, SelfCtx, Translator, decide_zero
from ..core import AnalysisError, Ctx, Finding
from ..domain import make_interp
from ..libsum import Vec, install_vec
from ..num import Num
from ..srcmodel import load

CH = "pygaps.characterisation"


def zero(ctx, rule, where, key, expr, msg, sample=None):
    verdict, wit = decide_zero(expr)
    ctx.ob(verdict == "zero", Finding(rule, where, key, f"{msg}; residual {sp.simplify(expr)} (witness {wit})"),
           nontrivial_key=(rule, key), sample=sample)


def r_affine(ctx: Ctx, model, tr):
    ctx.rule("L-affine [ALG]: transforms of the governing equations are affine; *_parameters(slope, intercept) return the "
             "generating quantities; area/volume unit factors")
    p, nm, C, K, sig = tr.sym("p"), tr.sym("n_m"), tr.sym("C"), tr.sym("K"), tr.sym("sigma")
    NA = tr.sym("N_A")
    F = lambda q: model.func(q)
    # ---- BET
    simple_bet = F(f"{CH}.area_bet.simple_bet")
    n = tr.function(simple_bet, [p, nm, C])
    bt = tr.function(F(f"{CH}.area_bet.bet_transform"), [p, n])
    zero(ctx, "C14.L-affine", simple_bet.where, "bet|transform-affine", sp.diff(bt, p, 2), "the BET transform of the BET equation is not affine in p")
    slope, icpt = sp.simplify(sp.diff(bt, p)), sp.simplify(bt.subs(p, 0))
    res = tr.function(F(f"{CH}.area_bet.bet_parameters"), [slope, icpt, sig])
    bp = F(f"{CH}.area_bet.bet_parameters")
    if not (isinstance(res, tuple) and len(res) == 4):
        raise AnalysisError("bet_parameters no longer returns (n_monolayer, p_monolayer, c_const, bet_area)")
    zero(ctx, "C14.L-affine", bp.where, "bet|n_monolayer", res[0] - nm, "bet_parameters does not return the generating monolayer capacity",
         sample={"rule": "L-affine", "obligation": "bet_parameters(slope, intercept)[0] == n_m", "slope": str(slope), "intercept": str(icpt)})
    zero(ctx, "C14.L-affine", bp.where, "bet|p_monolayer", res[1] - 1 / (sp.sqrt(C) + 1), "monolayer pressure is not 1/(sqrt(C)+1)")
    zero(ctx, "C14.L-affine", bp.where, "bet|c_const", res[2] - C, "bet_parameters does not return the generating C")
    zero(ctx, "C14.L-affine", bp.where, "bet|area", res[3] - nm * sig * sp.Rational(1, 10**18) * NA,
         "BET area is not n_m [mol] * sigma [nm2] * 1e-18 [m2/nm2] * N_A")
    roq = tr.function(F(f"{CH}.area_bet.roq_transform"), [p, tr.sym("n")])
    zero(ctx, "C14.L-affine", F(f"{CH}.area_bet.roq_transform").where, "bet|rouquerol-transform", roq - tr.sym("n") * (1 - p),
         "the Rouquerol transform is not n(1-p)")
    # sibling: BET model class with N = 1
    ci = model.cls("pygaps.modelling.bet.BET")
    mc = SelfCtx(ci, params={"n_m": nm, "C": C, "N": sp.Integer(1)})
    zero(ctx, "C14.L-affine", simple_bet.where, "bet|simple_bet==BET(N=1)", tr.method(mc, "loading", [p]) - n, "simple_bet differs from the BET model with N=1")
    # ---- Langmuir
    sl = F(f"{CH}.area_lang.simple_lang")
    n = tr.function(sl, [p, nm, K])
    lt = tr.function(F(f"{CH}.area_lang.langmuir_transform"), [p, n])
    zero(ctx, "C14.L-affine", sl.where, "langmuir|transform-affine", sp.diff(lt, p, 2), "the Langmuir transform is not affine in p")
    slope, icpt = sp.simplify(sp.diff(lt, p)), sp.simplify(lt.subs(p, 0))
    lp = F(f"{CH}.area_lang.langmuir_parameters")
    res = tr.function(lp, [slope, icpt, sig])
    if not (isinstance(res, tuple) and len(res) == 3):
        raise AnalysisError("langmuir_parameters no longer returns (n_monolayer, langmuir_const, langmuir_area)")
    zero(ctx, "C14.L-affine", lp.where, "langmuir|n_monolayer", res[0] - nm, "langmuir_parameters does not return n_m")
    zero(ctx, "C14.L-affine", lp.where, "langmuir|K", res[1] - K, "langmuir_parameters does not return K")
    zero(ctx, "C14.L-affine", lp.where, "langmuir|area", res[2] - nm * sig * sp.Rational(1, 10**18) * NA, "Langmuir area formula")
    cl = model.cls("pygaps.modelling.langmuir.Langmuir")
    zero(ctx, "C14.L-affine", sl.where, "langmuir|simple_lang==Langmuir", tr.method(SelfCtx(cl, params={"n_m": nm, "K": K}), "loading", [p]) - n,
         "simple_lang differs from the Langmuir model")
    # ---- DA / DR
    V0, E, m, M, rho, T, R = tr.sym("V0"), tr.sym("E"), tr.sym("m_exp"), tr.sym("M"), tr.sym("rho"), tr.sym("T"), tr.sym("R")
    u = tr.sym("u")                       # p = exp(-u), 0 < p < 1
    pp = sp.exp(-u)
    n_da = V0 * sp.exp(-(R * T * u / E)**m) * rho / M            # loading whose liquid volume follows the DA equation
    logv = tr.function(F(f"{CH}.dr_da_plots.log_v_adj"), [n_da, M, rho])
    x = tr.function(F(f"{CH}.dr_da_plots.log_p_exp"), [pp, m])
    X = tr.sym("X")
    logv_x = sp.simplify(sp.expand_log(logv, force=True)).subs(sp.simplify(x), X)
    lin = sp.simplify(sp.expand_log(logv, force=True) - (sp.log(V0) - (R * T / E)**m * sp.simplify(x)))
    zero(ctx, "C14.L-affine", F(f"{CH}.dr_da_plots.log_v_adj").where, "da|transform-affine", lin,
         "ln V against (-ln p)^m is not the line ln V0 - (RT/E)^m * x for data following the Dubinin-Astakhov equation")
    raw = F(f"{CH}.dr_da_plots.da_plot_raw")
    ret = [n for n in raw.node.body if isinstance(n, ast.Return) and isinstance(n.value, ast.Tuple)]
    outer = [r for r in ret if len(r.value.elts) >= 3]
    if not outer:
        raise AnalysisError("da_plot_raw: return tuple not found")
    names = [ast.unparse(e) for e in outer[-1].value.elts[:2]]
    defs = {}
    for st in raw.node.body:
        if isinstance(st, ast.Assign) and isinstance(st.targets[0], ast.Name) and st.targets[0].id in names:
            defs[st.targets[0].id] = st.value
    if set(defs) != set(names):
        raise AnalysisError(f"da_plot_raw: definitions of {names} not found")
    slope_s, icpt_s = -(R * T / E)**m, sp.log(V0)
    env = {"__module__": raw.module.name, "slope": slope_s, "intercept": icpt_s, "exp": m, "iso_temp": T}
    vol = tr.expr(defs[names[0]], env, None)
    pot = tr.expr(defs[names[1]], env, None)
    zero(ctx, "C14.L-affine", raw.where, "da|micropore-volume", vol - V0, "micropore volume is not exp(intercept) = V0")
    zero(ctx, "C14.L-affine", raw.where, "da|potential", pot - E / 1000, "characteristic energy is not RT/(-slope)^(1/m)/1000 = E/1000 (kJ/mol)")
    # ---- t-plot / alpha-s formulas: the parameter functions interpreted on a three-point section (sympy numbers), regression summarised
    import sympy as _sp
    from ..absint import Obj as _Obj
    from ..domain import make_interp as _mk
    from ..libsum import Vec as _Vec, install_vec as _iv
    Sy = lambda nm: _sp.Symbol(nm, positive=True)
    s_, i_ = Sy("slope"), Sy("intercept")
    for q, kind in ((f"{CH}.t_plots.t_plot_parameters", "t"), (f"{CH}.alphas_plots.alpha_s_plot_parameters", "alpha")):
        fi = F(q)
        I = _mk(model)
        _iv(I)
        I.sympy_mode = True
        vals = (s_, i_, Sy("corr"), Sy("pval"), Sy("stderr"))
        I.ext["scipy.stats.linregress"] = lambda I, a, k, n, vals=vals: _Obj(kind="LinregressResult", label="fit", attrs=dict(
            zip(("slope", "intercept", "rvalue", "pvalue", "stderr"), vals), _vals=vals))
        for nm_ in ("builtins.max", "numpy.max", "numpy.amax"):
            I.ext[nm_] = lambda I, a, k, n: Sy("max_" + ("x" if "x0" in str(a[0]) else "y"))
        env_args = {"thickness_curve": _Vec([Sy(f"x{j}") for j in range(3)]), "alpha_curve": _Vec([Sy(f"x{j}") for j in range(3)]),
                    "loading": _Vec([Sy(f"y{j}") for j in range(3)]), "section": slice(0, 3), "molar_mass": Sy("M"), "liquid_density": Sy("rho"),
                    "alpha_s_point": Sy("alpha_ref"), "reference_area": Sy("A_ref")}
        outs = I.explore(lambda I: I.call_func(fi, [env_args[pn] for pn in fi.params()], {}, None))
        dicts = [o.value for o in outs if o.kind == "ok" and isinstance(o.value, dict)]
        nones = [o for o in outs if o.kind == "ok" and o.value is None]
        if len(dicts) != 1 or any(o.kind != "ok" for o in outs):
            raise AnalysisError(f"{fi.short}: expected one path returning the result dictionary (and one returning None), got {outs}")
        d = dicts[0]
        M, rho = Sy("M"), Sy("rho")
        zero(ctx, "C14.L-affine", fi.where, f"{kind}-plot|adsorbed_volume", d["adsorbed_volume"] - i_ * M / rho / 1000,
             "pore volume is not intercept [mmol/g] * M [g/mol] / rho [g/cm3] / 1000 (cm3/g)")
        if kind == "t":
            # slope [mmol/(g nm)] * M [g/mol] / rho [g/cm3]: 1e-3 mol * cm3/mol / 1e-7 cm = 1e4 cm2 = 1 m2
            zero(ctx, "C14.L-affine", fi.where, "t-plot|area", d["area"] - s_ * M / rho, "area is not slope [mmol/(g nm)] * M / rho (m2/g)")
        else:
            zero(ctx, "C14.L-affine", fi.where, "alpha-plot|area", d["area"] - Sy("A_ref") / Sy("alpha_ref") * s_,
                 "area is not A_ref / alpha_ref * slope")
            # alpha-s of the reference against itself: loading = n_ref, alpha = n_ref/alpha_ref  => slope = alpha_ref => area = A_ref
            zero(ctx, "C14.L-affine", fi.where, "alpha-plot|self-reference", d["area"].subs(s_, Sy("alpha_ref")) - Sy("A_ref"),
                 "alpha-s of the reference isotherm against itself does not return the reference area")
        ctx.ob(d.get("slope") == s_ and d.get("intercept") == i_, Finding("C14.L-affine", fi.where, f"{kind}-plot|slope-intercept-reported",
                                                                         "the reported slope / intercept are not those of the regression"),
               nontrivial_key=(kind, "reported"))
    # the alpha curve handed to the fit and returned: reference loading / loading at the reducing pressure (interpreted)
    ar = F(f"{CH}.alphas_plots.alpha_s_raw")
    import sympy as _sp
    from ..domain import make_interp as _mk
    from ..libsum import Vec as _Vec, install_vec as _iv
    I = _mk(model)
    _iv(I)
    I.sympy_mode = True
    Sy = lambda nm: _sp.Symbol(nm, positive=True)
    seen = {}

    def _fls(I, fi_, env, n):
        seen["curve"], seen["loading"] = env.get("t_points", list(env.values())[0]), env.get("loading")
        return []
    I.overrides["pygaps.utilities.math_utilities.find_linear_sections"] = _fls
    I.overrides[f"{CH}.alphas_plots.find_linear_sections"] = _fls
    I.ext["numpy.asarray"] = lambda I, a, k, n: a[0] if isinstance(a[0], _Vec) else _Vec(list(a[0]))
    nref = [Sy(f"nref{i}") for i in range(3)]
    nl = [Sy(f"n{i}") for i in range(3)]
    a_pt = Sy("alpha_ref")
    outs = I.explore(lambda I: I.call_func(ar, [_Vec(list(nl)), _Vec(list(nref)), a_pt, Sy("A_ref"), Sy("rho"), Sy("M")], {}, None))
    okc = False
    got = None
    if len(outs) == 1 and outs[0].kind == "ok" and isinstance(outs[0].value, tuple) and len(outs[0].value) == 2:
        got = outs[0].value[1]
        okc = isinstance(got, _Vec) and len(got.items) == 3 and all(_sp.simplify(x - r / a_pt) == 0 for x, r in zip(got.items, nref)) \
            and isinstance(seen.get("curve"), _Vec) and seen["curve"].items == got.items
    ctx.ob(okc, Finding("C14.L-affine", ar.where, "alpha-plot|alpha-curve",
                        f"alpha_s_raw returns / fits the curve {got!r}; required reference_loading / alpha_s_point, the same array for the "
                        f"section search and the result (outcome {outs[:1] if not okc else 'ok'})"),
           nontrivial_key=("alpha", "curve"))


def r_alpha_reference(ctx: Ctx, model, prop="C14", rule="L-affine"):
    """alpha-s against itself returns the reference area: the wrapper hands alpha_s_raw the area of the *reference* isotherm computed by
    the method the caller named ('BET' -> area_BET, 'langmuir' -> area_langmuir, a number as it is), in any letter case"""
    import sympy as _sp
    from ..absint import Obj
    from ..domain import make_interp as _mk
    from ..libsum import Vec as _Vec, install_vec as _iv
    ctx.rule(f"{rule} (reference area): alpha_s passes alpha_s_raw area_BET(reference)['area'] for reference_area='BET', "
             "area_langmuir(reference)['area'] for 'langmuir', a numeric value unchanged (wrapper interpreted with recording stubs)")
    fi = model.func(f"{CH}.alphas_plots.alpha_s")
    Sy = lambda nm: _sp.Symbol(nm, positive=True)
    for given, want in (("BET", "A_bet"), ("bet", "A_bet"), ("langmuir", "A_lang"), ("Langmuir", "A_lang"), ("LANGMUIR", "A_lang")):
        I = _mk(model)
        _iv(I)
        I.sympy_mode = True
        cap = {}
        bi = model.cls("pygaps.core.baseisotherm.BaseIsotherm")

        def mkiso(tag):
            return Obj(cls=bi, kind="IsoA", label=tag, attrs={"_adsorbate": "ADS", "adsorbate": "ADS", "pressure_unit": "bar", "pressure_mode": "absolute",
                                                             "temperature": Sy("T"), "_temperature": Sy("T"), "temperature_unit": "K", "material_unit": "g",
                                                             "units": {}})
        ref, smp = mkiso("reference"), mkiso("sample")
        I.overrides[f"{CH}.area_bet.area_BET"] = lambda I, fi_, env, n: (cap.setdefault("bet_on", []).append(env.get("isotherm")), {"area": Sy("A_bet")})[1]
        I.overrides[f"{CH}.area_lang.area_langmuir"] = lambda I, fi_, env, n: (cap.setdefault("lang_on", []).append(env.get("isotherm")), {"area": Sy("A_lang")})[1]
        I.overrides[f"{CH}.alphas_plots.alpha_s_raw"] = lambda I, fi_, env, n: (cap.update({"area": env.get("reference_area")}), ([], _Vec([Sy("c0")])))[1]
        I.overrides["pygaps.utilities.pygaps_utilities.get_iso_loading_and_pressure_ordered"] = lambda I, fi_, env, n: (_Vec([Sy("p0")]), _Vec([Sy("n0")]))
        ads = Obj(kind="AdsA", label="ads")
        I.libmeth[("AdsA", "molar_mass")] = lambda I, v, a, k, n: Sy("M")
        I.libmeth[("AdsA", "liquid_density")] = lambda I, v, a, k, n: Sy("rho")
        I.overrides["pygaps.core.adsorbate.Adsorbate.find"] = lambda I, fi_, env, n: ads
        I.libmeth[("IsoA", "loading_at")] = lambda I, v, a, k, n: _Vec([Sy("nr0")]) if isinstance(a[0], _Vec) else Sy("alpha_ref")
        outs = I.explore(lambda I: (cap.clear(), I.call_func(fi, [smp, ref], {"reference_area": given}, None), dict(cap))[2])
        oks = [o for o in outs if o.kind == "ok"]
        got = oks[0].value.get("area") if oks else None
        on = (oks[0].value.get("bet_on") or []) + (oks[0].value.get("lang_on") or []) if oks else []
        ok = bool(oks) and got == Sy(want) and all(x is ref for x in on) and len(on) == 1
        ctx.ob(ok, Finding(f"{prop}.{rule}", fi.where, f"alpha_s|reference-area|{given.lower()}",
                           f"alpha_s(reference_area={given!r}) hands alpha_s_raw the reference area {got!r} (area routine run on "
                           f"{[getattr(x, 'label', x) for x in on]}); required {want} of the reference isotherm"
                           + ("" if oks else f" (outcomes {[repr(o)[:70] for o in outs[:2]]})")),
               nontrivial_key=("alpha", "refarea", given))


def r_plot_limits(ctx: Ctx, model):
    """t-plot / alpha-s with manual limits: the fitted points are exactly those whose *thickness* (alpha value) lies strictly inside the
    user's limits - interpreted on concrete five-point curves whose pressures / loadings are numerically different from the thickness"""
    import numpy as _np
    import sympy as _sp
    from ..absint import Obj
    from ..domain import make_interp as _mk
    from ..ndsym import install_nd, to_np
    ctx.rule("L-window (t / alpha-s): with t_limits the section handed to the parameter routine is {i : t_limits[0] < curve_i < t_limits[1]} "
             "of the thickness / alpha curve (concrete curves, array algebra on symbolic elements)")
    R = _sp.Rational
    curve = [R(3, 10), R(1, 2), R(7, 10), R(9, 10), R(11, 10)]
    pressure = _np.array([R(1, 100), R(2, 100), R(5, 100), R(8, 100), R(95, 100)], dtype=object)
    loading = _np.array([R(10), R(20), R(30), R(40), R(50)], dtype=object)
    cases = [((R(2, 5), R(1)), [1, 2, 3]), ((R(0), R(3, 5)), [0, 1]), ((R(1, 2), R(9, 10)), [2]), ((R(1), R(2)), [4])]
    for which in ("t", "alpha"):
        for lims, want in cases:
            I = _mk(model)
            install_nd(I)
            cap = {}

            def params(I, fi_, env, n, cap=cap):
                cap["section"], cap["curve"] = env.get("section"), env.get("thickness_curve", env.get("alpha_curve"))
                return {"slope": _sp.Integer(1)}
            if which == "t":
                fi = model.func(f"{CH}.t_plots.t_plot_raw")
                I.overrides[f"{CH}.t_plots.t_plot_parameters"] = params
                tm = Obj(kind="ThicknessFn", label="thickness_model")
                I.libmeth[("ThicknessFn", "__call__")] = lambda I, v, a, k, n: _np.array(list(curve), dtype=object)
                args = [loading, pressure, tm, _sp.Symbol("rho", positive=True), _sp.Symbol("M", positive=True)]
            else:
                fi = model.func(f"{CH}.alphas_plots.alpha_s_raw")
                I.overrides[f"{CH}.alphas_plots.alpha_s_plot_parameters"] = params
                args = [loading, _np.array([c * 2 for c in curve], dtype=object), R(2), _sp.Symbol("A", positive=True), _sp.Symbol("rho", positive=True),
                        _sp.Symbol("M", positive=True)]
            outs = I.explore(lambda I: (cap.clear(), I.call_func(fi, list(args), {"t_limits": tuple(lims)}, None), dict(cap))[2])
            got = None
            if len(outs) == 1 and outs[0].kind == "ok" and outs[0].value.get("section") is not None:
                sec = to_np(I, outs[0].value["section"])
                try:
                    got = [int(x) for x in (sec.tolist() if isinstance(sec, _np.ndarray) else list(sec))]
                except (TypeError, ValueError):
                    got = repr(sec)
            else:
                got = [repr(o)[:90] for o in outs[:2]]
            ctx.ob(got == want, Finding("C14.L-window", fi.where, f"{which}-plot|manual-limits|{lims[0]}..{lims[1]}",
                                        f"{fi.name}(t_limits=({lims[0]}, {lims[1]})) on the curve {[str(c) for c in curve]} fits the points {got}; required {want}: "
                                        "exactly the points whose thickness / alpha value lies inside the user's limits"),
                   nontrivial_key=("plot-limits", which, str(lims)))


# ---- L-window --------------------------------------------------------------------------------------------------

def explore(I, thunk):
    return I.explore(thunk, max_paths=20000)


def r_window(ctx: Ctx, model):
    ctx.rule("L-window: abstract interpretation of the *_raw functions on symbolic 5-point arrays over all element orderings "
             "and limit shapes: slice, refusal threshold, Rouquerol window, manual limits")
    I = make_interp(model)
    install_vec(I)
    NP = 5
    P = lambda: Vec([Num.atom(f"p{i}") for i in range(NP)], tag="P")
    Lv = lambda: Vec([Num.atom(f"n{i}") for i in range(NP)], tag="N")
    lo, hi = Num.atom("lo"), Num.atom("hi")
    specs = {
        f"{CH}.area_bet.area_BET_raw": dict(args=lambda lim: [P(), Lv(), Num.atom("sigma"), lim], mn=6, mx=7, auto="rouquerol"),
        f"{CH}.area_lang.area_langmuir_raw": dict(args=lambda lim: [P(), Lv(), Num.atom("sigma"), lim], mn=5, mx=6, auto="langmuir"),
        f"{CH}.dr_da_plots.da_plot_raw": dict(args=lambda lim: [P(), Lv(), Num.atom("T"), Num.atom("M"), Num.atom("rho"), Num.const(2), lim], mn=5, mx=6, auto="none"),
    }
    nruns = 0
    for q, sp_ in specs.items():
        fi = model.func(q)
        for limname, lim in (("none", None), ("(lo,hi)", (lo, hi)), ("(None,hi)", (None, hi)), ("(lo,None)", (lo, None)), ("(0,hi)", (Num.const(0), hi)), ("(None,None)", (None, None))):
            outs = explore(I, lambda I: I.call_func(fi, sp_["args"](lim), {}, None))
            saw_refusal = False
            for oc in outs:
                nruns += 1
                dec = [l for l, c in oc.decisions]
                # the refusal decision
                thr = [(l, c) for l, c in oc.decisions if "linregress" not in l and "<" in l and l.split("<")[-1].isdigit()][:1]
                if oc.kind == "raise":
                    ok = oc.exc.is_a("CalculationError") and thr and thr[-1][0].endswith("<2") and thr[-1][1] == 0
                    saw_refusal = saw_refusal or ok
                    ctx.ob(bool(ok), Finding("C14.L-window", fi.where, f"{fi.name}|{limname}|refusal:{oc.exc.name}:{thr[-1][0] if thr else ''}",
                                             f"{fi.name}(limits={limname}) raises {oc.exc.name} under the condition `{thr[-1][0] if thr else dec[-1:]}`: "
                                             "the only refusal must be CalculationError for maximum - minimum < 2 (fewer than three points)"),
                           nontrivial_key=(fi.name, limname, "refuse"))
                    continue
                v = oc.value
                if not isinstance(v, tuple) or len(v) <= sp_["mx"]:
                    raise AnalysisError(f"{fi.name}: result tuple changed shape")
                mn, mx = v[sp_["mn"]], v[sp_["mx"]]
                concrete = mn.is_const() and mx.is_const()
                ctx.ob(concrete or (bool(thr) and thr[-1][0].endswith("<2") and thr[-1][1] == 1),
                       Finding("C14.L-window", fi.where, f"{fi.name}|{limname}|threshold:{thr[-1][0] if thr else 'none'}",
                               f"{fi.name}(limits={limname}): the fit is accepted under `not {thr[-1][0] if thr else '?'}`; a fit on fewer than three "
                               "points must be refused (maximum - minimum < 2)"), nontrivial_key=(fi.name, limname, "thr"))
                want_mn, want_mx = expected_window(I, sp_["auto"], lim, oc, NP)
                okw = mn == want_mn and mx == want_mx
                ctx.ob(okw, Finding("C14.L-window", fi.where, f"{fi.name}|{limname}|window",
                                    f"{fi.name}(limits={limname}) [{ordering(oc)}]: fitted region is [{I.describe(mn)}, {I.describe(mx)}], required "
                                    f"[{want_mn.canon()}, {want_mx.canon()}]"),
                       nontrivial_key=(fi.name, limname, ordering(oc)),
                       sample={"rule": "L-window", "function": fi.name, "limits": limname, "ordering": ordering(oc), "window": [I.describe(mn), I.describe(mx)]} if nruns % 7 == 0 else None)
                # both arrays sliced [minimum : maximum + 1]: visible in the regression inputs
                regs = [a for a in v if isinstance(a, Num) and any(x.startswith("linregress.slope(") for x in a.atoms())]
                desc = " ".join(x for a in regs for x in a.atoms())
                want_slice = f"[{I.describe(int(mn.value()) if mn.is_const() else mn)}:{I.describe(int((mx + Num.const(1)).value()) if mx.is_const() else mx + Num.const(1))}]"
                ctx.ob(concrete or desc.count(want_slice) >= 2 or not regs, Finding("C14.L-window", fi.where, f"{fi.name}|{limname}|slice",
                                                                       f"{fi.name}: the regression must run on pressure and loading sliced {want_slice}; regression inputs: {desc[:200]}"),
                       nontrivial_key=(fi.name, limname, "slice"))
            all_concrete = all(oc.kind == "ok" and oc.value[sp_["mn"]].is_const() and oc.value[sp_["mx"]].is_const() for oc in outs)
            ctx.ob(saw_refusal or all_concrete, Finding("C14.L-window", fi.where, f"{fi.name}|{limname}|no-refusal-path",
                                        f"{fi.name}(limits={limname}) has no path that refuses a region of fewer than three points with CalculationError"),
                   nontrivial_key=(fi.name, limname, "has-refusal"))
    ctx.floor("window paths", nruns, 30)
    # the three-point minimum on a concrete pressure grid: limits enclosing exactly one, two and three points
    import bisect
    from fractions import Fraction as Fr
    ctx.rule("L-window (three-point minimum): on a concrete grid, manual limits enclosing one or two points are refused with "
             "CalculationError, limits enclosing three points are fitted on exactly those points")
    grid = [Fr(5, 100), Fr(1, 10), Fr(2, 10), Fr(3, 10), Fr(4, 10), Fr(5, 10), Fr(6, 10)]
    Ic = make_interp(model)
    install_vec(Ic)

    def ss(I, a, k, n):
        arr = a[0].items if isinstance(a[0], Vec) else list(a[0])
        if all(isinstance(x, Num) and x.is_const() for x in arr) and isinstance(a[1], Num) and a[1].is_const():
            vals = [x.value() for x in arr]
            side = k.get("side", "left")
            return Num.const(bisect.bisect_right(vals, a[1].value()) if side == "right" else bisect.bisect_left(vals, a[1].value()))
        return Num.atom(f"searchsorted({I.describe(a[0])},{I.describe(a[1])})")
    Ic.ext["numpy.searchsorted"] = ss
    Pc = lambda: Vec([Num.const(g) for g in grid], tag="P")
    Lc = lambda: Vec([Num.atom(f"n{i}") for i in range(len(grid))], tag="N")
    specs_c = {
        f"{CH}.area_bet.area_BET_raw": (lambda lim: [Pc(), Lc(), Num.atom("sigma"), lim], 6, 7),
        f"{CH}.area_lang.area_langmuir_raw": (lambda lim: [Pc(), Lc(), Num.atom("sigma"), lim], 5, 6),
        f"{CH}.dr_da_plots.da_plot_raw": (lambda lim: [Pc(), Lc(), Num.atom("T"), Num.atom("M"), Num.atom("rho"), Num.const(2), lim], 5, 6),
    }
    cases = [("one point", (Fr(25, 100), Fr(35, 100)), None), ("two points", (Fr(15, 100), Fr(35, 100)), None),
             ("three points", (Fr(15, 100), Fr(45, 100)), (2, 4)), ("four points", (Fr(15, 100), Fr(55, 100)), (2, 5))]
    for q, (mkargs, imn, imx) in specs_c.items():
        fi = model.func(q)
        for cname, (lo_, hi_), want in cases:
            outs = explore(Ic, lambda I: I.call_func(fi, mkargs((Num.const(lo_), Num.const(hi_))), {}, None))
            if want is None:
                ok = bool(outs) and all(o.kind == "raise" and o.exc.is_a("CalculationError") and not o.exc.fault for o in outs)
                got = [repr(o)[:70] for o in outs[:2]]
            else:
                oks = [o for o in outs if o.kind == "ok"]
                got = [(Ic.describe(o.value[imn]), Ic.describe(o.value[imx])) for o in oks[:2]] or [repr(o)[:70] for o in outs[:2]]
                ok = bool(oks) and len(oks) == len(outs) and all(o.value[imn] == Num.const(want[0]) and o.value[imx] == Num.const(want[1]) for o in oks)
            ctx.ob(ok, Finding("C14.L-window", fi.where, f"{fi.name}|concrete-limits|{cname}",
                               f"{fi.name} with limits ({lo_}, {hi_}) on pressures {[str(g) for g in grid]} ({cname} inside): {got}; required "
                               + ("CalculationError (fewer than three points)" if want is None else f"a fit on the points {want[0]}..{want[1]}")),
                   nontrivial_key=("concrete-window", fi.name, cname))


def ordering(oc):
    return ",".join(f"{l}:{'T' if c == 0 else 'F'}" for l, c in oc.decisions if ">" in l and "<2" not in l)[:160]


def expected_window(I, auto, lim, oc, NP):
    """(minimum, maximum) as symbolic numbers"""
    ss = lambda x: Num.atom(f"searchsorted(P,{I.describe(x)})")
    last = Num.const(NP - 1)
    if lim is None and auto == "rouquerol":
        k = NP - 1
        nzs = [(l, c) for l, c in oc.decisions if l.startswith("nonzero[")]
        if nzs:     # vectorised form: indices where diff < 0
            nz = [int(l[8:-1]) for l, c in nzs if c == 0]
            k = (min(nz) + 1) if nz else NP - 1
        else:       # loop form: first i with roq[i] > roq[i+1]
            idx = 0
            for l, c in oc.decisions:
                if ">" in l and "linregress" not in l and not (l.split("<")[-1].isdigit() and "<" in l):
                    if c == 0:
                        k = idx + 1
                        break
                    idx += 1
        return ss(Num.atom(f"p{k}") * Num.const(__import__("fractions").Fraction(1, 10))), Num.const(k)
    if lim is None and auto == "langmuir":
        F = __import__("fractions").Fraction
        return ss(Num.atom(f"p{NP - 1}") * Num.const(F(1, 20))), ss(Num.atom(f"p{NP - 1}") * Num.const(F(9, 10))) - Num.const(1)
    if lim is None:
        return Num.const(0), last
    lo_, hi_ = lim
    mn = Num.const(0) if lo_ is None or (isinstance(lo_, Num) and lo_.is_const() and lo_.value() == 0) else ss(lo_)
    mx = last if hi_ is None else ss(hi_) - Num.const(1)
    return mn, mx


def run(ctx: Ctx):
    model = load(ctx.root)
    tr = Translator(model)
    ctx.assume("scipy.stats.linregress on exactly affine data returns the generating slope and intercept")
    ctx.assume("numpy.searchsorted(p, x) is the number of points below x on an increasing grid")
    r_affine(ctx, model, tr)
    r_alpha_reference(ctx, model)
    r_plot_limits(ctx, model)
    r_window(ctx, model)
    # module-level state: only the declared write-once caches, guarded and keyed by the full argument (shared with C04 R-module)
    from ..effects import Effects
    from .C04 import r_module
    mods = ("pygaps.characterisation.area_bet", "pygaps.characterisation.area_lang", "pygaps.characterisation.t_plots",
            "pygaps.characterisation.alphas_plots", "pygaps.characterisation.dr_da_plots", "pygaps.characterisation.models_thickness")
    eps = [f for mn, m in model.modules.items() if mn in mods for n_, f in m.functions.items() if not n_.startswith("_")]
    ctx.floor("linearised-characterisation entry points", len(eps), 12)
    r_module(ctx, model, Effects(model), eps, prop="C14", rule="L-fresh", write_once=["pygaps.characterisation.models_thickness._LOADED"], memo=False)
    ctx.rule("L-args: no function of pygaps.characterisation. writes in place to a value that may be its own argument (the raw routines take "
             "arrays; numpy.asarray does not copy)")
    from ..sites import no_inplace_on_arguments
    no_inplace_on_arguments(ctx, load(ctx.root), "C14", "L-args", ('pygaps.characterisation.',),
                            "the loading / pressure / reference arrays of the caller would be rescaled by the analysis - a curve analysed against itself, "
                            "or a reference reused for a second sample, no longer recovers the generating parameters")
    from ..sites import no_memoisation
    ctx.rule("L-fresh: no caching decorator on any function of pygaps.characterisation.")
    no_memoisation(ctx, load(ctx.root), "C14", "L-fresh", ('pygaps.characterisation.',),
                   "a cached constant or fit survives a change of the isotherm")
    # the wrappers (area_BET, area_langmuir, t_plot, alpha_s, dr_plot, da_plot) analyse the branch the caller names: interpreted with a
    # recording stub isotherm up to the *_raw routine (machinery shared with C15 R-pin)
    ctx.rule("L-branch: every read of the sample isotherm made by a wrapper called with branch='ads' / 'des' asks for that branch")
    from .C15 import r_pin_interpreted
    r_pin_interpreted(ctx, model, prop="C14", rule="L-branch", check="branch")


META = {
    "technique": "algebraic normal forms of transforms / parameter formulas; abstract interpretation of the region selection on "
                 "symbolic arrays over all element orderings and of the t / alpha-s manual limits on concrete curves; wrapper pr"
                 "otocol (reference area)",
    "level_text": "Static: [ALG] the BET, Langmuir and DA transforms of their own governing equations are shown affine and the "
                  "parameter formulas are shown to return the generating quantities for ALL parameter values, including the "
                  "area/volume unit factors; the region selection of the three *_raw routines is abstractly interpreted on "
                  "symbolic 5-point arrays, forking on every comparison between elements (all orderings) and every limit "
                  "shape, checking the window indices, the slices used by the regression and the three-point refusal.",
    "level_note": "Trusted: linregress on affine data; searchsorted semantics; sympy. Not decided: regression numerics, the "
                  "automatic linear-section finder of t/alpha-s plots.",
}
