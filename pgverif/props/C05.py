"""C05 - isotherm identity is determined by content, and only by content.

Decided statically:
  ID-dict   to_dict() emits exactly the content (material, adsorbate, stored temperature, 7 unit labels, metadata,
            model branch) for all three classes; nothing cached or derived (shared with C06: RT-dict)
  ID-attr   every instance attribute of the isotherm classes is content (emitted), or reserved AND separately hashed
            (data_raw, model), or a declared cache / column-name field; the reserved lists equal the audited table
  ID-hash   abstract interpretation of isotherm_to_hash: the hashed document is to_dict() + data_hash, serialised with
            sort_keys=True and digested by hashlib (no builtin hash()/id()); point data enter rounded to 8 decimals,
            dtype-normalised and WITHOUT row labels (index=False); model content is model.to_dict()
  ID-eq     __eq__ compares identifiers; iso_id is recomputed from current content on every access (no stored id)
  ID-model  model.to_dict() carries name, rmse, parameters verbatim, both ranges (shared with C06: RT-model)
  ID-parse  (with C06/C07) what an export carries equals the content, hence a parse of an export has the same id
Not decided: md5 collisions; pandas hashing of concrete values; dtype of re-imported columns.
"""
from __future__ import annotations

import ast

from ..absint import Obj, Opaque
from ..core import AnalysisError, Ctx, Finding
from ..docsim import MiniFrame, Tok
from ..roundtrip import CONFIGS, RT, veq
from . import _rt_common as rc

RESERVED_EXPECTED = {
    "BaseIsotherm": {"_material": "emitted as 'material'", "_adsorbate": "emitted as 'adsorbate'",
                     "_temperature": "emitted as 'temperature'", "m": "constructor shorthand", "t": "constructor shorthand",
                     "a": "constructor shorthand"},
    "PointIsotherm": {"data_raw": "hashed separately (data_hash)", "l_interpolator": "cache", "p_interpolator": "cache",
                      "loading_key": "column name, data are hashed by position", "pressure_key": "column name",
                      "other_keys": "derived property"},
    "ModelIsotherm": {"model": "hashed separately (model.to_dict())"},
}
CONTENT_ATTRS = {"pressure_mode", "pressure_unit", "loading_basis", "loading_unit", "material_basis", "material_unit",
                 "temperature_unit", "properties", "branch"}
CLASSES = {"BaseIsotherm": "pygaps.core.baseisotherm.BaseIsotherm", "PointIsotherm": "pygaps.core.pointisotherm.PointIsotherm",
           "ModelIsotherm": "pygaps.core.modelisotherm.ModelIsotherm"}


def r_attr(ctx: Ctx, rt: RT):
    ctx.rule("ID-attr: reserved lists equal the audited table; every `self.X = ...` in the isotherm classes is content, "
             "reserved (and hashed separately / cache / column name) - an unclassified attribute silently enters or leaves the id")
    I = rt.I
    allowed_reserved = {}
    for cname, q in CLASSES.items():
        ci = rt.model.cls(q)
        got = I.getattr_(__import__("pgverif.absint", fromlist=["ClassRef"]).ClassRef(ci), "_reserved_params", None)
        want = set()
        for c in [x.name for x in ci.mro()]:
            want |= set(RESERVED_EXPECTED.get(c, {}))
        ctx.ob(set(got) == want, Finding("C05.ID-attr", ci.node and f"{ci.module.relpath}:{ci.node.lineno} {cname}", f"{cname}|reserved:+{sorted(set(got) - want)}-{sorted(want - set(got))}",
                                         f"{cname}._reserved_params has {sorted(set(got) - want)} beyond and lacks {sorted(want - set(got))} of the audited "
                                         "list: a newly reserved attribute leaves the identifier (is it content? then it must be hashed "
                                         "separately; is it a cache? declare it), an un-reserved one enters it"),
               nontrivial_key=("reserved", cname))
        allowed_reserved[cname] = want
    nstores = 0
    for cname, q in CLASSES.items():
        ci = rt.model.cls(q)
        for fi in list(ci.methods.values()) + list(ci.setters.values()):
            for node in ast.walk(fi.node):
                if isinstance(node, ast.Attribute) and isinstance(node.ctx, ast.Store) and isinstance(node.value, ast.Name) and node.value.id == "self":
                    nstores += 1
                    a = node.attr
                    setter = ci.find_setter(a) is not None
                    ok = a in CONTENT_ATTRS or a in allowed_reserved[cname] or (setter and "_" + a in allowed_reserved[cname])
                    ctx.ob(ok, Finding("C05.ID-attr", fi.where, f"{cname}|attribute:{a}",
                                       f"line {node.lineno}: {fi.short} stores self.{a}, which is neither declared content nor reserved: "
                                       "it enters to_dict() and therefore the identifier (a cache filled by a read changes the id)"),
                           nontrivial_key=("attr", cname, a))
    ctx.floor("attribute stores in the isotherm classes", nstores, 25)


def r_hash(ctx: Ctx, rt: RT):
    ctx.rule("ID-hash: isotherm_to_hash digests json.dumps(to_dict() + data_hash, sort_keys=True) with hashlib; data: "
             "round(8), numeric columns normalised to float64, hash_pandas_object(index=False).sum(); model: model.to_dict()")
    I = rt.I
    hf = rt.model.func("pygaps.utilities.hashgen.isotherm_to_hash")
    seen = {}

    def hpo(I, a, k, n):
        seen["hpo"] = (a[0], dict(k))
        seen.setdefault("hpo_calls", []).append(a[0])
        return Obj(kind="HashSeries", attrs={"frame": a[0], "kw": dict(k)})
    for nm in ("is_numeric_dtype", "is_float_dtype", "is_integer_dtype"):
        I.ext[f"pandas.api.types.{nm}"] = lambda I, a, k, n: getattr(a[0], "name", None) != "note"      # the harness' only text column
    I.ext["pandas.util.hash_pandas_object"] = hpo
    I.libmeth[("HashSeries", "sum")] = lambda I, v, a, k, n: Opaque(f"hashsum({v.attrs['frame']!r},{sorted(v.attrs['kw'].items())})")

    def md5(I, a, k, n):
        # hashlib.md5(data) or hashlib.md5() followed by one .update(data)
        if a:
            seen["digest_input"] = a[0]
        return Obj(kind="Hasher", attrs={"doc": a[0] if a else None, "updates": 1 if a else 0})
    for algo in ("md5", "sha1", "sha256", "blake2b"):
        I.ext[f"hashlib.{algo}"] = md5

    def h_update(I, v, a, k, n):
        v.attrs["updates"] += 1
        if v.attrs["updates"] == 1:
            v.attrs["doc"] = a[0]
            seen["digest_input"] = a[0]
        else:
            seen["digest_input"] = ("several-updates", v.attrs["doc"], a[0])
        return None
    I.libmeth[("Hasher", "update")] = h_update
    I.libmeth[("Hasher", "hexdigest")] = lambda I, v, a, k, n: "DIGEST"
    I.ext["builtins.dict.fromkeys"] = lambda I, a, k, n: {I.hashkey(x, n): (a[1] if len(a) > 1 else None) for x in I.iterate(a[0], n)}
    # builtin hash() of text is salted per process, id() is an address: neither is a content digest
    I.ext["builtins.hash"] = lambda I, a, k, n: Opaque("process-dependent:hash()")
    I.ext["builtins.id"] = lambda I, a, k, n: Opaque("process-dependent:id()")
    I.libmeth[("JsonDoc", "encode")] = lambda I, v, a, k, n: v
    I.libmeth[("MiniFrame", "select_dtypes")] = lambda I, f, a, k, n: MiniFrame({c: v for c, v in f.cols.items() if c != "note"}, f.tags)
    saved = I.overrides.pop(hf.qualname, None)
    try:
        for kind in ("base", "point", "model"):
            seen.clear()

            def thunk(I, kind=kind):
                iso = rt.mk_iso(kind, "abs-molar-K")
                return iso, rt.to_dict(iso), I.call_func(hf, [iso], {}, None)
            for oc, _ in rt.explore(thunk):
                if oc.kind != "ok":
                    ctx.ob(False, Finding("C05.ID-hash", hf.where, f"hash|{kind}|raises:{oc.exc.name}", f"isotherm_to_hash raises {oc.exc}"))
                    continue
                iso, d, digest = oc.value
                doc = seen.get("digest_input")
                okdoc = isinstance(doc, Obj) and doc.kind == "JsonDoc"
                ctx.ob(okdoc and digest == "DIGEST", Finding("C05.ID-hash", hf.where, f"hash|{kind}|not-hashlib-of-json",
                                                             "the identifier is not hashlib.<algo>(json.dumps(...)).hexdigest() (builtin hash()/id() "
                                                             "are process dependent)"), nontrivial_key=("hash", kind, "digest"))
                if not okdoc:
                    continue
                ctx.ob(doc.attrs["kw"].get("sort_keys") is True, Finding("C05.ID-hash", hf.where, f"hash|{kind}|sort_keys",
                                                                         "json.dumps is not called with sort_keys=True: key order enters the identifier"),
                       nontrivial_key=("hash", kind, "sort"))
                val = dict(doc.attrs["value"])
                dh = val.pop("data_hash", None)
                ctx.ob(veq(I, val, d), Finding("C05.ID-hash", hf.where, f"hash|{kind}|document!=to_dict",
                                               f"the hashed document has keys {sorted(map(str, val))}, to_dict() has {sorted(map(str, d))}"),
                       nontrivial_key=("hash", kind, "doc"))
                if kind == "point":
                    calls = seen.get("hpo_calls", [])
                    whole = len(calls) == 1 and isinstance(calls[0], MiniFrame) and set(calls[0].cols) == set(iso.attrs["data_raw"].cols)
                    ctx.ob(whole, Finding("C05.ID-hash", hf.where, "hash|point|not-row-wise",
                                          f"the data enter the identifier through {len(calls)} hash_pandas_object call(s) on "
                                          f"{[type(c).__name__ + ':' + str(getattr(c, 'name', list(getattr(c, 'cols', {})))) for c in calls][:4]}: only one row-wise "
                                          "hash of the whole table sees which values sit together in a row (per-column digests are equal for "
                                          "tables whose columns are permuted against each other)"), nontrivial_key=("hash", "point", "rowwise"))
                    if not whole:
                        continue
                    fr, kw = seen.get("hpo", (None, {}))
                    tags = getattr(fr, "tags", ())
                    ok = isinstance(fr, MiniFrame) and ("round", "8") in tags and kw.get("index") is False and \
                        any(t[0] == "astype" and "float64" in t[1] for t in tags) and set(fr.cols) == set(iso.attrs["data_raw"].cols) \
                        and isinstance(dh, (str, Opaque)) or (dh is not None and "hashsum" in I.describe(dh))
                    ok = ok and isinstance(fr, MiniFrame) and ("round", "8") in tags and kw.get("index") is False \
                        and any(t[0] == "astype" and "float64" in t[1] for t in tags)
                    ctx.ob(bool(ok), Finding("C05.ID-hash", hf.where, f"hash|point|data:{tags}|index={kw.get('index')}",
                                             f"point data enter the identifier as hash_pandas_object(<{tags}>, {kw}): they must be rounded to "
                                             "8 decimals, numeric columns normalised to float64, and row labels excluded (index=False)"),
                           nontrivial_key=("hash", "point", "data"))
                elif kind == "model":
                    mtd = I.call_func(rt.model.func("pygaps.modelling.base_model.IsothermBaseModel.to_dict"), [], {}, None, self_obj=iso.attrs["model"])
                    ctx.ob(veq(I, dh, mtd), Finding("C05.ID-hash", hf.where, "hash|model|data_hash!=model.to_dict()",
                                                    f"the model enters the identifier as {I.describe(dh)}"), nontrivial_key=("hash", "model", "data"))
                else:
                    ctx.ob(dh is None, Finding("C05.ID-hash", hf.where, "hash|base|data_hash", "a metadata-only isotherm has a data hash"))
    finally:
        if saved is not None:
            I.overrides[hf.qualname] = saved


def r_literal(ctx: Ctx, rt: RT):
    ctx.rule("ID-literal: integer-typed metadata values and model parameters reach the digest spelled as floats (3 and 3.0 are the same "
             "content): isotherm_to_hash interpreted with python-int tokens in the metadata and the model dictionary")
    I = rt.I
    hf = rt.model.func("pygaps.utilities.hashgen.isotherm_to_hash")
    seen = {}

    def md5(I, a, k, n):
        if a:
            seen["doc"] = a[0]
        return Obj(kind="Hasher", attrs={"doc": a[0] if a else None, "updates": 1 if a else 0})
    for algo in ("md5", "sha1", "sha256", "blake2b"):
        I.ext[f"hashlib.{algo}"] = md5
    I.libmeth[("Hasher", "update")] = lambda I, v, a, k, n: seen.__setitem__("doc", a[0])
    I.libmeth[("Hasher", "hexdigest")] = lambda I, v, a, k, n: "DIGEST"
    I.libmeth[("JsonDoc", "encode")] = lambda I, v, a, k, n: v

    def ints_in(v, path=""):
        if isinstance(v, Obj) and v.kind == "PyInt":
            yield f"{path}={v.label}"
        elif isinstance(v, Obj) and v.kind == "JsonDoc":
            yield from ints_in(v.attrs["value"], path)
        elif isinstance(v, dict):
            for k_, x in v.items():
                yield from ints_in(x, f"{path}/{k_}")
        elif isinstance(v, (list, tuple)):
            for i, x in enumerate(v):
                yield from ints_in(x, f"{path}[{i}]")
    saved = I.overrides.pop(hf.qualname, None)
    n = 0
    try:
        for kind in ("base", "model"):
            def thunk(I, kind=kind):
                seen.clear()
                iso = rt.mk_iso(kind, "abs-molar-K", props={"user": Tok("t_user"), "count": Obj(kind="PyInt", label="int:count"), "flag": True,
                                                            "pair": (Obj(kind="PyInt", label="int:in-tuple"), Tok("t_x")),
                                                            "listed": [Obj(kind="PyInt", label="int:in-list")]})
                if kind == "model":
                    m = iso.attrs["model"]
                    first = next(iter(m.attrs["params"]))
                    m.attrs["params"][first] = Obj(kind="PyInt", label="int:param")
                    m.attrs["pressure_range"] = (Obj(kind="PyInt", label="int:range-lo"), Obj(kind="PyInt", label="int:range-hi"))
                I.call_func(hf, [iso], {}, None)
                return seen.get("doc")
            for oc, _ in rt.explore(thunk):
                if oc.kind != "ok":
                    ctx.ob(False, Finding("C05.ID-literal", hf.where, f"literal|{kind}|raises:{oc.exc.name}", f"isotherm_to_hash raises {oc.exc} for integer content"))
                    continue
                n += 1
                left = list(ints_in(oc.value))
                ctx.ob(oc.value is not None and not left,
                       Finding("C05.ID-literal", hf.where, f"literal|{kind}|{'+'.join(sorted(x.split('=')[1] for x in left)) or 'no-digest'}",
                               f"integer-typed content reaches the digest as an integer ({left}): json spells 3 and 3.0 differently, so the same "
                               "content given as int or as float has two identifiers (and an isotherm differs from its Excel / database re-import, "
                               "which return floats)"), nontrivial_key=("literal", kind))
    finally:
        if saved is not None:
            I.overrides[hf.qualname] = saved
    ctx.floor("ID-literal digests inspected", n, 2)


def r_eq(ctx: Ctx, rt: RT):
    """decided by interpretation (not by the text of the two methods): for every isotherm class `a == b` and `a.iso_id` are run with
    isotherm_to_hash replaced by a table lookup that the scenario changes between the comparisons - equality must follow the *current*
    digests of both operands each time (a stored or memoised identifier would keep the first answer)"""
    ctx.rule("ID-eq: a == b <=> isotherm_to_hash(a) == isotherm_to_hash(b), recomputed at every comparison (digest table changed between "
             "comparisons); iso_id is that digest")
    from ..domain import make_interp
    from ..absint import Obj as _Obj
    hq = "pygaps.utilities.hashgen.isotherm_to_hash"
    n = 0
    for cname, q in CLASSES.items():
        ci = rt.model.cls(q)
        eq = ci.find_method("__eq__")
        if eq is None or ci.find_method("iso_id") is None:
            raise AnalysisError(f"anchor missing: {cname}.__eq__ / iso_id")
        I = make_interp(rt.model)
        table, calls = {}, []

        def hasher(I, fi, env, node):
            o = env.get("isotherm")
            calls.append(o)
            if id(o) not in table:
                raise AnalysisError("isotherm_to_hash called on an object that is not one of the two operands")
            return table[id(o)]
        I.overrides[hq] = hasher
        a, b = _Obj(cls=ci, label="a", attrs={}), _Obj(cls=ci, label="b", attrs={})
        plan = [("x", "x", True), ("x", "y", False), ("y", "y", True), ("z", "y", False), ("z", "z", True)]

        def scenario(I):
            out = []
            for ha, hb, _ in plan:
                table[id(a)], table[id(b)] = ha, hb
                out.append((I.call_func(eq, [b], {}, None, self_obj=a), I.getattr_(a, "iso_id", None)))
            return out
        outs = I.explore(scenario)
        for oc in outs:
            n += 1
            if oc.kind != "ok":
                ctx.ob(False, Finding("C05.ID-eq", eq.where, f"{cname}|eq|raises", f"comparing two {cname} objects: {oc!r}"))
                continue
            got = [(r is True or (r is not False and r == True), i) for r, i in oc.value]      # noqa: E712
            bad = [k for k, ((r, i), (ha, hb, w)) in enumerate(zip(got, plan)) if r != w or i != ha]
            ctx.ob(not bad, Finding("C05.ID-eq", eq.where, f"{cname}|eq|stale-or-wrong:{bad}",
                                    f"{cname}: with the digests of (a, b) set to {[(x, y) for x, y, _ in plan]} in turn, `a == b` / `a.iso_id` gave "
                                    f"{[(r, i) for r, i in oc.value]}; required {[(w, x) for x, _, w in plan]} - equality is equality of the "
                                    "current content digests, recomputed at every comparison"),
                   nontrivial_key=("eq", cname))
    ctx.floor("ID-eq comparison scenarios interpreted", n, 3)


def run(ctx: Ctx):
    rt = RT(ctx.root)
    rt.I.ext["builtins.round"] = lambda I, a, k, n: __import__("pgverif.num", fromlist=["Num"]).Num.atom(f"round({I.describe(a[0])},{I.describe(a[1]) if len(a) > 1 else ''})")
    ctx.assume("hashlib digests and json.dumps(sort_keys=True) are process independent; hash_pandas_object(index=False) depends on values only")
    rc.r_to_dict(ctx, rt, "C05")
    rc.r_registered_material(ctx, rt, "C05")
    rc.r_model_dict(ctx, rt, "C05")
    rc.r_branch_canon(ctx, rt, "C05")
    rc.r_column_order(ctx, rt, "C05")
    r_attr(ctx, rt)
    r_hash(ctx, rt)
    ctx.rule("ID-label: the temperature-unit label a conversion stores is the canonical one for every accepted spelling of the target "
             "(the label is hashed: 'C' / 'degC' / '°C' must not give three identifiers for one content) - convert_temperature interpreted (shared with C02)")
    from .C02 import temperature_rules_for
    temperature_rules_for(ctx, "C05", "ID-label")
    r_literal(ctx, rt)
    r_eq(ctx, rt)
    # "isotherms with the same content - built from lists, from a table ..." : the guessed branch marks are content, and they must
    # depend on the pressure sequence only, not on the row labels of the table the caller happened to pass (shared with C03 R-split)
    from .C03 import r_split_values
    r_split_values(ctx, rt.model, prop="C05")
    # "... or a parse of an export - have the same identifier": the document round trips of C06 / C07 (JSON, CSV, Excel) and the database
    # encoding of metadata values (C08) decide that the content handed back to the constructor is the content exported
    ctx.rule("ID-route: symbolic export->import for JSON, CSV and Excel: constructor input == exported content (shared with C06 / C07; the AIF "
             "route is decided under C07); isotherm_to_db stores numbers and text as themselves, booleans under two spellings (shared with C08)")
    nrt = rc.run_format(ctx, rt, "C05", "json", ())
    nrt += rc.run_format(ctx, rt, "C05", "csv", (("round", "8"),))
    nrt += rc.run_format(ctx, rt, "C05", "excel", None)
    ctx.floor("symbolic JSON / CSV / Excel round trips (identity by route)", nrt, 30)
    from . import C08 as _C08
    _m8, _mach8 = _C08.setup(ctx.root)
    _mach8.cell_values[("isotherm_properties", "type")] = "iso_type"
    _mach8.cell_values[("isotherm_properties", "value")] = "USERVALUE"
    _C08.r_bool(ctx, _m8, _mach8, prop="C05", rule="ID-route")


META = {
    "technique": "attribute classification + abstract interpretation of to_dict / isotherm_to_hash / model.to_dict "
                 "(dataflow from content into the digest)",
    "level_text": "Static: every instance attribute of the three isotherm classes is classified (content / reserved+hashed / "
                  "cache) against the reserved lists read from the source; to_dict and isotherm_to_hash are abstractly "
                  "interpreted on token-valued isotherms so that exactly the content reaches a hashlib digest of a "
                  "sort_keys JSON document, data enter rounded to 8 decimals, dtype-normalised and without row labels, "
                  "the model enters as model.to_dict() with verbatim parameters; __eq__/iso_id are structural. Together "
                  "with C06/C07 (an export carries exactly the content) this gives route independence.",
    "level_note": "Trusted: hashlib/json determinism, hash_pandas_object(index=False) value-only. Not decided: collisions, "
                  "pandas dtype inference of re-imported data.",
}
