"""C10 - isotherm model equations are mutually inverse, monotonic and physically bounded.

Decided statically [ALG = sympy used as a normaliser on terms translated from the source]:
  M-registry  every name in _MODELS resolves to a class with name, calculates, param_names/bounds of equal length;
              _GUESS_MODELS, _IAST_MODELS are subsets; IAST models expose a spreading pressure
  M-inverse   closed-form pairs (Henry, Langmuir, Freundlich, Toth, DR, DA): pressure(loading(p)) - p == 0;
              quadratic-formula inverses (DSLangmuir, BET, GAB, Quadratic): pressure(L) is a root of the
              model equation numer(loading(p) - L)
  M-numinv    numerical inverses (TSLangmuir, TemkinApprox, JensenSeaton, Virial, FHVST, WVST): the residual is
              forward(x) - target (squared for minimise), `not res.success` raises CalculationError, res.x of the
              checked result is returned, the starting point does not read object state
  M-zero      loading(0) == 0 (limit p->0+ for DR/DA) / pressure(0) == 0 for pressure-explicit models
  M-henry     lim n(p)/p for p->0 equals the model's Henry slope (oracle table)
  M-mono      where syntactically decidable: dn/dp > 0 and saturation - n > 0 for positive parameters
Not decided: which root the quadratic formulas select, nan_to_num at 0, numerical accuracy, broadcasting.
"""
from __future__ import annotations

import ast

import sympy as sp

from ..alg import OptResult, Quad, SelfCtx, Translator, decide_zero
from ..core import AnalysisError, Ctx, Finding
from ..sites import OptProtocol
from ..srcmodel import load

MOD = "pygaps.modelling"
CLOSED = ["Henry", "Langmuir", "Freundlich", "Toth", "DR", "DA"]
QUADRATIC = ["DSLangmuir", "BET", "GAB", "Quadratic"]
NUMINV = {"TSLangmuir": "pressure", "TemkinApprox": "pressure", "JensenSeaton": "pressure",
          "Virial": "loading", "FHVST": "loading", "WVST": "loading"}
HENRY = {  # model -> Henry slope over the parameter symbols
    "Henry": "K", "Langmuir": "K*n_m", "DSLangmuir": "K1*n_m1 + K2*n_m2", "TSLangmuir": "K1*n_m1 + K2*n_m2 + K3*n_m3",
    "BET": "C*n_m", "GAB": "C*K*n_m", "Quadratic": "Ka*n_m", "TemkinApprox": "K*n_m", "Toth": "K*n_m", "JensenSeaton": "K",
}
SATURATION = {"Langmuir": "n_m", "DSLangmuir": "n_m1 + n_m2", "TSLangmuir": "n_m1 + n_m2 + n_m3", "Toth": "n_m", "DR": "n_m", "DA": "n_m"}
DOMAIN = {"p": (sp.Rational(1, 20), sp.Rational(9, 10)), "N": (sp.Rational(1, 20), sp.Rational(3, 10)),
          "L": (sp.Rational(1, 10), sp.Rational(1, 2)), "t": (sp.Rational(1, 2), sp.Rational(3, 2)),
          "m": (1, 3), "c": (sp.Rational(1, 2), 2)}


def model_ctx(model, tr, name):
    ci = model.cls(f"{MOD}.{name.lower()}.{name}")
    pn = tr.expr(ci.find_assign("param_names")[1], {"__module__": ci.module.name}, None)
    if isinstance(pn, str):
        pn = (pn,)
    params = {}
    for k in pn:
        params[k] = tr.sym(k)
    attrs = {}
    if ci.find_assign("minus_rt") is not None:
        attrs["minus_rt"] = derived_constant(model, ci, "minus_rt")
    return ci, SelfCtx(ci, params=params, attrs=attrs), pn


_DERIVED = {}


def derived_constant(model, ci, attr):
    """the value __init_parameters__({'temperature': T}) gives a temperature-dependent model constant (DR / DA: minus_rt), as a
    sympy term over the positive symbols R and T - interpreted, so that a wrong sign or factor enters every identity below"""
    key = (id(model), ci.qualname, attr)
    if key in _DERIVED:
        return _DERIVED[key]
    from ..absint import Obj
    from ..domain import make_interp
    I = make_interp(model)
    I.sympy_mode = True
    init = ci.find_method("__init_parameters__")
    if init is None:
        raise AnalysisError(f"anchor missing: {ci.name}.__init_parameters__ (sets {attr})")
    T = sp.Symbol("T", positive=True)

    def thunk(I):
        o = Obj(cls=ci, label="model", attrs={"params": {}})
        I.call_func(init, [{"temperature": T}], {}, None, self_obj=o)
        return o.attrs.get(attr)
    outs = I.explore(thunk)
    if len(outs) != 1 or outs[0].kind != "ok" or not isinstance(outs[0].value, sp.Basic):
        raise AnalysisError(f"{ci.name}.__init_parameters__ does not set {attr} to a closed form: {outs[:1]}")
    _DERIVED[key] = outs[0].value
    return outs[0].value


def r_registry(ctx: Ctx, model, tr):
    ctx.rule("M-registry: _MODELS entries resolve to complete model classes; guess / IAST lists are subsets")
    m = model.module(MOD)
    lists = {}
    for nm in ("_MODELS", "_GUESS_MODELS", "_IAST_MODELS"):
        if nm not in m.assigns:
            raise AnalysisError(f"anchor missing: {MOD}.{nm}")
        lists[nm] = list(tr.expr(m.assigns[nm], {"__module__": MOD}, None))
    ctx.floor("registered models", len(lists["_MODELS"]), 16)
    for name in lists["_MODELS"]:
        modname = f"{MOD}.{name.lower()}"
        ok = modname in model.modules and name in model.modules[modname].classes
        ctx.ob(ok, Finding("C10.M-registry", f"{m.relpath} _MODELS", f"model|{name}|unresolved",
                           f"model '{name}' does not resolve to class {name} in {modname}"), nontrivial_key=("reg", name))
        if not ok:
            continue
        ci = model.modules[modname].classes[name]
        env = {"__module__": modname}
        nm_attr = tr.expr(ci.find_assign("name")[1], env, None)
        calc = tr.expr(ci.find_assign("calculates")[1], env, None)
        pn = tr.expr(ci.find_assign("param_names")[1], env, None)
        pn = (pn,) if isinstance(pn, str) else pn
        pb = tr.expr(ci.find_assign("param_default_bounds")[1], env, None)
        ok2 = nm_attr == name and calc in ("loading", "pressure") and len(pn) == len(pb) and ci.is_subclass_of("IsothermBaseModel") \
            and all(isinstance(b, tuple) and len(b) == 2 for b in pb)
        ctx.ob(ok2, Finding("C10.M-registry", f"{ci.module.relpath}:{ci.node.lineno} {name}", f"model|{name}|attributes",
                            f"{name}: name={nm_attr!r}, calculates={calc!r}, {len(pn)} parameter names vs {len(pb)} bounds"),
               nontrivial_key=("reg-attrs", name))
        for meth in ("loading", "pressure", "spreading_pressure"):
            ctx.ob(meth in ci.methods, Finding("C10.M-registry", f"{ci.module.relpath} {name}", f"model|{name}|missing:{meth}",
                                               f"{name} does not define {meth}()"))
    for sub in ("_GUESS_MODELS", "_IAST_MODELS"):
        extra = set(lists[sub]) - set(lists["_MODELS"])
        ctx.ob(not extra, Finding("C10.M-registry", f"{m.relpath} {sub}", f"{sub}|not-registered:{sorted(extra)}",
                                  f"{sub} names {sorted(extra)} which are not in _MODELS"), nontrivial_key=("subset", sub))
    for name in lists["_IAST_MODELS"]:
        modname = f"{MOD}.{name.lower()}"
        if modname in model.modules and name in model.modules[modname].classes:
            sp_m = model.modules[modname].classes[name].methods.get("spreading_pressure")
            src = ast.unparse(sp_m.node) if sp_m else ""
            ctx.ob(sp_m is not None and "NotImplementedError" not in src,
                   Finding("C10.M-registry", f"{m.relpath} _IAST_MODELS", f"iast|{name}|no-spreading-pressure",
                           f"'{name}' is allowed for IAST but has no spreading pressure"), nontrivial_key=("iast", name))
    return lists


def r_inverse(ctx: Ctx, model, tr):
    ctx.rule("M-inverse [ALG]: pressure(loading(p)) - p normalises to 0 (closed forms); pressure(L) is a root of "
             "numer(loading(p) - L) (quadratic-formula inverses)")
    p, L = tr.sym("p"), tr.sym("L")
    u = tr.sym("u")
    for name in CLOSED:
        ci, mc, pn = model_ctx(model, tr, name)
        n = tr.method(mc, "loading", [p])
        pr = tr.method(mc, "pressure", [n])
        res = pr - p
        if name in ("DR", "DA"):
            res = res.subs(p, sp.exp(-u))       # 0 < p < 1
        verdict, wit = decide_zero(res, symbols_domain=DOMAIN)
        ctx.ob(verdict == "zero", Finding("C10.M-inverse", ci.methods["pressure"].where, f"{name}|pressure(loading(p))!=p",
                                          f"{name}: pressure(loading(p)) - p does not vanish; residual {sp.simplify(res)} = {wit[1] if wit else ''} at {wit[0] if wit else ''}",
                                          {"residual": str(res), "witness": wit}),
               nontrivial_key=("inv", name), sample={"rule": "M-inverse", "model": name, "obligation": "pressure(loading(p)) - p == 0", "loading": str(n)})
        # and the other way round
        pl = tr.method(mc, "pressure", [L])
        res2 = tr.method(mc, "loading", [pl]) - L
        if name in ("DR", "DA"):
            res2 = res2.subs(L, mc.params["n_m"] * sp.exp(-u))
        if name == "Toth":
            res2 = res2.subs(L, mc.params["n_m"] * sp.exp(-u))
        if name == "Langmuir":
            res2 = res2.subs(L, mc.params["n_m"] * (1 - sp.exp(-u)))
        verdict, wit = decide_zero(res2, symbols_domain=DOMAIN)
        ctx.ob(verdict == "zero", Finding("C10.M-inverse", ci.methods["loading"].where, f"{name}|loading(pressure(L))!=L",
                                          f"{name}: loading(pressure(L)) - L does not vanish; witness {wit}",
                                          {"residual": str(res2), "witness": wit}), nontrivial_key=("inv2", name))
    for name in QUADRATIC:
        ci, mc, pn = model_ctx(model, tr, name)
        n = tr.method(mc, "loading", [p])
        P = tr.method(mc, "pressure", [L])
        eq = sp.numer(sp.together(n - L))
        res = sp.expand(eq.subs(p, P))
        res = sp.numer(sp.together(res))
        verdict, wit = decide_zero(res, symbols_domain=DOMAIN)
        ctx.ob(verdict == "zero", Finding("C10.M-inverse", ci.methods["pressure"].where, f"{name}|pressure(L)-not-a-root",
                                          f"{name}: pressure(L) is not a root of the model equation loading(p) = L; witness {wit}",
                                          {"witness": wit}),
               nontrivial_key=("root", name), sample={"rule": "M-inverse", "model": name, "obligation": "numer(loading(p)-L)[p:=pressure(L)] == 0"})


def r_branch(ctx: Ctx, model, tr):
    """which root: both roots of the quadratic satisfy M-inverse; the returned one must be the pressure the loading came from.
    Exact evaluation (rational arithmetic, radicals simplified by sympy) of pressure(loading(p)) at grid points of the
    validity domain: a point where it differs from p is a counterexample computed from the source formula."""
    ctx.rule("M-branch [ALG, exact points]: for the quadratic-formula inverses pressure(loading(p)) == p at a grid of exact "
             "rational points of the validity domain (root selection)")
    import itertools
    p = tr.sym("p")
    R = sp.Rational
    for name in QUADRATIC:
        ci, mc, pn = model_ctx(model, tr, name)
        n = tr.method(mc, "loading", [p])
        back = tr.method(mc, "pressure", [n])
        syms = sorted(mc.params.values(), key=str)
        grids = []
        for sy in syms:
            nm = str(sy)
            if nm in ("N",):
                grids.append([R(1, 10), R(1, 4)])          # BET/GAB-type: N*p < 1 on the grid below
            elif nm == "K" and name == "GAB":
                grids.append([R(1, 5), R(3, 4)])
            else:
                grids.append([R(1, 3), R(2), R(7, 2)])
        npts = bad = 0
        witness = None
        for vals in itertools.islice(itertools.product(*grids), 0, 60 if ctx.tier == "thorough" else 16):
            sub = dict(zip(syms, vals))
            for pv in (R(1, 20), R(1, 2), R(9, 10)):
                val = sp.nsimplify(sp.simplify(back.subs(sub).subs(p, pv)))
                npts += 1
                if sp.simplify(val - pv) != 0:
                    bad += 1
                    witness = witness or ({str(k): str(v) for k, v in sub.items()}, str(pv), str(val))
        ctx.ob(bad == 0, Finding("C10.M-branch", ci.methods["pressure"].where, f"{name}|wrong-root",
                                 f"{name}: pressure(loading(p)) != p at {bad} of {npts} exact points of the validity domain, e.g. parameters "
                                 f"{witness[0] if witness else ''}, p = {witness[1] if witness else ''}: pressure() returns {witness[2] if witness else ''} "
                                 "(the other root of the quadratic)", {"witness": witness}),
               nontrivial_key=("branch", name), sample={"rule": "M-branch", "model": name, "points": npts})
        ctx.analysed[f"branch points {name}"] = npts


def r_state(ctx: Ctx, model):
    """the Dubinin models' temperature-dependent constant: the adsorption potential is A = -RT ln(p/p0), so the constant that
    __init_parameters__ derives from the isotherm's temperature must be exactly -R*T (gas constant x kelvin temperature)"""
    ctx.rule("M-state: DR / DA __init_parameters__({'temperature': T}) sets minus_rt = -R*T (interpreted)")
    R_, T_ = sp.Symbol("R", positive=True), sp.Symbol("T", positive=True)
    for name in ("DR", "DA"):
        ci = model.cls(f"{MOD}.{name.lower()}.{name}")
        val = derived_constant(model, ci, "minus_rt")
        ctx.ob(sp.simplify(val + R_ * T_) == 0, Finding("C10.M-state", ci.find_method("__init_parameters__").where, f"{name}|minus_rt",
                                                         f"{name}.__init_parameters__ sets minus_rt = {val}; the Dubinin potential requires -R*T"),
               nontrivial_key=("state", name))


def r_array(ctx: Ctx, model):
    """scalars and arrays alike, including the zero point: pressure([0, n1, n2]) of the closed-form inverses is, element by element,
    what the scalar calls give (the 0/0 of the quadratic formula at zero loading is repaired wherever it occurs in the array) -
    interpreted at one exact parameter point with the array algebra done on symbolic elements (ndsym)"""
    import numpy as _np
    from ..absint import Obj
    from ..domain import make_interp
    from ..ndsym import install_nd, to_np
    ctx.rule("M-array [exact point]: pressure(array containing 0 and non-zero loadings) == [pressure(x) for x in array] for the closed-form "
             "inverses; pressure(0) == 0")
    R = sp.Rational
    n = 0
    for name in QUADRATIC:
        ci = model.cls(f"{MOD}.{name.lower()}.{name}")
        I = make_interp(model)
        install_nd(I)
        pn = I.class_const(ci, ci.find_assign("param_names")[1])
        pn = (pn,) if isinstance(pn, str) else tuple(pn)
        vals = {"n_m": R(5), "n_m1": R(3), "n_m2": R(2), "C": R(50), "N": R(1, 10), "K": R(3, 4) if name == "GAB" else R(2), "K1": R(2), "K2": R(1, 3),
                "Ka": R(2), "Kb": R(1, 3)}
        params = {k_: vals.get(k_, R(7, 5)) for k_ in pn}
        mk_self = lambda: Obj(cls=ci, label="model", attrs={"params": dict(params), "name": name})
        fl, fp = ci.find_method("loading"), ci.find_method("pressure")
        loads = []
        for pv in (R(1, 20), R(1, 2)):
            o = I.explore(lambda I: I.call_func(fl, [pv], {}, None, self_obj=mk_self()))
            if len(o) != 1 or o[0].kind != "ok":
                raise AnalysisError(f"{name}.loading({pv}) at the exact point cannot be evaluated: {o[:1]}")
            loads.append(sp.nsimplify(sp.simplify(o[0].value)))
        scal = []
        for x in [sp.Integer(0)] + loads:
            o = I.explore(lambda I: I.call_func(fp, [x], {}, None, self_obj=mk_self()))
            scal.append(sp.simplify(o[0].value) if len(o) == 1 and o[0].kind == "ok" else f"raises {o[0].exc.name}" if o else "no outcome")
        arr = _np.array([sp.Integer(0)] + loads, dtype=object)
        o = I.explore(lambda I: I.call_func(fp, [arr], {}, None, self_obj=mk_self()))
        got = [sp.simplify(x) for x in to_np(I, o[0].value)] if len(o) == 1 and o[0].kind == "ok" and isinstance(to_np(I, o[0].value), _np.ndarray) else \
            (f"raises {o[0].exc.name}" if o and o[0].kind != "ok" else repr(o[0].value) if o else "no outcome")
        n += 1
        ok = isinstance(got, list) and len(got) == 3 and all(isinstance(a_, sp.Basic) and isinstance(b_, sp.Basic) and sp.simplify(a_ - b_) == 0
                                                               for a_, b_ in zip(got, scal)) and scal[0] == 0
        ctx.ob(ok, Finding("C10.M-array", fp.where, f"{name}|array-with-zero",
                           f"{name} (parameters {dict((k_, str(v)) for k_, v in params.items())}): pressure([0, {loads[0]}, {loads[1]}]) gives {got} but the scalar "
                           f"calls give {scal}: arrays and scalars must agree and the zero point must map to 0"),
               nontrivial_key=("array", name))
    ctx.floor("closed-form inverses evaluated on arrays", n, 4)


def r_numinv(ctx: Ctx, model, tr):
    """numerical inverses, interpreted with the root finder summarised (its objective is evaluated on a symbolic unknown; its
    success flag is explored both ways) - wherever the call sits (method body, shared helper of the base class, ...)"""
    from ..absint import Obj, Raised
    from ..domain import make_interp
    from ..libsum import Vec, install_vec
    ctx.rule("M-numinv: the objective handed to the root finder is forward(x) - target with the model's own explicit equation; an "
             "unsuccessful solve raises CalculationError; a successful one returns the solver's x; the starting point does not depend on "
             "earlier calls")
    for name, meth in NUMINV.items():
        ci = model.cls(f"{MOD}.{name.lower()}.{name}")
        fi = ci.find_method(meth)
        if fi is None:
            raise AnalysisError(f"anchor missing: {name}.{meth}")
        forward = "pressure" if meth == "loading" else "loading"
        I = make_interp(model)
        install_vec(I)
        I.sympy_mode = True
        for nm_, fn_ in (("log", sp.log), ("exp", sp.exp), ("sqrt", sp.sqrt)):
            I.ext[f"numpy.{nm_}"] = (lambda fn_: lambda I, a, k, n: fn_(a[0]))(fn_)
        I.ext["numpy.zeros_like"] = lambda I, a, k, n: sp.Integer(0)
        I.ext["numpy.asarray"] = lambda I, a, k, n: a[0]
        I.ext["numpy.isnan"] = lambda I, a, k, n: False
        I.ext["numpy.atleast_1d"] = lambda I, a, k, n: a[0] if isinstance(a[0], Vec) else Vec([a[0]])
        I.ext["numpy.empty_like"] = lambda I, a, k, n: Vec([sp.Integer(0)] * len(a[0].items)) if isinstance(a[0], Vec) else sp.Integer(0)
        I.ext["numpy.zeros_like"] = lambda I, a, k, n: sp.Integer(0)
        I.libmeth[("Vec", "ravel")] = lambda I, v, a, k, n: v
        I.libmeth[("Vec", "flatten")] = lambda I, v, a, k, n: v
        I.libmeth[("Sym", "__getitem__")] = lambda I, v, a, k, n: v
        cap = {}
        X, TGT = sp.Symbol("x_unknown", positive=True), sp.Symbol("target", positive=True)

        def solver(which):
            def f(I, a, k, n):
                fun = a[0] if a else k.get("fun")
                cap["solver"] = which
                cap["x0"] = a[1] if len(a) > 1 else k.get("x0")
                cap.setdefault("x0s", []).append(cap["x0"])
                extra = k.get("args", ())
                extra = list(extra) if isinstance(extra, (tuple, list)) else [extra]
                cap["residual"] = I.call_value(fun, [X] + extra, {}, n)
                ok = I.choose(2, "solver.success") == 0
                return Obj(kind="OptRes", label="res", attrs={"x": sp.Symbol("res_x", positive=True), "success": ok, "message": "m",
                                                              "fun": sp.Symbol("res_fun", real=True), "status": sp.Integer(1 if ok else 0)})
            return f
        for which in ("root", "minimize", "minimize_scalar", "least_squares", "brentq", "fsolve"):
            I.ext[f"scipy.optimize.{which}"] = solver(which)
        pn = I.class_const(ci, ci.find_assign("param_names")[1]) if ci.find_assign("param_names") else ()
        pn = (pn,) if isinstance(pn, str) else tuple(pn)
        params = {k_: sp.Symbol(f"par_{k_}", positive=True) for k_ in pn}
        mk_self = lambda: Obj(cls=ci, label="model", attrs={"params": dict(params), "name": name})
        outs = I.explore(lambda I: (cap.clear(), I.call_func(fi, [TGT], {}, None, self_obj=mk_self()), dict(cap))[1:])
        saw = {"ok": 0, "fail": 0}
        for oc in outs:
            dec = dict(oc.decisions)
            if "solver.success" not in dec:
                ctx.ob(False, Finding("C10.M-numinv", fi.where, f"{name}.{meth}|no-solver-call",
                                      f"{name}.{meth} returns / raises ({oc!r}) without calling a scipy.optimize solver"))
                continue
            if dec["solver.success"] == 1:
                saw["fail"] += 1
                ok = oc.kind == "raise" and oc.exc.is_a("CalculationError") and not oc.exc.fault
                ctx.ob(ok, Finding("C10.M-numinv", fi.where, f"{name}.{meth}|failure-not-raised",
                                   f"{name}.{meth}: an unsuccessful solve ends in {oc!r}; CalculationError required"),
                       nontrivial_key=("numinv", name, "fail"))
                continue
            saw["ok"] += 1
            if oc.kind != "ok":
                ctx.ob(False, Finding("C10.M-numinv", fi.where, f"{name}.{meth}|raises-after-success", f"{name}.{meth}: {oc!r} although the solver succeeded"))
                continue
            val, cp = oc.value
            ctx.ob(val == sp.Symbol("res_x", positive=True), Finding("C10.M-numinv", fi.where, f"{name}.{meth}|returns-x",
                                                                    f"{name}.{meth} returns {val!r}; required the solver's x"),
                   nontrivial_key=("numinv", name, "x"))
            # the objective: forward(x) - target, forward being the model's explicit equation
            I2 = I
            fwd = I2.explore(lambda I: I.call_func(ci.find_method(forward), [X], {}, None, self_obj=mk_self()))
            if len(fwd) != 1 or fwd[0].kind != "ok":
                raise AnalysisError(f"{name}.{forward} cannot be evaluated symbolically: {fwd[:1]}")
            want = fwd[0].value - TGT
            res = cp.get("residual")
            squared = cp.get("solver", "").startswith("minimize")
            cands = [want] if not squared else [want**2, sp.Abs(want)]
            okr = isinstance(res, sp.Basic) and any(decide_zero(res - c_)[0] == "zero" for c_ in cands)
            ctx.ob(okr, Finding("C10.M-numinv", fi.where, f"{name}.{meth}|residual-shape",
                                f"{name}.{meth}: the solver's objective is {res}; required {forward}(x) - target" + (" (squared / absolute)" if squared else "")),
                   nontrivial_key=("numinv", name, "residual"))
            x0 = cp.get("x0")
            okx = not (isinstance(x0, sp.Basic) and any(str(s_).startswith("par_") for s_ in x0.free_symbols)) and not isinstance(x0, Obj)
            ctx.ob(okx, Finding("C10.M-numinv", fi.where, f"{name}.{meth}|x0", f"{name}.{meth}: starting point {x0!r} depends on model state"),
                   nontrivial_key=("numinv", name, "x0"))
        # arrays: every element is solved for on its own - no starting point may contain an earlier element's solution
        arr = Vec([sp.Symbol("target0", positive=True), sp.Symbol("target1", positive=True)])
        I.libmeth[("Sym", "__getitem__")] = lambda I, v, a, k, n: v
        try:
            outs2 = I.explore(lambda I: (cap.clear(), I.call_func(fi, [arr], {}, None, self_obj=mk_self()), dict(cap))[1:])
        except AnalysisError:
            outs2 = []          # array handling outside the interpreted fragment: the scalar obligations above stand
        for oc in outs2:
            if oc.kind != "ok":
                continue
            x0s = oc.value[1].get("x0s", [])
            dep = [x0 for x0 in x0s if isinstance(x0, sp.Basic) and any(str(s_) == "res_x" for s_ in x0.free_symbols)]
            ctx.ob(not dep, Finding("C10.M-numinv", fi.where, f"{name}.{meth}|array-elements-coupled",
                                    f"{name}.{meth} on an array starts the solve of one element from the solution of another ({dep[:1]}): the answer for "
                                    "a value then depends on the values before it (spurious roots for unordered input)"),
                   nontrivial_key=("numinv", name, "array"))
        ctx.ob(saw["ok"] >= 1 and saw["fail"] >= 1, Finding("C10.M-numinv", fi.where, f"{name}.{meth}|success-untested",
                                                            f"{name}.{meth}: the solver's success flag does not decide between returning and raising "
                                                            f"(paths: {saw})"), nontrivial_key=("numinv", name, "both"))


# models whose loading(p) the property calls non-decreasing and non-negative on the stated domain, with the domain restrictions of its
# quantifier (below the BET/GAB pole; TemkinApprox only for |theta| <= 3; Quadratic with non-negative constants = its bounds)
MONO_DOMAIN = {
    "Henry": {}, "Langmuir": {}, "DSLangmuir": {}, "TSLangmuir": {}, "Freundlich": {}, "Toth": {}, "JensenSeaton": {}, "Quadratic": {},
    "DR": {"p": "relative"}, "DA": {"p": "relative"}, "BET": {"p": "below-pole"}, "GAB": {"p": "below-pole"},
    "TemkinApprox": {"tht": [sp.Rational(-1), sp.Rational(1, 2), sp.Rational(2)]},
}


def r_mono_refute(ctx: Ctx, model, tr, lists):
    """Refutation only: dn/dp (the derivative of the term translated from the source) is evaluated exactly at a grid of rational
    parameter / pressure points of the stated domain; a point with dn/dp < 0 or n < 0 is a counterexample computed from the source
    formula.  No counterexample is NOT a proof - the clause then stays as decided (or undecided) by M-mono above."""
    import itertools
    ctx.rule("M-mono (refutation) [exact points]: no grid point of the stated domain has dn/dp < 0 or n < 0 for the loading-explicit models")
    R = sp.Rational
    p = tr.sym("p")
    tested = 0
    for name in lists["_MODELS"]:
        if name not in MONO_DOMAIN:
            continue
        ci, mc, pn = model_ctx(model, tr, name)
        n = tr.method(mc, "loading", [p])
        if isinstance(n, OptResult):
            continue
        d = sp.diff(n, p)
        syms = sorted(mc.params.values(), key=str)
        dom = MONO_DOMAIN[name]
        grids = []
        for sy in syms:
            nm = str(sy)
            if nm in dom:
                grids.append(dom[nm])
            elif nm in ("N",) or (nm == "K" and name == "GAB"):
                grids.append([R(1, 10), R(3, 4)])
            elif nm in ("m", "t", "c"):
                grids.append([R(1, 2), R(2), R(3)])
            else:
                grids.append([R(1, 3), R(5, 2)])
        pts = [R(1, 50), R(1, 5), R(3, 5), R(9, 10)] if dom.get("p") in ("relative", "below-pole") else [R(1, 50), R(1, 2), R(3), R(40)]
        worst = None
        for vals in itertools.islice(itertools.product(*grids), 0, 64 if ctx.tier == "thorough" else 24):
            sub = dict(zip(syms, vals))
            if name == "Quadratic":
                pass
            for pv in pts:
                if dom.get("p") == "below-pole":
                    pole = [v for k_, v in sub.items() if str(k_) in ("N", "K")]
                    if pole and pv * max(pole) >= 1:
                        continue
                tested += 1
                dv = d.subs(sub).subs(p, pv)
                nv = n.subs(sub).subs(p, pv)
                try:
                    dneg, nneg = bool(sp.N(dv, 30) < -sp.Float("1e-25")), bool(sp.N(nv, 30) < -sp.Float("1e-25"))
                except TypeError:
                    continue
                if dneg or nneg:
                    worst = worst or ({str(k_): str(v) for k_, v in sub.items()}, str(pv), str(sp.N(nv, 8)), str(sp.N(dv, 8)))
        ctx.ob(worst is None, Finding("C10.M-mono", ci.methods["loading"].where, f"{name}|decreasing-or-negative-at-a-point",
                                      f"{name}: with parameters {worst[0] if worst else ''} at p = {worst[1] if worst else ''} the loading is "
                                      f"{worst[2] if worst else ''} and dn/dp = {worst[3] if worst else ''}: inside the validity range the loading must be "
                                      "non-negative and non-decreasing in pressure", {"witness": worst}),
               nontrivial_key=("mono-refute", name))
    ctx.floor("monotonicity refutation points", tested, 300)


def r_zero_henry_mono(ctx: Ctx, model, tr, lists):
    ctx.rule("M-zero / M-henry / M-mono [ALG]: n(0)=0, lim n/p = Henry slope, dn/dp>0 and n<saturation where decidable")
    p, L = tr.sym("p"), tr.sym("L")
    for name in lists["_MODELS"]:
        ci, mc, pn = model_ctx(model, tr, name)
        calc = tr.expr(ci.find_assign("calculates")[1], {"__module__": ci.module.name}, None)
        if calc == "loading":
            n = tr.method(mc, "loading", [p])
            if isinstance(n, (OptResult,)):
                continue
            try:
                z = sp.limit(n, p, 0, "+") if name in ("DR", "DA", "Freundlich") else sp.simplify(n.subs(p, 0))
            except Exception as ex:
                raise AnalysisError(f"[ALG] limit of {name}.loading at 0: {ex}")
            ctx.ob(z == 0, Finding("C10.M-zero", ci.methods["loading"].where, f"{name}|loading(0)={z}",
                                   f"{name}: loading at zero pressure is {z}, not 0"), nontrivial_key=("zero", name),
                   sample={"rule": "M-zero", "model": name, "value": str(z)})
            if name in HENRY:
                want = sp.sympify(HENRY[name], locals={k: v for k, v in mc.params.items()})
                lim = sp.simplify(sp.limit(n / p, p, 0, "+"))
                verdict, wit = decide_zero(lim - want)
                ctx.ob(verdict == "zero", Finding("C10.M-henry", ci.methods["loading"].where, f"{name}|henry-slope",
                                                  f"{name}: lim n(p)/p for p->0 is {lim}, the model's Henry slope is {want}"),
                       nontrivial_key=("henry", name))
            if name in SATURATION:
                sat = sp.sympify(SATURATION[name], locals=dict(mc.params))
                expr = n
                if name in ("DR", "DA"):
                    expr = n.subs(p, sp.exp(-tr.sym("u")))
                gap = sp.simplify(sat - expr)
                d = sp.simplify(sp.diff(n, p))
                if name in ("DR", "DA"):
                    d = sp.simplify(d.subs(p, sp.exp(-tr.sym("u"))))
                pos_gap, pos_d = gap.is_positive, d.is_positive
                if pos_gap is False or pos_d is False:
                    ctx.ob(False, Finding("C10.M-mono", ci.methods["loading"].where, f"{name}|mono-or-bound",
                                          f"{name}: saturation - n = {gap} (positive: {pos_gap}); dn/dp = {d} (positive: {pos_d})"))
                else:
                    ctx.ob(True, nontrivial_key=("mono", name, str(pos_gap), str(pos_d)))
                    ctx.analysed.setdefault("mono_decided", {})[name] = {"bounded": bool(pos_gap), "increasing": bool(pos_d)}
        else:
            pr = tr.method(mc, "pressure", [L])
            z = sp.simplify(pr.subs(L, 0))
            ctx.ob(z == 0, Finding("C10.M-zero", ci.methods["pressure"].where, f"{name}|pressure(0)={z}",
                                   f"{name}: pressure at zero loading is {z}, not 0"), nontrivial_key=("zero", name))


def run(ctx: Ctx):
    from ..sites import model_methods_stateless as _mms
    _mms(ctx, load(ctx.root), "C10", "M-fresh")
    model = load(ctx.root)
    tr = Translator(model)
    ctx.assume("sympy's simplification is sound (a residual that normalises to 0 is identically 0 on the declared domain)")
    ctx.assume("scipy.optimize results: .success is truthful, .x belongs to the same result")
    from ..sites import no_dtype_inheriting_storage
    ctx.rule("M-dtype: no model method stores computed values into an array created with *_like(<its input>) without dtype "
             "(scalars and arrays alike: integer-typed input must give the same numbers as float input)")
    no_dtype_inheriting_storage(ctx, model, "C10", "M-dtype", ("pygaps.modelling.",), "computed pressures / loadings")
    lists = r_registry(ctx, model, tr)
    r_branch(ctx, model, tr)      # exact-point counterexamples first: they stand even if a normal form cannot be reached later
    r_inverse(ctx, model, tr)
    r_numinv(ctx, model, tr)
    r_array(ctx, model)
    r_state(ctx, model)
    r_zero_henry_mono(ctx, model, tr, lists)
    r_mono_refute(ctx, model, tr, lists)
    ctx.analysed["models"] = lists["_MODELS"]
    ctx.rule("M-iso: evaluating through a ModelIsotherm (pressure / loading_at / pressure_at / spreading_pressure_at) is the bare model "
             "applied to F_in * x and scaled by F_out, with the permanent-conversion factors, for every stored representation x request "
             "(the accessor interpretation of C03 restricted to ModelIsotherm)")
    from .C03 import accessors_for
    accessors_for(ctx, "C10", "M-iso", ["model"], floor=500)
    from ..sites import model_methods_stateless, no_memoisation
    ctx.rule("M-fresh: no caching decorator on any function of pygaps.modelling.")
    no_memoisation(ctx, load(ctx.root), "C10", "M-fresh", ('pygaps.modelling.',),
                   "model equations must be evaluated with the current parameters: a cached loading/pressure survives a refit or a parameter change")


META = {
    "technique": "algebraic normal forms: model equations translated from the AST to sympy terms, identities normalised to 0; "
                 "optimiser-call protocol rules; registry lint; abstract interpretation of the ModelIsotherm accessors against the "
                 "conversion oracle",
    "level_text": "Static [ALG]: loading/pressure of all 16 model classes are translated from the source into symbolic terms "
                  "(positive parameter symbols); inverse identities, root-of-the-model-equation obligations, zero-pressure "
                  "values, Henry limits and (where syntactically decidable) monotonicity/boundedness are discharged by "
                  "normalising the residual to 0 for ALL parameter values, not the single vector per model the tests use. "
                  "A non-vanishing residual is classified with exact rational evaluation of the checker's own term "
                  "(witness) - a pass never relies on numbers. Numerical inverses are checked structurally.",
    "level_note": "Trusted: sympy normalisation soundness; scipy optimiser result fields. Not decided: root selection of the "
                  "quadratic formulas, nan_to_num at 0, numerical accuracy and array broadcasting; the activity terms of the pressure-explicit VST models (their loading is the numerical inverse of their own pressure - no independent equation is stated).",
}
