"""C04 - read-only queries and analyses are pure and independent of query history.

Decided statically:
  R-pure       transitive write set (E4 effect/alias analysis over resolved callees) of every read-only entry
               point on every isotherm / adsorbate / material reachable from its parameters is contained in the
               declared caches {l_interpolator, p_interpolator, _state, _backend_mode}
  R-module     module-level objects written from an entry point are in the declared table (write-once caches,
               name registries); write-once caches are guarded `if key in CACHE: return CACHE[key]`;
               no memoisation decorator hides a cache
  R-cache-use  the interpolator caches are read only in the canonical "rebuild if absent or key differs" test and
               as the callee of the interpolation (any other read makes the outcome history dependent)
  R-state      abstract interpretation of every Adsorbate getter after every other getter at another temperature:
               each CoolProp read is positioned by an update(QT/PQ, ...) of the same call (the shared state never
               leaks a previous call's (T, Q)); results equal those on a fresh object
  R-reset      (with C02) every data-changing conversion drops both interpolators
Not decided: equality of numeric results between first and later call beyond library determinism.
"""
from __future__ import annotations

import ast
import itertools
import re

from ..absint import NeedChoice, Obj, Outcome, Raised
from ..core import AnalysisError, Ctx, Finding
from ..domain import make_interp
from ..effects import Effects, name_kind
from ..num import Num
from ..srcmodel import load

CACHE_FIELDS = {"l_interpolator", "p_interpolator", "_state", "_backend_mode"}
ISO_CLASSES = ["pygaps.core.baseisotherm.BaseIsotherm", "pygaps.core.pointisotherm.PointIsotherm",
               "pygaps.core.modelisotherm.ModelIsotherm"]
# module-level objects an entry point may write, with the reason (one line each)
GLOBAL_TABLE = {
    "pygaps.characterisation.psd_kernel._LOADED": "write-once cache of parsed kernel files, keyed by path",
    "pygaps.characterisation.models_thickness._LOADED": "write-once cache of standard-isotherm interpolators, keyed by name",
    "pygaps.data.ADSORBATE_LIST": "name registry: appended only by constructors called with store=True / by *_from_db, *_to_db",
    "pygaps.data.MATERIAL_LIST": "name registry: appended only by constructors called with store=True / by *_from_db, *_to_db",
}
WRITE_ONCE = ["pygaps.characterisation.psd_kernel._LOADED", "pygaps.characterisation.models_thickness._LOADED"]
MEMO_DECORATORS = re.compile(r"(lru_cache|functools\.cache|\bcache\b|cached_property|memoi[sz]e)")


def entry_points(model):
    eps = []
    for mname, m in model.modules.items():
        if mname.startswith("pygaps.characterisation."):
            eps += [f for n, f in m.functions.items() if not n.startswith("_")]
        if mname == "pygaps.iast.pgiast":
            eps += [f for n, f in m.functions.items() if not n.startswith("_")]
        if mname == "pygaps.modelling":
            eps += [f for n, f in m.functions.items() if n == "model_iso"]
        if mname in ("pygaps.parsing.json", "pygaps.parsing.csv", "pygaps.parsing.excel", "pygaps.parsing.aif"):
            eps += [f for n, f in m.functions.items() if n.startswith("isotherm_to_")]
        if mname == "pygaps.parsing.sqlite":
            eps += [f for n, f in m.functions.items() if n in ("isotherm_to_db", "adsorbate_to_db", "material_to_db")]
    for q in ISO_CLASSES:
        c = model.cls(q)
        for n, f in c.methods.items():
            if n.startswith("convert") or n == "__init__" or n.startswith("from_") or n == "guess":
                continue
            if n.startswith("_") and not n.startswith("__"):
                continue        # private helpers are judged through the public entry points that call them (transitive write sets)
            eps.append(f)
    return eps


def r_pure(ctx: Ctx, model, eff: Effects):
    ctx.rule("R-pure: transitive write set of each read-only entry point on isotherm/adsorbate/material objects "
             "reachable from its parameters, minus the declared cache fields, is empty")
    eps = entry_points(model)
    ctx.floor("read-only entry points", len(eps), 100)
    for fi in eps:
        s = eff.sum[eff.key(fi)]
        bad = []
        for root, path in sorted(s.writes):
            k = eff.kind_of(fi, root, ())
            if k not in ("iso", "isolist", "ads", "mat"):
                continue
            if any(p in CACHE_FIELDS for p in path):
                continue
            bad.append((root, path))
        ctx.ob(not bad, None if not bad else Finding(
            "C04.R-pure", fi.where, f"{fi.short}|" + ",".join(sorted({f"{r}.{'.'.join(x for x in p if x != '[]')}" for r, p in bad})),
            f"{fi.short}() may write " + "; ".join(
                f"{r}.{'.'.join(p)} ({_wit(eff, fi, r, p)})" for r, p in bad[:6]) +
            " - a read-only query must leave its arguments observably unchanged",
            {"writes": [[r, list(p)] for r, p in bad]}),
            nontrivial_key=("pure", fi.qualname) if s.writes or s.calls else None,
            sample={"rule": "R-pure", "entry": fi.qualname, "writes": sorted(f"{r}.{'.'.join(p)}" for r, p in s.writes)[:6]})
    ctx.analysed["entry_points"] = len(eps)
    return eps


def _wit(eff, fi, r, p):
    w = eff.sites.get((eff.key(fi), r, p))
    return f"line {w[0]}: {w[1]}" if w else "via callee"


def r_module(ctx: Ctx, model, eff: Effects, eps, prop="C04", rule="R-module", write_once=None, memo=True):
    write_once = WRITE_ONCE if write_once is None else write_once
    ctx.rule(f"{rule}: module-level objects written from an entry point are declared (write-once caches, "
             "registries); write-once caches are guarded by a membership test that returns the cached value; "
             "no memoisation decorator anywhere in the package")
    for fi in eps:
        s = eff.sum[eff.key(fi)]
        for g, path in sorted(s.gwrites):
            ctx.ob(g in GLOBAL_TABLE, Finding(
                f"{prop}.{rule}", fi.where, f"{fi.short}|global:{g}",
                f"{fi.short}() may write the module-level object {g} ({_wit(eff, fi, 'global:' + g, path)}), which is not a "
                "declared cache/registry: the outcome of later calls may depend on earlier ones"),
                nontrivial_key=("module", fi.qualname, g))
    # write-once discipline
    for g in write_once:
        mod, name = g.rsplit(".", 1)
        m = model.module(mod)
        if name not in m.assigns:
            raise AnalysisError(f"anchor missing: {g}")
        writers = 0
        for fn in m.functions.values():
            stores = [n for n in ast.walk(fn.node) if isinstance(n, ast.Subscript) and isinstance(n.ctx, ast.Store)
                      and isinstance(n.value, ast.Name) and n.value.id == name]
            def _root(e):
                depth = 0
                while isinstance(e, ast.Subscript):
                    e = e.value
                    depth += 1
                return (e.id if isinstance(e, ast.Name) else None), depth
            other = [n for n in ast.walk(fn.node) if isinstance(n, ast.Call) and isinstance(n.func, ast.Attribute)
                     and _root(n.func.value)[0] == name
                     and n.func.attr in ("update", "pop", "clear", "setdefault", "popitem", "append", "extend", "insert",
                                         "remove", "sort", "reverse", "__setitem__", "__delitem__")]
            # stores into an entry of the cache (name[key][...] = ...) mutate a cached value
            other += [n for n in ast.walk(fn.node) if isinstance(n, ast.Subscript) and isinstance(n.ctx, (ast.Store, ast.Del))
                      and _root(n)[0] == name and _root(n)[1] >= 2]
            dels = [n for n in ast.walk(fn.node) if isinstance(n, ast.Delete)
                    and any(isinstance(t, ast.Subscript) and isinstance(t.value, ast.Name) and t.value.id == name for t in n.targets)]
            if not stores and not other and not dels:
                continue
            writers += 1
            ok = not other and not dels
            for st in stores:
                key = ast.unparse(st.slice)
                guarded = False
                hit = f"{name}[{key}]"
                for node in fn.node.body:
                    if node.lineno >= st.lineno:
                        continue
                    # idiom 1: `if key in CACHE: return CACHE[key]`
                    if isinstance(node, ast.If) and ast.unparse(node.test) == f"{key} in {name}" and node.body \
                            and isinstance(node.body[-1], ast.Return) and ast.unparse(node.body[-1].value) == hit:
                        guarded = True
                    # idiom 2: `try: return CACHE[key]` / `except KeyError: pass`
                    if isinstance(node, ast.Try) and node.body and isinstance(node.body[0], ast.Return) and ast.unparse(node.body[0].value) == hit \
                            and any(h.type is not None and "KeyError" in ast.unparse(h.type) for h in node.handlers):
                        guarded = True
                    # idiom 3: `v = CACHE.get(key)` followed by `if v is not None: return v`
                    if isinstance(node, ast.Assign) and ast.unparse(node.value) in (f"{name}.get({key})", f"{name}.get({key}, None)") \
                            and len(node.targets) == 1 and isinstance(node.targets[0], ast.Name):
                        var = node.targets[0].id
                        for n2 in fn.node.body:
                            if isinstance(n2, ast.If) and ast.unparse(n2.test) == f"{var} is not None" and n2.body \
                                    and isinstance(n2.body[-1], ast.Return) and ast.unparse(n2.body[-1].value) == var and n2.lineno < st.lineno:
                                guarded = True
                # idiom 4: the store itself sits under `if key not in CACHE:`
                for node in ast.walk(fn.node):
                    if isinstance(node, ast.If) and ast.unparse(node.test) == f"{key} not in {name}" and any(x is st for b in node.body for x in ast.walk(b)):
                        guarded = True
                ok = ok and guarded
                # the key must determine the cached value: a parameter itself (or an injective spelling of it); a key that drops
                # information (file stem, basename, rounded number, lower-cased text) makes different inputs share one entry
                kexpr = st.slice
                if isinstance(kexpr, ast.Name) and kexpr.id not in fn.params():
                    defs = [a.value for a in ast.walk(fn.node) if isinstance(a, ast.Assign) and any(isinstance(t, ast.Name) and t.id == kexpr.id for t in a.targets)]
                    kexpr = defs[-1] if len(defs) == 1 else kexpr

                def injective(e):
                    if isinstance(e, ast.Name):
                        return e.id in fn.params()
                    if isinstance(e, ast.Tuple):
                        return all(injective(x) for x in e.elts)
                    if isinstance(e, ast.Call) and len(e.args) == 1 and not e.keywords and ast.unparse(e.func) in (
                            "str", "os.fspath", "os.path.abspath", "os.path.realpath", "pathlib.Path", "tuple", "repr"):
                        return injective(e.args[0])
                    if isinstance(e, ast.Call) and isinstance(e.func, ast.Attribute) and e.func.attr in ("resolve", "absolute", "as_posix") and not e.args:
                        return injective(e.func.value)
                    return False
                ctx.ob(injective(kexpr), Finding(f"{prop}.{rule}", fn.where, f"{fn.short}|cache-key-lossy:{name}",
                                                 f"{fn.short}() files its result in {g} under `{ast.unparse(kexpr)}`, which does not determine the "
                                                 "arguments (different inputs share one entry): a later call with another input is answered with "
                                                 "the value cached for the first"),
                       nontrivial_key=("cache-key-injective", g, fn.name))
            ctx.ob(ok, Finding(f"{prop}.{rule}", fn.where, f"{fn.short}|write-once:{name}",
                               f"{fn.short}() stores into the cache {g} without the guard `if key in {name}: return {name}[key]` "
                               "(or mutates/deletes entries): cached values could change between calls"),
                   nontrivial_key=("write-once", g, fn.name))
        ctx.floor(f"writers of {g}", writers, 1)
    if not memo:
        return
    # memoisation decorators
    nfun = 0
    for fi in model.all_functions():
        nfun += 1
        for d in fi.decorators:
            if MEMO_DECORATORS.search(d):
                ctx.ob(False, Finding(f"{prop}.{rule}", fi.where, f"{fi.short}|memoised:{d}",
                                      f"{fi.short} is memoised with @{d}: an undeclared cache keyed by argument hash/equality "
                                      "(adsorbates and materials hash by name only; model objects are mutable) makes results "
                                      "depend on earlier calls"))
    ctx.ob(True, nontrivial_key=("memo", "scan"))
    ctx.analysed["functions_scanned_for_memoisation"] = nfun


_KEY_SEEN = set()


def _key_complete(ctx, fi, field, if_node, ctor):
    """the rebuild test compares exactly the interp_* parameters the constructor receives, with the same expressions:
    a parameter that shapes the interpolator but is not part of the key makes the answer depend on earlier queries"""
    if (fi.qualname, if_node.lineno) in _KEY_SEEN:
        return
    _KEY_SEEN.add((fi.qualname, if_node.lineno))
    compared = {}
    for c in ast.walk(if_node.test):
        if isinstance(c, ast.Compare) and len(c.ops) == 1 and isinstance(c.ops[0], ast.NotEq) and isinstance(c.left, ast.Attribute) \
                and isinstance(c.left.value, ast.Attribute) and c.left.value.attr == field:
            compared[c.left.attr] = ast.unparse(c.comparators[0])
    passed = {k.arg: ast.unparse(k.value) for k in ctor.keywords if k.arg and k.arg.startswith("interp_")}
    ok = compared == passed and not any(isinstance(b, ast.BoolOp) and isinstance(b.op, ast.And) for b in [if_node.test])
    ctx.ob(ok, Finding("C04.R-cache-use", fi.where, f"{fi.short}|cache-key:{field}",
                       f"line {if_node.lineno}: the rebuild test of {field} compares {compared} but the interpolator is built with {passed}: "
                       "every interp_* parameter must be both compared and passed (same expression), otherwise a query after a different "
                       "query reuses an interpolator built for other parameters"),
           nontrivial_key=("cache-key", fi.qualname, field))


def r_cache_key(ctx: Ctx):
    """history independence of the interpolated accessors: what a query returns depends on its own arguments, not on the arguments
    of the query that filled the cache (decided by interpretation - shared with C03 R-cache)"""
    from . import C03
    from ..spec_iso import all_states, mkstate
    ctx.rule("R-cache-key: with a cache left by a query for another branch / kind / fill value the accessor rebuilds the interpolator; "
             "with a cache for the same arguments it reuses it; afterwards the cache describes the current arguments")
    E = C03.Engine(ctx.root, False)
    pres, load_, mat, tus = all_states(E.t, False)
    n = C03.cache_discipline(ctx, E, mkstate(pres[0], load_[0], mat[0], tus[0]), prop="C04")
    ctx.floor("cache-discipline cases", n, 30)


def r_cache_use(ctx: Ctx, model):
    _KEY_SEEN.clear()
    ctx.rule("R-cache-use: l_interpolator / p_interpolator are read only inside the canonical rebuild test "
             "(whose body re-assigns the field from IsothermInterpolator(...)) or as the callee of the interpolation")
    reads = 0
    # loading_at / pressure_at and the private helpers of the class they call are decided by interpretation (R-cache-key, all cache
    # states x arguments): however they spell the test. The syntactic rule guards every OTHER function against consulting the caches.
    pi = model.cls("pygaps.core.pointisotherm.PointIsotherm")
    interpreted, todo = set(), [m for m in (pi.find_method("loading_at"), pi.find_method("pressure_at")) if m is not None]
    while todo:
        f_ = todo.pop()
        if f_.qualname in interpreted:
            continue
        interpreted.add(f_.qualname)
        for c in ast.walk(f_.node):
            if isinstance(c, ast.Call) and isinstance(c.func, ast.Attribute) and isinstance(c.func.value, ast.Name) and c.func.value.id == "self" \
                    and c.func.attr.startswith("_") and pi.find_method(c.func.attr) is not None:
                todo.append(pi.find_method(c.func.attr))
    for fi in model.all_functions():
        if fi.qualname in interpreted:
            reads += sum(1 for n in ast.walk(fi.node) if isinstance(n, ast.Attribute) and n.attr in ("l_interpolator", "p_interpolator"))
            continue
        parents = {}
        for n in ast.walk(fi.node):
            for ch in ast.iter_child_nodes(n):
                parents[ch] = n
        for n in ast.walk(fi.node):
            if isinstance(n, ast.Attribute) and n.attr in ("l_interpolator", "p_interpolator") and isinstance(n.ctx, ast.Load):
                reads += 1
                p = parents.get(n)
                ok = False
                if isinstance(p, ast.Call) and p.func is n:
                    ok = True
                else:
                    q = n
                    while q in parents and not isinstance(parents[q], (ast.If, ast.FunctionDef)):
                        q = parents[q]
                    par = parents.get(q)
                    if isinstance(par, ast.If) and par.test is q:
                        # body must rebuild the same field from IsothermInterpolator
                        for st in par.body:
                            if isinstance(st, ast.Assign) and any(isinstance(t, ast.Attribute) and t.attr == n.attr for t in st.targets) \
                                    and isinstance(st.value, ast.Call) and ast.unparse(st.value.func).endswith("IsothermInterpolator"):
                                ok = True
                ctx.ob(ok, Finding("C04.R-cache-use", fi.where, f"{fi.short}|reads:{n.attr}",
                                   f"line {n.lineno}: {fi.short} reads the cache field {n.attr} outside the rebuild test / "
                                   f"interpolation call (`{ast.unparse(parents.get(n, n))[:90]}`): the outcome depends on which "
                                   "queries ran before"),
                       nontrivial_key=("cache-use", fi.qualname, n.lineno))
    ctx.analysed["syntactic reads of interpolator cache fields"] = reads


# ---- R-state -----------------------------------------------------------------------------------------

GETTERS_T = ["saturation_pressure", "surface_tension", "liquid_density", "liquid_molar_density", "gas_density",
             "gas_molar_density", "enthalpy_liquefaction", "enthalpy_vaporisation", "pressure_saturation"]
GETTERS_0 = ["molar_mass", "p_triple", "t_triple", "p_critical", "t_critical"]


def mk_real_adsorbate(I, model):
    ci = model.cls("pygaps.core.adsorbate.Adsorbate")
    return I.instantiate(ci, ["ADS"], {"backend_name": "BK"}, None)


def call_getter(I, ads, name, T, press=False):
    fv = I.getattr_(ads, name, None)
    if name in GETTERS_0:
        return I.call_value(fv, [], {}, None)
    if press:
        return I.call_value(fv, [], {"press": T}, None)
    return I.call_value(fv, [T], {}, None)


def explore_seq(I, model, seq):
    """run a sequence of getter calls on one adsorbate; returns list of per-path (values list)"""
    out = []
    work = [[]]
    while work:
        dec = work.pop()
        I.reset(dec)
        try:
            ads = mk_real_adsorbate(I, model)
            vals = []
            for (name, T, press) in seq:
                try:
                    vals.append(("ok", call_getter(I, ads, name, T, press)))
                except Raised as r:
                    vals.append(("raise", r.exc.name))
        except NeedChoice as nc:
            for i in reversed(range(nc.n)):
                work.append(dec + [i])
            continue
        out.append(vals)
    return out


def r_state(ctx: Ctx, model, prop="C04", rule="R-state"):
    ctx.rule(f"{rule}: for every ordered pair of Adsorbate getters (g1 at T1, g2 at T2, g1 at T1 again): the third "
             "result equals the first and equals the result on a fresh object; every CoolProp read is positioned by "
             "an update of the same call")
    I = make_interp(model)
    T1, T2 = Num.atom("T1"), Num.atom("T2")
    allg = [(g, False) for g in GETTERS_T] + [("enthalpy_vaporisation", True), ("enthalpy_liquefaction", True)] + [(g, False) for g in GETTERS_0]
    ci = model.cls("pygaps.core.adsorbate.Adsorbate")
    for g, _ in allg:
        if ci.find_method(g) is None:
            raise AnalysisError(f"anchor missing: Adsorbate.{g}")
    fresh = {}
    for g, press in allg:
        r = explore_seq(I, model, [(g, T1, press)])
        if len(r) != 1:
            raise AnalysisError(f"Adsorbate.{g} forks on abstract input")
        fresh[(g, press)] = r[0][0]
        # positioned reads only
        kind, v = r[0][0]
        ok = kind == "ok" and isinstance(v, Num) and not any("@None" in a or "stale" in a for a in v.atoms())
        ctx.ob(ok, Finding(f"{prop}.{rule}", ci.methods[g].where, f"Adsorbate.{g}|unpositioned-read",
                           f"Adsorbate.{g}: on a fresh object the result is {I.describe(v) if kind == 'ok' else v}; a CoolProp "
                           "property is read without positioning the shared state in the same call"),
               nontrivial_key=("state", g, press, "fresh"))
    n = 0
    for (g1, p1), (g2, p2) in itertools.product(allg, allg):
        seq = [(g1, T1, p1), (g2, T2, p2), (g1, T1, p1)]
        for vals in explore_seq(I, model, seq):
            n += 1
            first, third = vals[0], vals[2]

            def same(a, b):
                return a[0] == b[0] and (a[1] == b[1] if a[0] == "ok" else a[1] == b[1])
            ok = same(first, third) and same(first, fresh[(g1, p1)])
            ctx.ob(ok, Finding(f"{prop}.{rule}", ci.methods[g1].where, f"Adsorbate.{g1}|after:{g2}",
                               f"Adsorbate.{g1}({'press=' if p1 else ''}T1) after {g2}({'press=' if p2 else ''}T2) gives "
                               f"{_d(I, third)} but {_d(I, fresh[(g1, p1)])} on a fresh object: the shared thermodynamic "
                               "state leaks between calls"),
                   nontrivial_key=("state", g1, p1, g2, p2),
                   sample={"rule": rule, "sequence": [g1, g2, g1], "third": _d(I, third)} if n % 40 == 1 else None)
    ctx.floor("getter sequences interpreted", n, 150)


def _d(I, v):
    return I.describe(v[1]) if v[0] == "ok" else f"raises {v[1]}"


def run(ctx: Ctx):
    model = load(ctx.root)
    ctx.assume("pandas selections (.loc/.iloc with a mask) return copies; numpy/pandas arithmetic returns new arrays")
    ctx.assume("CoolProp AbstractState property reads depend only on the last update()")
    eff = Effects(model)
    ctx.analysed["functions_summarised"] = len(eff.sum)
    ctx.analysed["fixpoint_rounds"] = eff.rounds
    eps = r_pure(ctx, model, eff)
    r_module(ctx, model, eff, eps)
    r_cache_use(ctx, model)
    r_cache_key(ctx)
    r_state(ctx, model)
    # "loaded kernels ... are invisible", also after a load that failed part-way (shared with C18)
    from .C18 import r_load_failure
    r_load_failure(ctx, model, prop="C04", rule="R-module")


META = {
    "technique": "interprocedural effect / alias analysis (write sets over resolved callees), cache-use lint, "
                 "abstract interpretation of getter sequences on the shared CoolProp state",
    "level_text": "Static: a whole-package effect analysis computes, for each of the >100 read-only entry points "
                  "(characterisation, IAST, model_iso, exports, every non-converting isotherm method), the transitive "
                  "set of parameter-reachable fields it may write and requires it to be within the declared caches; "
                  "module-level writes must be declared write-once caches or registries, no memoisation decorators; "
                  "cache fields may only be read in the canonical rebuild test; all ordered getter pairs on the "
                  "shared thermodynamic state are abstractly interpreted. Tests cannot enumerate call histories; the "
                  "write set and the cache-read sites are finite and all visible in the source.",
    "level_note": "Trusted: pandas mask selections copy; CoolProp state reads depend only on the last update. "
                  "May-analysis: a reported write is possible on some path, an absent write is impossible on all paths "
                  "through resolved callees (attribute calls resolved by receiver kind, else by method name).",
}
