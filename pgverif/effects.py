"""E4 - effect (write-set) and alias analysis over the whole package.

Per function: which parameter-reachable paths may be written, which module-level objects may be written,
which parameter paths the return value may alias.  Flow-insensitive inside a function, propagated over
resolved callees to a fixpoint.  Fresh objects: constructor results, .copy()/deepcopy, literals,
arithmetic, pandas selections (documented assumption), to_dict() (derived: its summary returns no alias).
"""
from __future__ import annotations

import ast
from collections import defaultdict

from .srcmodel import ClassInfo, FuncInfo, SrcModel

MUTATING = {"append", "extend", "insert", "remove", "pop", "clear", "update", "setdefault", "popitem", "sort",
            "reverse", "add", "discard", "drop_duplicates_inplace", "fill", "resize", "put", "itemset"}
# names that are far more often builtin container/str methods than repo methods
BUILTIN_AMBIGUOUS = {"get", "pop", "update", "copy", "find", "index", "count", "keys", "values", "items", "format",
                     "replace", "split", "join", "strip", "lower", "upper", "append", "extend", "sort", "insert",
                     "remove", "clear", "startswith", "endswith", "sum", "max", "min", "mean", "round", "any", "all",
                     "plot", "set", "add"}
FRESH_CALLS = {"copy", "deepcopy", "to_dict", "tolist", "to_numpy", "astype", "round", "dropna", "fillna", "reindex",
               "reset_index", "sort_values", "drop", "rename", "assign", "apply", "map", "loc", "iloc", "between",
               "asarray", "array", "list", "dict", "tuple", "set", "sorted", "str", "float", "int", "len", "max",
               "min", "sum", "abs", "range", "zip", "enumerate", "linspace", "DataFrame", "Series", "concat",
               "isinstance", "getattr", "hasattr", "format", "join", "lower", "upper", "keys", "values", "items",
               "get", "read_csv", "dumps", "loads"}

Path = tuple   # (root, (attr, ...))

import re as _re

KIND_CLASSES = {
    "iso": "pygaps.core.baseisotherm.BaseIsotherm",
    "ads": "pygaps.core.adsorbate.Adsorbate",
    "mat": "pygaps.core.material.Material",
    "model": "pygaps.modelling.base_model.IsothermBaseModel",
}


def name_kind(name, annotation=None):
    n = name.lower()
    ann = (annotation or "")
    if "isotherm" in ann.lower() and "list" not in ann.lower():
        return "iso"
    if _re.search(r"isotherms|iso_list|isos$", n):
        return "isolist"
    if _re.search(r"isotherm|^iso$|^iso_|_iso$", n):
        return "iso"
    if _re.search(r"adsorbate", n):
        return "ads"
    if _re.search(r"material", n):
        return "mat"
    if n == "model":
        return "model"
    return None


def step_kind(kind, attr):
    if attr == "[]":
        return "iso" if kind == "isolist" else None
    if attr in ("adsorbate", "_adsorbate"):
        return "ads"
    if attr in ("material", "_material"):
        return "mat"
    if attr == "model" and kind == "iso":
        return "model"
    return None


class Summary:
    __slots__ = ("writes", "returns", "gwrites", "calls")

    def __init__(self):
        self.writes = set()     # {(param_name, path)}
        self.returns = set()    # {(param_name, path)}
        self.gwrites = set()    # {(qualified global name, path, where)}
        self.calls = set()


def _hold(r, p):
    """a fresh container (display) holding a reference to (r, p)"""
    return (r, p if p and p[-1] == "@" else p + ("@",))


def _elem(r, p):
    """element of a container: the held object of a fresh display, else an item of the aliased container"""
    if p and p[-1] == "@":
        return (r, p[:-1])
    return (r, _trim(p + ("[]",)))


def _trim(path):
    # keep head and tail: the tail decides whether the written field is a declared cache
    return path if len(path) <= 6 else path[:2] + ("...",) + path[-3:]


class Effects:
    def __init__(self, model: SrcModel):
        self.model = model
        self.funcs = {f.qualname: f for f in model.all_functions()}
        # setters share the qualname of their getter: index separately
        self.setters = {}
        for c in model.all_classes():
            for n, f in c.setters.items():
                self.setters[(c.qualname, n)] = f
        self.sum = {}
        self.by_method = defaultdict(list)
        for c in model.all_classes():
            for n, f in c.methods.items():
                self.by_method[n].append(f)
        self.sites = {}     # (func key, root, path) -> (lineno, description)  first witness
        self._analyse()

    # ------------------------------------------------------------------
    def key(self, fi: FuncInfo):
        return ("setter:" if fi.is_setter else "") + fi.qualname

    def all_fis(self):
        for f in self.model.all_functions():
            yield f

    def _analyse(self):
        fis = list(self.all_fis())
        for f in fis:
            self.sum[self.key(f)] = Summary()
        changed = True
        rounds = 0
        while changed and rounds < 12:
            changed = False
            rounds += 1
            for f in fis:
                s = self.sum[self.key(f)]
                before = (len(s.writes), len(s.returns), len(s.gwrites))
                self._func(f, s)
                if (len(s.writes), len(s.returns), len(s.gwrites)) != before:
                    changed = True
        self.rounds = rounds

    # ------------------------------------------------------------------
    def _func(self, fi: FuncInfo, s: Summary):
        node = fi.node
        a = node.args
        params = [x.arg for x in a.posonlyargs + a.args + a.kwonlyargs]
        if a.vararg:
            params.append(a.vararg.arg)
        fresh_params = set()
        if a.kwarg:
            fresh_params.add(a.kwarg.arg)       # **kwargs is a new dict per call
        alias = defaultdict(set)
        for p in params:
            alias[p].add((p, ()))
        if fi.is_classmethod and params:
            alias[params[0]].clear()
        module_globals = set(fi.module.assigns) | set(fi.module.imports)
        declared_global = set()
        for st in ast.walk(node):
            if isinstance(st, ast.Global):
                declared_global.update(st.names)
        local_names = set(params) | fresh_params
        for st in ast.walk(node):
            if isinstance(st, ast.Name) and isinstance(st.ctx, ast.Store) and st.id not in declared_global:
                local_names.add(st.id)
            elif isinstance(st, (ast.Import, ast.ImportFrom)):
                for al in st.names:
                    local_names.add((al.asname or al.name).split(".")[0])

        def refs(e):
            """set of (root, path) the value of e may alias"""
            if isinstance(e, ast.Name):
                if e.id in alias:
                    return set(alias[e.id])
                if e.id in local_names:
                    return set()
                if e.id in fi.module.assigns:
                    return {(f"global:{fi.module.name}.{e.id}", ())}
                if e.id in fi.module.imports:
                    r = self.model.resolve(fi.module.name, e.id)
                    if r and r[0] == "const":
                        return {(f"global:{r[1].name}.{[k for k, v in r[1].assigns.items() if v is r[2]][0]}", ())}
                return set()
            if isinstance(e, ast.Attribute):
                out = set()
                for r, p in refs(e.value):
                    if p and p[-1] == "@":
                        continue
                    prop = self.property_of(self.kind_of(fi, r, p), e.attr)
                    if prop is not None:
                        ps = self.sum.get(self.key(prop))
                        formal = (prop.params() or ["self"])[0]
                        for rr, pp in (ps.returns if ps else ()):
                            if rr == formal:
                                out.add((r, _trim(p + pp)))
                            elif rr.startswith("global:"):
                                out.add((rr, pp))
                    else:
                        out.add((r, _trim(p + (e.attr,))))
                return out
            if isinstance(e, ast.Subscript):
                if isinstance(e.value, ast.Attribute) and e.value.attr in ("loc", "iloc", "at", "iat"):
                    return set()        # pandas selection: a copy (documented assumption)
                return {_elem(r, p) for r, p in refs(e.value)}
            if isinstance(e, ast.Starred):
                return refs(e.value)
            if isinstance(e, (ast.IfExp,)):
                return refs(e.body) | refs(e.orelse)
            if isinstance(e, ast.BoolOp):
                out = set()
                for v in e.values:
                    out |= refs(v)
                return out
            if isinstance(e, (ast.Tuple, ast.List, ast.Set)):
                out = set()
                for v in e.elts:
                    out |= {_hold(r, p) for r, p in refs(v)}
                return out
            if isinstance(e, ast.Dict):
                out = set()
                for v in e.values:
                    if v is not None:
                        out |= {_hold(r, p) for r, p in refs(v)}
                return out
            if isinstance(e, ast.NamedExpr):
                return refs(e.value)
            if isinstance(e, ast.Call):
                return call_returns(e)
            return set()

        def callees(call: ast.Call):
            """list of (FuncInfo, receiver expr or None)"""
            f = call.func
            if isinstance(f, ast.Name):
                if f.id in alias or (f.id in local_names and f.id not in fi.module.imports):
                    return []
                r = self.model.resolve(fi.module.name, f.id)
                if r is None:
                    return []
                if r[0] == "func":
                    return [(r[1], None)]
                if r[0] == "class":
                    init = r[1].find_method("__init__")
                    return [(init, "ctor")] if init else []
                return []
            if isinstance(f, ast.Attribute):
                m = f.attr
                # module.function
                if isinstance(f.value, ast.Name) and f.value.id not in alias and f.value.id not in local_names:
                    r = self.model.resolve(fi.module.name, f.value.id)
                    if r and r[0] == "module":
                        rr = self.model.resolve(r[1], m)
                        if rr and rr[0] == "func":
                            return [(rr[1], None)]
                        if rr and rr[0] == "class":
                            init = rr[1].find_method("__init__")
                            return [(init, "ctor")] if init else []
                        return []
                    if r and r[0] == "class":
                        mm = r[1].find_method(m)
                        return [(mm, "cls")] if mm else []
                    if r and r[0] == "ext":
                        return []
                # super().m()
                if isinstance(f.value, ast.Call) and isinstance(f.value.func, ast.Name) and f.value.func.id == "super" and fi.cls:
                    for c in fi.cls.mro()[1:]:
                        if m in c.methods:
                            return [(c.methods[m], "super")]
                    return []
                # self.m() with known class
                if isinstance(f.value, ast.Name) and f.value.id == "self" and fi.cls is not None and not fi.is_staticmethod:
                    out = []
                    mm = fi.cls.find_method(m)
                    if mm:
                        out.append((mm, f.value))
                    # overrides in subclasses
                    for c in self.model.all_classes():
                        if c is not fi.cls and c.is_subclass_of(fi.cls.qualname) and m in c.methods:
                            out.append((c.methods[m], f.value))
                    if out:
                        return out
                kinds = {self.kind_of(fi, r, p) for r, p in refs(f.value)}
                kinds.discard(None)
                if kinds:
                    out = []
                    for k in kinds:
                        out += [(x, f.value) for x in self.methods_of_kind(k, m)]
                    return out
                if m in BUILTIN_AMBIGUOUS:
                    return []
                return [(x, f.value) for x in self.by_method.get(m, []) if not x.is_property]
            return []

        def bind_actuals(callee: FuncInfo, call: ast.Call, recv):
            """formal parameter name -> set of refs of the actual"""
            ca = callee.node.args
            formals = [x.arg for x in ca.posonlyargs + ca.args]
            m = {}
            pos = list(call.args)
            if recv is not None and not isinstance(recv, str) and formals and not callee.is_staticmethod:
                if callee.is_classmethod:
                    formals = formals[1:]
                else:
                    m[formals[0]] = refs(recv)
                    formals = formals[1:]
            elif recv in ("ctor", "super", "cls") and formals and not callee.is_staticmethod:
                if recv == "super":
                    m[formals[0]] = set(alias.get(params[0], set())) if params else set()
                formals = formals[1:]
            for i, a_ in enumerate(pos):
                if isinstance(a_, ast.Starred):
                    continue
                if i < len(formals):
                    m[formals[i]] = refs(a_)
            for k in call.keywords:
                if k.arg is not None:
                    m[k.arg] = refs(k.value)
            return m

        def actual_expr(callee: FuncInfo, call: ast.Call, recv, formal):
            """the AST of the actual argument bound to a formal parameter of the callee at this call (None if not found / starred)"""
            ca = callee.node.args
            formals = [x.arg for x in ca.posonlyargs + ca.args]
            if formals and not callee.is_staticmethod and (recv is not None):
                formals = formals[1:]
            for k in call.keywords:
                if k.arg == formal:
                    return k.value
            if formal in formals:
                i = formals.index(formal)
                if i < len(call.args) and not any(isinstance(a_, ast.Starred) for a_ in call.args[:i + 1]):
                    return call.args[i]
            return None

        def call_returns(call: ast.Call):
            f = call.func
            name = f.attr if isinstance(f, ast.Attribute) else (f.id if isinstance(f, ast.Name) else None)
            out = set()
            cs = callees(call)
            if name == "copy" and len(call.args) == 1 and not call.keywords and \
                    ((isinstance(f, ast.Attribute) and isinstance(f.value, ast.Name) and f.value.id == "copy") or isinstance(f, ast.Name)):
                # copy.copy(x): a new object whose attributes reference the same objects as x's
                return {(r, _trim(p + ("^",))) for r, p in refs(call.args[0])}
            if not cs:
                if name in FRESH_CALLS or name is None:
                    return set()
                # unknown external method on an aliased receiver: pandas/numpy results are fresh
                return set()
            for callee, recv in cs:
                if recv == "ctor":
                    continue
                cs_ = self.sum.get(self.key(callee))
                if cs_ is None:
                    continue
                actual = bind_actuals(callee, call, recv)
                for root, path in list(cs_.returns):
                    if root.startswith("global:"):
                        out.add((root, path))
                    for r, p in actual.get(root, ()):
                        out.add((r, _trim(p + path)))
            return out

        def record(root, path, node_, what):
            if root in fresh_params:
                return
            if "^" in path:
                # "^" marks a shallow copy (copy.copy): a store to an attribute of the copy itself is private to the copy,
                # anything deeper goes through an object the copy shares with the original
                i = len(path) - 1 - path[::-1].index("^")
                if i >= len(path) - 2:
                    return
                path = path[:i] + path[i + 1:]
                what = what + " (through a shallow copy, which shares this object with the original)"
            if "@" in path[:-1] or (path and path[-1] == "@"):
                return      # a store into / mutation of a fresh container
            if root.startswith("global:"):
                s.gwrites.add((root[7:], path))
                self.sites.setdefault((self.key(fi), root, path), (node_.lineno, what))
            else:
                s.writes.add((root, path))
                self.sites.setdefault((self.key(fi), root, path), (node_.lineno, what))

        def write_target(t, node_):
            if isinstance(t, ast.Attribute):
                for r, p in refs(t.value):
                    record(r, _trim(p + (t.attr,)), node_, f"store to .{t.attr}")
            elif isinstance(t, ast.Subscript):
                for r, p in refs(t.value):
                    if p and p[-1] == "@":
                        continue
                    record(r, _trim(p + ("[]",)), node_, "item store")
            elif isinstance(t, (ast.Tuple, ast.List)):
                for e in t.elts:
                    write_target(e, node_)
            elif isinstance(t, ast.Name) and t.id in declared_global:
                record(f"global:{fi.module.name}.{t.id}", (), node_, "global rebind")

        def node_effects(st):
            """effects of one AST node (not descending): stores, mutating calls, callee write sets"""
            if isinstance(st, ast.Assign):
                for t in st.targets:
                    write_target(t, st)
            elif isinstance(st, (ast.AugAssign, ast.AnnAssign)):
                if not (isinstance(st, ast.AnnAssign) and st.value is None):
                    write_target(st.target, st)
                    if isinstance(st, ast.AugAssign) and isinstance(st.target, ast.Name):
                        # x += ... on an aliased mutable (list/array) mutates in place
                        for r, p in alias.get(st.target.id, ()):
                            if p and p[-1] != "[]":   # inner objects only; elements / bare parameters rebind locally
                                record(r, p, st, "augmented assignment (in place for arrays/lists)")
            elif isinstance(st, ast.Delete):
                for t in st.targets:
                    write_target(t, st)
            elif isinstance(st, ast.Call):
                f = st.func
                if isinstance(f, ast.Attribute):
                    inplace = any(k.arg == "inplace" and isinstance(k.value, ast.Constant) and k.value.value is True
                                  for k in st.keywords)
                    if f.attr in MUTATING or inplace:
                        for r, p in refs(f.value):
                            if p and p[-1] == "@":
                                continue
                            record(r, _trim(p + ("[]",)), st, f".{f.attr}({'inplace=True' if inplace else ''})")
                    if f.attr == "setattr":
                        pass
                if isinstance(f, ast.Name) and f.id == "setattr" and st.args:
                    # setattr(obj, <name>, value): the attribute is known when <name> is a literal, a conditional of literals, or a
                    # parameter of this function (then resolved at each call site: "$param:<formal>")
                    nm = st.args[1] if len(st.args) > 1 else None
                    if isinstance(nm, ast.Name) and nm.id not in params:
                        # a local bound exactly once to a literal / conditional of literals
                        defs = [x.value for x in ast.walk(fi.node) if isinstance(x, ast.Assign) and len(x.targets) == 1
                                and isinstance(x.targets[0], ast.Name) and x.targets[0].id == nm.id]
                        others = [x for x in ast.walk(fi.node) if isinstance(x, (ast.AugAssign, ast.For, ast.NamedExpr, ast.comprehension))
                                  and any(isinstance(y, ast.Name) and y.id == nm.id and isinstance(getattr(y, "ctx", None), ast.Store) for y in ast.walk(x))]
                        if len(defs) == 1 and not others:
                            nm = defs[0]
                    if isinstance(nm, ast.Constant) and isinstance(nm.value, str):
                        fields = [nm.value]
                    elif isinstance(nm, ast.IfExp) and all(isinstance(x, ast.Constant) and isinstance(x.value, str) for x in (nm.body, nm.orelse)):
                        fields = [nm.body.value, nm.orelse.value]
                    elif isinstance(nm, ast.Name) and nm.id in params and not any(
                            isinstance(x, (ast.Assign, ast.AugAssign)) and any(isinstance(t_, ast.Name) and t_.id == nm.id
                                                                               for t_ in (x.targets if isinstance(x, ast.Assign) else [x.target]))
                            for x in ast.walk(fi.node)):
                        fields = [f"$param:{nm.id}"]
                    else:
                        fields = ["*"]
                    for r, p in refs(st.args[0]):
                        for fld in fields:
                            record(r, _trim(p + (fld,)), st, "setattr()")
                for callee, recv in callees(st):
                    cs_ = self.sum.get(self.key(callee))
                    if cs_ is None:
                        continue
                    s.calls.add(self.key(callee))
                    actual = bind_actuals(callee, st, recv)
                    for root, path in list(cs_.writes):
                        if recv == "ctor" and root == (callee.params() or ["self"])[0]:
                            continue    # writes to the freshly constructed object
                        paths = [path]
                        if any(isinstance(x, str) and x.startswith("$param:") for x in path):
                            # attribute named by one of the callee's parameters: resolve it from this call's actual argument
                            paths = []
                            cands = [[]]
                            for x in path:
                                if isinstance(x, str) and x.startswith("$param:"):
                                    e_ = actual_expr(callee, st, recv, x[7:])
                                    if isinstance(e_, ast.Constant) and isinstance(e_.value, str):
                                        opts = [e_.value]
                                    elif isinstance(e_, ast.IfExp) and all(isinstance(y, ast.Constant) and isinstance(y.value, str) for y in (e_.body, e_.orelse)):
                                        opts = [e_.body.value, e_.orelse.value]
                                    elif isinstance(e_, ast.Name) and e_.id in params:
                                        opts = [f"$param:{e_.id}"]
                                    else:
                                        opts = ["*"]
                                else:
                                    opts = [x]
                                cands = [c + [o] for c in cands for o in opts]
                            paths = [tuple(c) for c in cands]
                        for path_ in paths:
                            for r, p in actual.get(root, ()):
                                record(r, _trim(p + path_), st, f"via {callee.short}()")
                    for g, path in list(cs_.gwrites):
                        record("global:" + g, path, st, f"via {callee.short}()")
            # property setters invoked by attribute stores
            if isinstance(st, (ast.Assign, ast.AugAssign)):
                tgts = st.targets if isinstance(st, ast.Assign) else [st.target]
                for t in tgts:
                    if isinstance(t, ast.Attribute):
                        for (cq, n), setter in self.setters.items():
                            if n == t.attr:
                                cs_ = self.sum.get(self.key(setter))
                                if cs_ is None:
                                    continue
                                formals = setter.params()
                                for root, path in list(cs_.writes):
                                    if root == formals[0]:
                                        for r, p in refs(t.value):
                                            record(r, _trim(p + path), st, f"via setter {setter.short}")
                                    elif len(formals) > 1 and root == formals[1]:
                                        for r, p in refs(st.value):
                                            record(r, _trim(p + path), st, f"via setter {setter.short}")
                                for g, path in list(cs_.gwrites):
                                    record("global:" + g, path, st, f"via setter {setter.short}")


        def expr_effects(e):
            if e is None:
                return
            for n in ast.walk(e):
                if isinstance(n, ast.comprehension):
                    rv = {_elem(r, p) for r, p in refs(n.iter)}
                    tg = n.target
                    for x in ([tg] if isinstance(tg, ast.Name) else getattr(tg, "elts", [])):
                        if isinstance(x, ast.Name):
                            alias[x.id] |= rv
            for n in ast.walk(e):
                if isinstance(n, ast.NamedExpr) and isinstance(n.target, ast.Name):
                    alias[n.target.id] = refs(n.value)
                if isinstance(n, ast.Call):
                    node_effects(n)

        def bind(target, rv, strong=True):
            if isinstance(target, ast.Name):
                if strong:
                    alias[target.id] = set(rv)
                else:
                    alias[target.id] |= rv
            elif isinstance(target, (ast.Tuple, ast.List)):
                for e in target.elts:
                    bind(e.value if isinstance(e, ast.Starred) else e, rv, strong)

        def snapshot():
            return {k: set(v) for k, v in alias.items()}

        def merge_into(other):
            for k, v in other.items():
                alias[k] |= v

        def restore(snap):
            alias.clear()
            for k, v in snap.items():
                alias[k] = set(v)

        def do_block(stmts):
            for st in stmts:
                do_stmt(st)

        def do_stmt(st):
            if isinstance(st, (ast.FunctionDef, ast.AsyncFunctionDef, ast.ClassDef, ast.Lambda)):
                # nested definitions (closures such as optimiser residuals): analysed in place, weak updates
                for n in ast.walk(st):
                    if isinstance(n, (ast.Assign, ast.AugAssign, ast.AnnAssign, ast.Delete, ast.Call)):
                        node_effects(n)
                return
            if isinstance(st, ast.If):
                expr_effects(st.test)
                snap = snapshot()
                do_block(st.body)
                after_body = snapshot()
                restore(snap)
                do_block(st.orelse)
                merge_into(after_body)
                return
            if isinstance(st, (ast.For, ast.AsyncFor)):
                expr_effects(st.iter)
                rv = {_elem(r, p) for r, p in refs(st.iter)}
                snap = snapshot()
                for _ in range(2):
                    bind(st.target, rv, strong=False)
                    do_block(st.body)
                    merge_into(snap)
                do_block(st.orelse)
                return
            if isinstance(st, ast.While):
                snap = snapshot()
                for _ in range(2):
                    expr_effects(st.test)
                    do_block(st.body)
                    merge_into(snap)
                do_block(st.orelse)
                return
            if isinstance(st, ast.Try):
                snap = snapshot()
                do_block(st.body)
                merge_into(snap)
                for h in st.handlers:
                    do_block(h.body)
                do_block(st.orelse)
                do_block(st.finalbody)
                return
            if isinstance(st, (ast.With, ast.AsyncWith)):
                for it in st.items:
                    expr_effects(it.context_expr)
                    if it.optional_vars is not None:
                        bind(it.optional_vars, refs(it.context_expr))
                do_block(st.body)
                return
            if isinstance(st, ast.Assign):
                expr_effects(st.value)
                node_effects(st)
                rv = refs(st.value)
                for t in st.targets:
                    bind(t, rv)
                return
            if isinstance(st, ast.AnnAssign):
                expr_effects(st.value)
                node_effects(st)
                if st.value is not None:
                    bind(st.target, refs(st.value))
                return
            if isinstance(st, ast.AugAssign):
                expr_effects(st.value)
                node_effects(st)
                return
            if isinstance(st, ast.Delete):
                node_effects(st)
                return
            if isinstance(st, ast.Return):
                expr_effects(st.value)
                if st.value is not None:
                    for r, p in refs(st.value):
                        if r not in fresh_params:
                            s.returns.add((r, p))
                return
            # Expr, Raise, Assert, ...
            for ch in ast.iter_child_nodes(st):
                if isinstance(ch, ast.expr):
                    expr_effects(ch)

        do_block(node.body)

    # ------------------------------------------------------------------
    def kind_of(self, fi: FuncInfo, root, path):
        if root.startswith("global:"):
            return None
        kind = None
        params = fi.params()
        if params and root == params[0] and fi.cls is not None and not fi.is_staticmethod and not fi.is_classmethod:
            for k, q in KIND_CLASSES.items():
                if fi.cls.is_subclass_of(q):
                    kind = k
        else:
            ann = None
            for a_ in fi.node.args.posonlyargs + fi.node.args.args + fi.node.args.kwonlyargs:
                if a_.arg == root and a_.annotation is not None:
                    ann = ast.unparse(a_.annotation)
            kind = name_kind(root, ann)
        for attr in path:
            if attr == "...":
                return None
            nk = step_kind(kind, attr)
            if nk is None:
                prop = self.property_of(kind, attr)
                if prop is None:
                    return None
                return None
            kind = nk
        return kind

    def classes_of_kind(self, kind):
        q = KIND_CLASSES.get(kind)
        if q is None:
            return []
        return [c for c in self.model.all_classes() if c.is_subclass_of(q)]

    def property_of(self, kind, attr):
        for c in self.classes_of_kind(kind):
            m = c.find_method(attr)
            if m is not None and m.is_property:
                return m
        return None

    def methods_of_kind(self, kind, name):
        out, seen = [], set()
        for c in self.classes_of_kind(kind):
            m = c.find_method(name)
            if m is not None and not m.is_property and m.qualname not in seen:
                seen.add(m.qualname)
                out.append(m)
        return out

    def witness(self, fi: FuncInfo, root, path, depth=0, seen=None):
        """a call chain from fi down to the statement that performs the write"""
        w = self.sites.get((self.key(fi), root, path))
        if w is None:
            return []
        return [(fi.where, w[0], w[1])]
