"""E1 - abstract interpreter for the Python fragment used by the unit converters, the isotherm
conversion methods / accessors and the Adsorbate property getters.

It reads the AST only.  Inputs are abstract: concrete *labels* (strings, None, bools), exact symbolic
numbers (pgverif.num.Num) for data and constants, abstract objects with attribute maps and opaque
library values.  A branch condition that cannot be decided from the abstract input forks the path
(decision-list replay); a construct outside the fragment raises AnalysisError naming the node.
"""
from __future__ import annotations

import ast
import copy
from fractions import Fraction

from .core import AnalysisError
from .num import Num
from .srcmodel import ClassInfo, FuncInfo, SrcModel

try:
    import sympy as _sp
except ImportError:     # the interpreter itself does not need sympy
    _sp = None


def _is_sym(v):
    return _sp is not None and isinstance(v, _sp.Basic)


LIB_CONST_SYMBOL = {"scipy.constants.R": "R", "scipy.constants.gas_constant": "R", "scipy.constants.Avogadro": "N_A",
                    "scipy.constants.N_A": "N_A", "scipy.constants.electron_mass": "m_e", "scipy.constants.speed_of_light": "c_l",
                    "scipy.constants.c": "c_l", "scipy.constants.Boltzmann": "k_B", "scipy.constants.k": "k_B"}


def num_to_sym(v):
    """Num -> sympy (atoms become positive symbols)"""
    if _is_sym(v):
        return v
    if type(v).__name__ == "ExtRef":
        if v.dotted in LIB_CONST_SYMBOL:
            return _sp.Symbol(LIB_CONST_SYMBOL[v.dotted], positive=True)
        if v.dotted.endswith(".pi"):
            return _sp.pi
        raise TypeError(v)
    if isinstance(v, bool):
        return _sp.Integer(int(v))
    if isinstance(v, Num):
        out = _sp.Integer(0)
        for k, c in v.terms.items():
            term = _sp.Rational(c.numerator, c.denominator)
            for a, p_ in k:
                term = term * _sp.Symbol(a, positive=True) ** _sp.Rational(p_.numerator, p_.denominator)
            out = out + term
        return out
    raise TypeError(v)

# ---------------------------------------------------------------------------
# values


class Obj:
    """abstract object: instance of a repo class (cls) or of a library class (kind)"""

    def __init__(self, cls=None, kind=None, attrs=None, label=None):
        self.cls = cls
        self.kind = kind or (cls.name if cls else "object")
        self.attrs = dict(attrs or {})
        self.label = label or self.kind

    def __repr__(self):
        return f"<Obj {self.label}>"

    def __deepcopy__(self, memo):
        o = Obj(self.cls, self.kind, None, self.label)
        memo[id(self)] = o
        o.attrs = {k: copy.deepcopy(v, memo) for k, v in self.attrs.items()}
        return o


def opt_args(k):
    """the extra positional arguments scipy.optimize passes to the objective (`args=` of minimize / root / least_squares ...)"""
    extra = k.get("args", ())
    return list(extra) if isinstance(extra, (tuple, list)) else [extra]


class LazyIter:
    """a lazy iterator (iter(callable, sentinel), itertools.takewhile over one ...): `pull(I, node)` returns the next item or LazyIter.STOP.
    A for loop that leaves early does not consume the rest (e.g. a reader that stops at a section header)."""
    STOP = object()

    def __init__(self, pull, label="iterator"):
        self.pull = pull
        self.label = label

    def __deepcopy__(self, memo):
        return self

    def __repr__(self):
        return f"<LazyIter {self.label}>"


class PySet(list):
    """a python set / frozenset: duplicate-free, iteration in insertion order; equality and the set operators ignore the order"""
    __slots__ = ()

    def __deepcopy__(self, memo):
        return PySet(copy.deepcopy(x, memo) for x in self)


class DefaultDict(dict):
    """collections.defaultdict: a missing key is created by calling `factory`"""
    factory = None


class Opaque:
    """opaque library value / result; `tag` is its provenance"""

    def __init__(self, tag, callable_=False):
        self.tag = tag
        self.callable_ = callable_

    def __repr__(self):
        return f"<Opaque {self.tag}>"

    def __deepcopy__(self, memo):
        return self


class Term:
    """uninterpreted term over abstract arrays / scalars: (op, args, kwargs); built by the term fallbacks below. Structural
    equality; arithmetic, indexing, method calls and library calls on terms build bigger terms, comparisons / truth fork."""
    __slots__ = ("op", "args", "kw")

    def __init__(self, op, args=(), kw=()):
        self.op = op
        self.args = tuple(args)
        self.kw = tuple(sorted(kw.items())) if isinstance(kw, dict) else tuple(kw)

    def _key(self):
        return (self.op, tuple(_term_key(a) for a in self.args), tuple((k, _term_key(v)) for k, v in self.kw))

    def __eq__(self, o):
        return isinstance(o, Term) and self._key() == o._key()

    def __hash__(self):
        return hash(self._key())

    def __repr__(self):
        inner = [_term_str(a) for a in self.args] + [f"{k}={_term_str(v)}" for k, v in self.kw]
        return f"{self.op}({', '.join(inner)})"

    def subterms(self):
        yield self
        for a in list(self.args) + [v for _, v in self.kw]:
            for x in (a if isinstance(a, (list, tuple)) else [a]):
                if isinstance(x, Term):
                    yield from x.subterms()


def _term_key(a):
    if isinstance(a, Term):
        return a._key()
    if isinstance(a, (list, tuple)):
        return tuple(_term_key(x) for x in a)
    if isinstance(a, slice):
        return ("slice", _term_key(a.start), _term_key(a.stop), _term_key(a.step))
    if isinstance(a, Num):
        return ("num", a.canon())
    if isinstance(a, Obj):
        return ("obj", a.label)
    if isinstance(a, ExtRef):
        return ("ext", a.dotted)
    if isinstance(a, FuncRef):
        return ("func", a.fi.qualname)
    if isinstance(a, LambdaRef):
        return ("lambda", a.node.lineno, a.node.col_offset)
    if isinstance(a, dict):
        return ("dict", tuple(sorted((repr(k), _term_key(v)) for k, v in a.items())))
    try:
        hash(a)
        return a
    except TypeError:
        return repr(a)


def _term_str(a):
    if isinstance(a, Num):
        return a.canon()
    if isinstance(a, slice):
        return f"{_term_str(a.start) if a.start is not None else ''}:{_term_str(a.stop) if a.stop is not None else ''}"
    if isinstance(a, (list, tuple)):
        return "[" + ", ".join(_term_str(x) for x in a) + "]"
    if isinstance(a, Obj):
        return a.label
    return repr(a)


_BINOP_NAME = {"Add": "+", "Sub": "-", "Mult": "*", "Div": "/", "Pow": "**", "FloorDiv": "//", "Mod": "%", "BitOr": "|", "BitAnd": "&", "MatMult": "@"}
_CMP_NAME = {"Lt": "<", "LtE": "<=", "Gt": ">", "GtE": ">=", "Eq": "==", "NotEq": "!="}


def _is_generator(fnode):
    """does the function body contain a yield of its own (not one of a nested function / lambda)?"""
    todo = list(fnode.body)
    while todo:
        n = todo.pop()
        if isinstance(n, (ast.Yield, ast.YieldFrom)):
            return True
        if isinstance(n, (ast.FunctionDef, ast.AsyncFunctionDef, ast.Lambda, ast.ClassDef)):
            continue
        todo.extend(ast.iter_child_nodes(n))
    return False


class UnknownBool:
    def __init__(self, label):
        self.label = label

    def __repr__(self):
        return f"<?{self.label}>"

    def __deepcopy__(self, memo):
        return self


class Arr:
    """a data series / array: symbolic element value, applied row selections, container kind"""

    def __init__(self, num, sel=(), kind="series", index="orig"):
        self.num = num
        self.sel = tuple(sel)
        self.kind = kind
        self.index = index

    def with_num(self, num):
        return Arr(num, self.sel, self.kind, self.index)

    def __repr__(self):
        return f"<Arr {self.kind} {self.num.canon()} sel={list(self.sel)}>"

    def __deepcopy__(self, memo):
        return self


class Mask:
    def __init__(self, desc, meta=None):
        self.desc = desc
        self.meta = meta        # structured form, e.g. ("between", lo, hi, Num the mask was computed on)

    @property
    def tag(self):
        return self.meta if self.meta is not None else self.desc

    def __repr__(self):
        return f"<Mask {self.desc}>"

    def __deepcopy__(self, memo):
        return self


class Frame:
    """abstract DataFrame: named columns (Arr), row selection"""

    def __init__(self, cols, sel=(), label="frame"):
        self.cols = dict(cols)
        self.sel = tuple(sel)
        self.label = label

    def __repr__(self):
        return f"<Frame {self.label} {list(self.cols)} sel={list(self.sel)}>"

    def __deepcopy__(self, memo):
        f = Frame(self.cols, self.sel, self.label)
        memo[id(self)] = f
        return f


class FuncRef:
    def __init__(self, fi: FuncInfo, self_obj=None, cls_obj=None, closure=None, raw=False):
        self.fi = fi
        self.self_obj = self_obj
        self.cls_obj = cls_obj
        self.closure = closure      # enclosing frame of a nested function
        self.raw = raw              # call the undecorated function (used by decorator hooks)

    def __repr__(self):
        return f"<FuncRef {self.fi.qualname}>"

    def __deepcopy__(self, memo):
        return self


class ClassRef:
    def __init__(self, ci: ClassInfo):
        self.ci = ci

    def __repr__(self):
        return f"<ClassRef {self.ci.qualname}>"

    def __deepcopy__(self, memo):
        return self


class ModRef:
    def __init__(self, name):
        self.name = name

    def __deepcopy__(self, memo):
        return self


class ExtRef:
    """reference to something outside the repo, by dotted name ('numpy.asarray', 'builtins.len')"""

    def __init__(self, dotted):
        self.dotted = dotted

    def __repr__(self):
        return f"<Ext {self.dotted}>"

    def __deepcopy__(self, memo):
        return self


class LibMethod:
    def __init__(self, recv, name):
        self.recv = recv
        self.name = name

    def __deepcopy__(self, memo):
        return self


class LambdaRef:
    def __init__(self, node, env):
        self.node = node
        self.env = env

    def __deepcopy__(self, memo):
        return self


class SuperRef:
    def __init__(self, obj, after_cls):
        self.obj = obj
        self.after_cls = after_cls


class ExcVal:
    def __init__(self, names, node=None, fault=False, msg="", func=None):
        self.names = list(names)    # class names from most specific to BaseException
        self.node = node
        self.fault = fault          # Python-level fault (TypeError/KeyError...) not raised by repo code
        self.msg = msg
        self.func = func
        self.cause = None

    @property
    def name(self):
        return self.names[0]

    def is_a(self, name):
        return name in self.names

    def __repr__(self):
        return f"<Exc {self.name}{' FAULT' if self.fault else ''} {self.msg}>"

    def __deepcopy__(self, memo):
        return self


_BUILTIN_EXC = {
    "BaseException": ["BaseException"],
    "Exception": ["Exception", "BaseException"],
    "TypeError": ["TypeError", "Exception", "BaseException"],
    "ValueError": ["ValueError", "Exception", "BaseException"],
    "KeyError": ["KeyError", "LookupError", "Exception", "BaseException"],
    "IndexError": ["IndexError", "LookupError", "Exception", "BaseException"],
    "LookupError": ["LookupError", "Exception", "BaseException"],
    "AttributeError": ["AttributeError", "Exception", "BaseException"],
    "StopIteration": ["StopIteration", "Exception", "BaseException"],
    "ZeroDivisionError": ["ZeroDivisionError", "ArithmeticError", "Exception", "BaseException"],
    "NotImplementedError": ["NotImplementedError", "RuntimeError", "Exception", "BaseException"],
    "RuntimeError": ["RuntimeError", "Exception", "BaseException"],
    "OSError": ["OSError", "Exception", "BaseException"],
    "Error": ["Error", "Exception", "BaseException"],
    "DatabaseError": ["DatabaseError", "Error", "Exception", "BaseException"],
    "IntegrityError": ["IntegrityError", "DatabaseError", "Error", "Exception", "BaseException"],
    "OperationalError": ["OperationalError", "DatabaseError", "Error", "Exception", "BaseException"],
    "ProgrammingError": ["ProgrammingError", "DatabaseError", "Error", "Exception", "BaseException"],
    "InterfaceError": ["InterfaceError", "Error", "Exception", "BaseException"],
    "ImportError": ["ImportError", "Exception", "BaseException"],
    "NameError": ["NameError", "Exception", "BaseException"],
    "UnboundLocalError": ["UnboundLocalError", "NameError", "Exception", "BaseException"],
}


class ExcClassRef:
    def __init__(self, names):
        self.names = list(names)

    def __deepcopy__(self, memo):
        return self


class Raised(Exception):
    def __init__(self, exc: ExcVal):
        super().__init__(repr(exc))
        self.exc = exc


class NeedChoice(Exception):
    def __init__(self, n, label):
        self.n = n
        self.label = label


class _Return(Exception):
    def __init__(self, value):
        self.value = value


class _Break(Exception):
    pass


class _Continue(Exception):
    pass


class Outcome:
    def __init__(self, kind, value=None, exc=None, decisions=(), writes=(), calls=(), reads=()):
        self.kind = kind            # 'ok' | 'raise'
        self.value = value
        self.exc = exc
        self.decisions = list(decisions)
        self.writes = list(writes)
        self.calls = list(calls)
        self.reads = list(reads)
        self.state = None           # filled by explore(): the (deep-copied) argument objects after the run

    def __repr__(self):
        if self.kind == "ok":
            return f"<ok {self.value!r} {self.decisions}>"
        return f"<raise {self.exc!r} {self.decisions}>"


# ---------------------------------------------------------------------------

_STR_METHODS = {"lower", "upper", "startswith", "endswith", "strip", "replace", "split", "format", "join",
                "lstrip", "rstrip", "title", "capitalize", "isdigit", "isnumeric", "isalpha", "encode", "find",
                "count", "zfill", "ljust", "rjust", "splitlines", "partition", "rpartition", "casefold", "isspace"}
_DICT_METHODS = {"items", "keys", "values", "get", "pop", "update", "copy", "setdefault"}
_LIST_METHODS = {"append", "index", "copy", "pop", "extend", "insert", "remove", "count", "sort", "reverse", "clear"}


class Interp:
    MAX_DEPTH = 14

    def __init__(self, model: SrcModel):
        self.model = model
        self.ext = {}           # dotted name -> fn(interp, args, kwargs, node) -> value
        self.libmeth = {}       # (kind, methodname) -> fn(interp, recv, args, kwargs, node)
        self.libattr = {}       # (kind, attr) -> fn(interp, recv, node)
        self.overrides = {}     # repo qualname -> fn(interp, fi, bound_args(dict), node)
        self.watch = set()      # repo qualnames whose calls are logged
        self.positive = lambda atom: True   # atoms are positive quantities unless told otherwise
        self._const_cache = {}
        self.apps = {}          # opaque application atom -> (tag, args, kwargs)
        self.decorator_hooks = {}   # decorator text -> fn(interp, fi, args, kwargs, node)
        self.const_overrides = {}   # (module name, constant name) -> abstract value
        self._install_builtins()
        self.reset([])

    # -- path state ------------------------------------------------------
    def reset(self, decisions):
        self.decisions = list(decisions)
        self.dpos = 0
        self.dlabels = []
        self.writes = []
        self.calls = []
        self.reads = []
        self.depth = 0
        self.stack = []
        # module-level containers (caches, registries written by the code under analysis) start every path as the source
        # defines them: a path must not see what an earlier replayed path stored
        for key in [k for k, v in self._const_cache.items() if isinstance(v, (dict, list, set))]:
            del self._const_cache[key]

    def choose(self, n, label):
        if self.dpos < len(self.decisions):
            c = self.decisions[self.dpos]
        else:
            raise NeedChoice(n, label)
        self.dpos += 1
        self.dlabels.append((label, c))
        return c

    # -- exploration -------------------------------------------------------
    def explore(self, thunk, max_paths=4096):
        """Run thunk(interp) for every decision sequence. thunk must build fresh abstract inputs
        each time and return (value, state) or raise Raised."""
        out = []
        work = [[]]
        while work:
            dec = work.pop()
            self.reset(dec)
            try:
                try:
                    v = thunk(self)
                    o = Outcome("ok", value=v)
                except Raised as r:
                    o = Outcome("raise", exc=r.exc)
            except NeedChoice as nc:
                for i in reversed(range(nc.n)):
                    work.append(dec + [i])
                if len(out) + len(work) > max_paths:
                    raise AnalysisError(f"path explosion (> {max_paths}) at choice '{nc.label}'")
                continue
            o.decisions = list(self.dlabels)
            o.writes = list(self.writes)
            o.calls = list(self.calls)
            o.reads = list(self.reads)
            out.append(o)
        return out

    # -- errors ------------------------------------------------------------
    def err(self, node, msg):
        where = ""
        if self.stack:
            fi = self.stack[-1]
            where = f"{fi.module.relpath}:{getattr(node, 'lineno', '?')} in {fi.short}: "
        raise AnalysisError(f"{where}{msg}")

    def fault(self, name, node, msg=""):
        return Raised(ExcVal(_BUILTIN_EXC[name], node=node, fault=True, msg=msg,
                             func=self.stack[-1] if self.stack else None))

    # -- name resolution ---------------------------------------------------
    def global_value(self, modname, name, node=None):
        r = self.model.resolve(modname, name)
        if r is None:
            if ("builtins." + name) in self.ext or name in _BUILTIN_EXC or name in (
                    "dict", "str", "list", "tuple", "float", "int", "bool", "set", "object", "type", "slice", "map",
                    "sum", "reversed", "filter", "callable", "divmod", "pow"):       # (the last six: generic_ext)
                return ExtRef("builtins." + name)
            self.err(node, f"unresolved name '{name}' in module {modname}")
        return self.wrap_resolved(r)

    def wrap_resolved(self, r):
        k = r[0]
        if k == "func":
            return FuncRef(r[1])
        if k == "class":
            return ClassRef(r[1])
        if k == "module":
            return ModRef(r[1])
        if k == "ext":
            return ExtRef(r[1])
        if k == "const":
            for (mn, cn), v in self.const_overrides.items():
                if mn == r[1].name and r[1].assigns.get(cn) is r[2]:
                    return v
            return self.const_value(r[1], r[2])
        raise AssertionError(r)

    def const_value(self, module, expr):
        key = id(expr)
        if key not in self._const_cache:
            saved = (self.stack, self.depth)
            self.stack = []
            try:
                env = {"__module__": module.name}
                self._const_cache[key] = self.eval(expr, env)
                # module-level statements that extend the object after its definition (TABLE[k] = v, TABLE.update(...), LIST += [...])
                name = next((n_ for n_, e_ in module.assigns.items() if e_ is expr), None)
                for st in getattr(module, "mutations", {}).get(name, []) if name else []:
                    env2 = {"__module__": module.name, name: self._const_cache[key]}
                    if isinstance(st, ast.AugAssign):
                        self._const_cache[key] = self.binop(st.op, self._const_cache[key], self.eval(st.value, env2), st)
                    else:
                        self.exec_block([st], env2)
            finally:
                self.stack, self.depth = saved
        return self._const_cache[key]

    # -- calls ---------------------------------------------------------------
    def bind(self, fi: FuncInfo, args, kwargs, node, self_obj=None):
        a = fi.node.args
        params = [p.arg for p in a.posonlyargs + a.args]
        defaults = [None] * (len(params) - len(a.defaults)) + list(a.defaults)
        env = {}
        args = list(args)
        if self_obj is not None:
            args = [self_obj] + args
        kwargs = dict(kwargs)
        for i, p in enumerate(params):
            if i < len(args):
                env[p] = args[i]
                if p in kwargs:
                    raise self.fault("TypeError", node, f"multiple values for argument '{p}'")
            elif p in kwargs:
                env[p] = kwargs.pop(p)
            elif defaults[i] is not None:
                env[p] = self.eval(defaults[i], {"__module__": fi.module.name})
            else:
                raise self.fault("TypeError", node, f"{fi.short}() missing argument '{p}'")
        extra = args[len(params):]
        if a.vararg:
            env[a.vararg.arg] = tuple(extra)
        elif extra:
            raise self.fault("TypeError", node, f"{fi.short}() takes {len(params)} positional arguments")
        for p, d in zip(a.kwonlyargs, a.kw_defaults):
            if p.arg in kwargs:
                env[p.arg] = kwargs.pop(p.arg)
            elif d is not None:
                env[p.arg] = self.eval(d, {"__module__": fi.module.name})
            else:
                raise self.fault("TypeError", node, f"{fi.short}() missing keyword argument '{p.arg}'")
        if a.kwarg:
            env[a.kwarg.arg] = kwargs
        elif kwargs:
            raise self.fault("TypeError", node,
                             f"{fi.short}() got an unexpected keyword argument '{next(iter(kwargs))}'")
        return env

    def call_func(self, fi: FuncInfo, args, kwargs, node=None, self_obj=None, closure=None, raw=False):
        if not raw:
            for d in fi.decorators:
                if d in self.decorator_hooks:
                    return self.decorator_hooks[d](self, fi, list(args), dict(kwargs), node)
        env = self.bind(fi, args, kwargs, node, self_obj)
        if closure:
            for k_, v_ in closure.items():
                if k_ not in env and k_ != "__nonlocals__":
                    env[k_] = v_
        if fi.qualname in self.watch:
            self.calls.append((fi.qualname, dict(env), getattr(node, "lineno", None),
                               self.stack[-1].short if self.stack else None))
        if fi.qualname in self.overrides:
            return self.overrides[fi.qualname](self, fi, env, node)
        if self.depth >= self.MAX_DEPTH:
            self.err(node, f"inlining depth {self.MAX_DEPTH} exceeded calling {fi.qualname}")
        env["__module__"] = fi.module.name
        env["__func__"] = fi
        self.depth += 1
        self.stack.append(fi)
        gen = _is_generator(fi.node)
        if gen:
            # generator functions are run to exhaustion when called and stand for the list of what they yield.  (The consumer
            # sees the same values in the same order; what is lost is the interleaving with the consumer's own effects.)
            env["__yield__"] = []
        try:
            self.exec_block(fi.node.body, env)
            return env["__yield__"] if gen else None
        except _Return as r:
            return env["__yield__"] if gen else r.value
        finally:
            self.stack.pop()
            self.depth -= 1
            if closure is not None:
                for nm_ in env.get("__nonlocals__", ()):       # `nonlocal x`: the enclosing frame sees the rebinding
                    if nm_ in env:
                        closure[nm_] = env[nm_]

    def e_Yield(self, node, env):
        env["__yield__"].append(self.eval(node.value, env) if node.value is not None else None)
        return None

    def e_YieldFrom(self, node, env):
        env["__yield__"].extend(self.iterate(self.eval(node.value, env), node))
        return None

    def instantiate(self, ci: ClassInfo, args, kwargs, node):
        mro = ci.mro()
        # exception classes
        base_names = [c.name for c in mro]
        ext_bases = []
        for c in mro:
            for b in c.node.bases:
                if isinstance(b, ast.Name) and b.id in _BUILTIN_EXC:
                    ext_bases = _BUILTIN_EXC[b.id]
        if ext_bases:
            msg = args[0] if args and isinstance(args[0], str) else ""
            return ExcVal(base_names + ext_bases, node=node, msg=msg,
                          func=self.stack[-1] if self.stack else None)
        if ci.qualname in self.overrides:
            return self.overrides[ci.qualname](self, ci, args, kwargs, node)
        obj = Obj(cls=ci, label=ci.name)
        init = ci.find_method("__init__")
        if init is not None:
            self.call_func(init, args, kwargs, node, self_obj=obj)
        return obj

    def call_value(self, fv, args, kwargs, node):
        if isinstance(fv, FuncRef):
            fi = fv.fi
            if fi.is_classmethod:
                return self.call_func(fi, args, kwargs, node, self_obj=fv.cls_obj or ClassRef(fi.cls))
            if fi.is_staticmethod:
                return self.call_func(fi, args, kwargs, node)
            return self.call_func(fi, args, kwargs, node, self_obj=fv.self_obj, closure=fv.closure, raw=fv.raw)
        if isinstance(fv, ExcClassRef):
            return ExcVal(fv.names, node=node, msg=args[0] if args and isinstance(args[0], str) else "",
                          func=self.stack[-1] if self.stack else None)
        if isinstance(fv, ClassRef):
            return self.instantiate(fv.ci, args, kwargs, node)
        if isinstance(fv, ExtRef):
            if fv.dotted in self.ext:
                return self.ext[fv.dotted](self, args, kwargs, node)
            short = fv.dotted.split(".")[-1]
            if (fv.dotted.startswith("builtins.") or fv.dotted.startswith("sqlite3.")) and short in _BUILTIN_EXC:
                return ExcVal(_BUILTIN_EXC[short], node=node, msg=args[0] if args and isinstance(args[0], str) else "",
                              func=self.stack[-1] if self.stack else None)
            fb = getattr(self, "ext_fallback", None)
            if fb is not None:
                r = fb(self, fv.dotted, args, kwargs, node)
                if r is not NotImplemented:
                    return r
            r = self.generic_ext(fv.dotted, args, kwargs, node)
            if r is not NotImplemented:
                return r
            self.err(node, f"no summary for external callable '{fv.dotted}'")
        if isinstance(fv, LibMethod):
            return self.call_libmethod(fv.recv, fv.name, args, kwargs, node)
        if isinstance(fv, LambdaRef):
            e2 = dict(fv.env)
            e2.update(getattr(fv, "defaults", {}))
            names = [x.arg for x in fv.node.args.args]
            for nm_, val_ in zip(names, args):
                e2[nm_] = val_
            e2.update(kwargs)
            return self.eval(fv.node.body, e2)
        if isinstance(fv, Opaque):
            if fv.callable_:
                return self.apply_opaque(fv, args, kwargs, node)
            self.err(node, f"call of non-callable opaque value {fv.tag}")
        if isinstance(fv, Obj):
            m = fv.cls.find_method("__call__") if fv.cls else None
            if m is not None:
                return self.call_func(m, args, kwargs, node, self_obj=fv)
            key = (fv.kind, "__call__")
            if key in self.libmeth:
                return self.libmeth[key](self, fv, args, kwargs, node)
        if fv is None:
            raise self.fault("TypeError", node, "'NoneType' object is not callable")
        self.err(node, f"cannot call value {fv!r}")

    def apply_opaque(self, fv, args, kwargs, node):
        """application of an opaque function to symbolic data: a fresh atom named after the call"""
        parts = []
        for a in list(args) + [v for _, v in sorted(kwargs.items())]:
            parts.append(self.describe(a))
        name = f"{fv.tag}({','.join(parts)})"
        self.apps[name] = (fv.tag, list(args), dict(kwargs))
        a0 = args[0] if args else None
        if isinstance(a0, Arr):
            return Arr(Num.atom(name), a0.sel, "array", a0.index)
        return Num.atom(name)

    def describe(self, v):
        if isinstance(v, Num):
            return v.canon()
        if isinstance(v, Arr):
            return f"{v.num.canon()}@{'/'.join(x if isinstance(x, str) else x[0] for x in v.sel)}" if v.sel else v.num.canon()
        if isinstance(v, (str, bool, int, float)) or v is None:
            return repr(v)
        if isinstance(v, (list, tuple)):
            return "[" + ",".join(self.describe(x) for x in v) + "]"
        if isinstance(v, Opaque):
            return v.tag
        if isinstance(v, Obj):
            return v.label
        if isinstance(v, ExtRef):
            return v.dotted
        if _is_sym(v):
            return str(v)
        if isinstance(v, Mask):
            return v.desc
        if isinstance(v, Term):
            return repr(v)
        if isinstance(v, UnknownBool):
            return "?" + v.label
        if type(v).__name__ in ("SStr", "Tok", "MiniFrame", "Col"):
            return repr(v)
        if type(v).__name__ == "Vec":
            return v.tag or ("[" + ",".join(self.describe(x) for x in v.items) + "]")
        if isinstance(v, dict):
            return "{" + ",".join(f"{self.describe(k)}:{self.describe(x)}" for k, x in v.items()) + "}"
        return type(v).__name__

    # -- library methods -------------------------------------------------------
    def generic_ext(self, dotted, args, kwargs, node):
        """last resort before 'no summary': library callables whose meaning is fixed by the language (aliases of summarised ones,
        unbound method spellings, container helpers)"""
        mod, _, name = dotted.rpartition(".")
        if mod == "math" and f"numpy.{name}" in self.ext:                     # math.sqrt(x) == numpy.sqrt(x) on scalars
            return self.ext[f"numpy.{name}"](self, args, kwargs, node)
        if mod in ("builtins.str", "builtins.dict", "builtins.list", "builtins.tuple", "builtins.set") and args and name != "fromkeys":
            return self.call_value(self.getattr_(args[0], name, node), list(args[1:]), dict(kwargs), node)      # str.join(sep, xs) == sep.join(xs)
        if dotted == "builtins.dict.fromkeys":
            return {k: (args[1] if len(args) > 1 else None) for k in self.iterate(args[0], node)}
        if dotted == "collections.OrderedDict":
            return self.call_value(ExtRef("builtins.dict"), list(args), dict(kwargs), node)
        if dotted == "collections.defaultdict":
            d = DefaultDict()
            d.factory = args[0] if args else None
            if len(args) > 1:
                d.update(self.call_value(ExtRef("builtins.dict"), list(args[1:]), dict(kwargs), node))
            return d
        if dotted in ("copy.copy", "copy.deepcopy"):
            return self.copy_value(args[0], dotted.endswith("deepcopy"), node)
        if dotted == "itertools.starmap":
            return [self.call_value(args[0], list(self.iterate(t, node)), {}, node) for t in self.iterate(args[1], node)]
        if dotted == "itertools.product" and not kwargs:
            import itertools as _it
            return [tuple(c) for c in _it.product(*[list(self.iterate(a, node)) for a in args])]
        if dotted == "itertools.zip_longest":
            import itertools as _it
            return [tuple(c) for c in _it.zip_longest(*[list(self.iterate(a, node)) for a in args], fillvalue=kwargs.get("fillvalue"))]
        if dotted == "itertools.chain.from_iterable":
            return [x for it in self.iterate(args[0], node) for x in self.iterate(it, node)]
        if dotted == "itertools.compress":
            return [x for x, c in zip(self.iterate(args[0], node), self.iterate(args[1], node)) if self.truth(c, node)]
        if dotted == "builtins.filter":
            keep = (lambda x: self.truth(x, node)) if args[0] is None else (lambda x: self.truth(self.call_value(args[0], [x], {}, node), node))
            return [x for x in self.iterate(args[1], node) if keep(x)]
        if dotted == "builtins.reversed":
            return list(reversed(list(self.iterate(args[0], node))))
        if dotted == "builtins.sum":
            acc = args[1] if len(args) > 1 else kwargs.get("start", Num.const(0))
            for x in self.iterate(args[0], node):
                acc = self.binop(ast.Add(), acc, x, node)
            return acc
        if dotted == "builtins.callable":
            return isinstance(args[0], (FuncRef, LambdaRef, ExtRef, LibMethod, ClassRef)) or bool(getattr(args[0], "callable_", False)) or \
                (isinstance(args[0], Obj) and ((args[0].cls is not None and args[0].cls.find_method("__call__") is not None) or
                                               (self.kind_of(args[0]), "__call__") in self.libmeth))
        if dotted == "builtins.pow" and len(args) == 2:
            return self.binop(ast.Pow(), args[0], args[1], node)
        if dotted == "builtins.divmod":
            return (self.binop(ast.FloorDiv(), args[0], args[1], node), self.binop(ast.Mod(), args[0], args[1], node))
        if dotted in ("operator.not_",):
            return not self.truth(args[0], node)
        if dotted == "operator.truth":
            return self.truth(args[0], node)
        if dotted == "operator.contains":
            return self.compare(ast.In(), args[1], args[0], node)
        if dotted == "operator.abs" and "builtins.abs" in self.ext:
            return self.ext["builtins.abs"](self, args, kwargs, node)
        if dotted == "operator.setitem":
            return self.setitem(args[0], args[1], args[2], node)
        return NotImplemented

    def copy_value(self, v, deep, node):
        if isinstance(v, PySet):
            return PySet(self.copy_value(x, deep, node) if deep else x for x in v)
        if isinstance(v, DefaultDict):
            d = DefaultDict((k, self.copy_value(x, deep, node) if deep else x) for k, x in v.items())
            d.factory = v.factory
            return d
        if isinstance(v, dict):
            return {k: (self.copy_value(x, deep, node) if deep else x) for k, x in v.items()}
        if isinstance(v, list):
            return [self.copy_value(x, deep, node) if deep else x for x in v]
        if isinstance(v, tuple):
            return tuple(self.copy_value(x, deep, node) if deep else x for x in v)
        if isinstance(v, Obj) and v.cls is not None and (v.cls.find_method("__copy__") or v.cls.find_method("__deepcopy__")):
            self.err(node, "copy of an object that customises copying")
        if isinstance(v, Obj) and (self.kind_of(v), "copy") in self.libmeth and v.cls is None:
            return self.libmeth[(self.kind_of(v), "copy")](self, v, [], {}, node)
        if isinstance(v, Obj) and v.cls is not None:
            return Obj(cls=v.cls, kind=v.kind, label=f"{v.label}.copy", attrs={k: (self.copy_value(x, deep, node) if deep else x) for k, x in v.attrs.items()})
        if isinstance(v, Obj):
            self.err(node, f"copy of library object {self.kind_of(v)}")
        return v         # immutable scalars, tokens, symbolic numbers

    def call_libmethod(self, recv, name, args, kwargs, node):
        if isinstance(recv, (bool, UnknownBool)) and name in ("any", "all", "item"):
            return recv
        if (isinstance(recv, Num) or _is_sym(recv)) and name in ("item", "real", "conjugate"):
            return recv
        if isinstance(recv, Term):
            if ("Term", name) in self.libmeth:
                return self.libmeth[("Term", name)](self, recv, args, kwargs, node)
            return Term("." + name, [recv] + list(args), kwargs)
        if isinstance(recv, str) and name == "join" and getattr(self, "sym_strings", False):
            return self.str_join(self, recv, self.iterate(args[0], node), node)
        if isinstance(recv, str) and name in _STR_METHODS:
            try:
                cargs = [self.to_py(a, node) for a in args]
                ckw = {k_: self.to_py(v_, node) for k_, v_ in kwargs.items()}
                r = getattr(recv, name)(*cargs, **ckw)
            except (TypeError, ValueError) as e:
                raise self.fault("TypeError", node, str(e))
            return self.from_py(r)
        if isinstance(recv, dict) and name in _DICT_METHODS:
            if name == "items":
                return [(k, v) for k, v in recv.items()]
            if name == "keys":
                return list(recv.keys())
            if name == "values":
                return list(recv.values())
            if name == "get":
                k = self.hashkey(args[0], node)
                return recv.get(k, args[1] if len(args) > 1 else kwargs.get("default"))
            if name == "pop":
                k = self.hashkey(args[0], node)
                if k in recv:
                    return recv.pop(k)
                if len(args) > 1:
                    return args[1]
                raise self.fault("KeyError", node, repr(k))
            if name == "update":
                for a in args:
                    if isinstance(a, dict):
                        recv.update(a)
                    elif isinstance(a, (list, tuple)) and all(isinstance(x, (list, tuple)) and len(x) == 2 for x in a):
                        for kk, vv in a:
                            recv[self.hashkey(kk, node)] = vv
                    else:
                        self.err(node, "dict.update with non-dict")
                recv.update(kwargs)
                return None
            if name == "copy":
                return dict(recv)
            if name == "setdefault":
                return recv.setdefault(self.hashkey(args[0], node), args[1] if len(args) > 1 else None)
        if isinstance(recv, tuple) and name in ("index", "count"):
            recv = list(recv)
        if isinstance(recv, list) and name in _LIST_METHODS:
            if name == "append":
                recv.append(args[0])
                return None
            if name == "copy":
                return list(recv)
            if name == "extend":
                recv.extend(args[0])
                return None
            if name == "pop":
                return recv.pop(int(args[0].value()) if args else -1)
            if name == "index":
                for i, x in enumerate(recv):
                    if self.py_eq(x, args[0]) is True:
                        return Num.const(i)
                raise self.fault("ValueError", node, "not in list")
            if name == "count":
                return Num.const(sum(1 for x in recv if self.py_eq(x, args[0]) is True))
            if name == "insert":
                recv.insert(int(self.to_py(args[0], node)), args[1])
                return None
            if name == "sort":
                recv[:] = self.call_value(ExtRef("builtins.sorted"), [list(recv)], dict(kwargs), node)
                return None
            if name == "reverse":
                recv.reverse()
                return None
            if name == "clear":
                del recv[:]
                return None
            if name == "remove":
                for i, x in enumerate(recv):
                    if x is args[0] or self.py_eq(x, args[0]) is True:
                        del recv[i]
                        return None
                raise self.fault("ValueError", node, "list.remove(x): x not in list")
        kind = self.kind_of(recv)
        if (kind, name) in self.libmeth:
            return self.libmeth[(kind, name)](self, recv, args, kwargs, node)
        self.err(node, f"no summary for method '{name}' of {kind}")

    def kind_of(self, v):
        if isinstance(v, Obj):
            return v.kind
        if isinstance(v, Arr):
            return "Arr"
        if isinstance(v, Frame):
            return "Frame"
        if isinstance(v, Num):
            return "Num"
        if _is_sym(v):
            return "Sym"
        if isinstance(v, Opaque):
            return "Opaque:" + v.tag.split("(")[0]
        if isinstance(v, Mask):
            return "Mask"
        if isinstance(v, Term):
            return "Term"
        return type(v).__name__     # incl. SStr, Tok, MiniFrame, Col of pgverif.docsim

    def to_py(self, v, node=None):
        if _is_sym(v):
            if v.is_Integer:
                return int(v)
            if v.is_number:
                return float(v)
            self.err(node, "symbolic term where a concrete value is needed")
        if isinstance(v, Num):
            if v.is_const():
                f = v.value()
                return int(f) if f.denominator == 1 else float(f)
            self.err(node, "symbolic number where a concrete value is needed")
        if isinstance(v, (list, tuple)):
            return type(v)(self.to_py(x, node) for x in v)
        return v

    def from_py(self, r):
        if isinstance(r, bool) or r is None or isinstance(r, str):
            return r
        if isinstance(r, (int, float)):
            return Num.const(r)
        if isinstance(r, list):
            return [self.from_py(x) for x in r]
        if isinstance(r, tuple):
            return tuple(self.from_py(x) for x in r)
        return r

    def hashkey(self, k, node):
        if isinstance(k, Num):
            return self.to_py(k, node)
        if isinstance(k, (list, dict)):
            raise self.fault("TypeError", node, "unhashable type")
        if isinstance(k, Opaque) and k.tag == "str":
            # a text the analysis could not make concrete used as a key: whether the key exists is unknown - never a KeyError verdict
            self.err(node, "dictionary key is a text the analysis cannot determine (formatted string over abstract values)")
        return k

    # -- truthiness / comparison ------------------------------------------------
    def truth(self, v, node=None, label=None):
        if v is None:
            return False
        if isinstance(v, bool):
            return v
        if isinstance(v, (str, list, tuple, dict)):
            return len(v) > 0
        if isinstance(v, Num):
            if v.is_const():
                return v.value() != 0
            if v.all_positive() and all(self.positive(a) for a in v.atoms()):
                return True
            return self.choose(2, label or f"truth({v.canon()})") == 0
        if isinstance(v, UnknownBool):
            return self.choose(2, label or v.label) == 0
        if isinstance(v, Term):
            return self.choose(2, label or f"truth({v!r})") == 0
        if _is_sym(v):
            if v.is_zero is True:
                return False
            if v.is_zero is False or v.is_positive or v.is_negative:
                return True
            return self.choose(2, label or f"truth({v})") == 0
        if isinstance(v, (Obj, FuncRef, ClassRef, ModRef, ExtRef, ExcVal)):
            return True
        if isinstance(v, Opaque):
            return self.choose(2, label or f"truth({v.tag})") == 0
        if isinstance(v, (Arr, Frame, Mask)) or type(v).__name__ in ("MiniFrame", "Col"):
            raise self.fault("ValueError", node, "truth value of an array is ambiguous")
        if type(v).__name__ == "SStr":
            return len(v.parts) > 0
        if type(v).__name__ in ("Tok", "LambdaRef", "ExcClassRef", "LibMethod"):
            return True
        self.err(node, f"truthiness of {v!r}")

    def py_eq(self, a, b):
        """True / False / None(unknown)"""
        if getattr(self, "user_eq", False) and a is not b:
            # opt-in (rules about containers of repo objects): `==`, `in`, list.remove / index go through the class's own __eq__
            for x, y in ((a, b), (b, a)):
                if isinstance(x, Obj) and x.cls is not None:
                    m = x.cls.find_method("__eq__")
                    if m is not None:
                        r = self.call_func(m, [y], {}, None, self_obj=x)
                        return r if isinstance(r, bool) else None
        ta, tb = type(a).__name__, type(b).__name__
        if ta == "Tok" or tb == "Tok":
            if ta == tb:
                return a == b
            if isinstance(a, Num) or isinstance(b, Num):
                return False
            return False        # value-domain assumption: a text token is not spelled like a marker / literal
        if ta == "SStr" or tb == "SStr":
            if ta == tb:
                return True if a.parts == b.parts else None
            other = b if ta == "SStr" else a
            if isinstance(other, str):
                return False    # contains a value token: not equal to a concrete marker (value-domain assumption)
            return False
        if isinstance(a, ExtRef) and isinstance(b, ExtRef):
            return a.dotted == b.dotted
        if isinstance(a, Num) and isinstance(b, Num):
            if a.is_const() and b.is_const():
                return a.value() == b.value()
            if a == b:
                return True
            return None
        simple = (str, bool, type(None))
        if isinstance(a, simple) and isinstance(b, simple):
            return a == b
        if isinstance(a, Num) or isinstance(b, Num):
            x, y = (a, b) if isinstance(a, Num) else (b, a)
            if isinstance(y, bool):
                if x.is_const():
                    return x.value() == int(y)
                return None
            if isinstance(y, simple) or isinstance(y, (list, tuple, dict)):
                return False
            return None
        if isinstance(a, PySet) or isinstance(b, PySet):
            if not (isinstance(a, PySet) and isinstance(b, PySet)):
                return False
            if len(a) != len(b):
                return False
            res = True
            for x in a:
                es = [self.py_eq(x, y) for y in b]
                if any(e is True for e in es):
                    continue
                if all(e is False for e in es):
                    return False
                res = None
            return res
        if isinstance(a, (list, tuple)) and isinstance(b, (list, tuple)):
            if type(a) is not type(b):
                return False
            if len(a) != len(b):
                return False
            res = True
            for x, y in zip(a, b):
                e = self.py_eq(x, y)
                if e is False:
                    return False
                if e is None:
                    res = None
            return res
        if isinstance(a, dict) and isinstance(b, dict):
            return a is b or None
        if isinstance(a, simple) or isinstance(b, simple):
            x, y = (a, b) if isinstance(a, simple) else (b, a)
            if isinstance(y, (Obj, Opaque, Arr, Frame)):
                if x is None or isinstance(x, bool):
                    return False
                return None
            return False
        if a is b:
            return True
        return None

    def compare(self, op, a, b, node):
        if isinstance(a, PySet) and isinstance(b, PySet) and isinstance(op, (ast.Lt, ast.LtE, ast.Gt, ast.GtE)):
            def member(x, ys):
                return any(self.compare(ast.Eq(), x, y, node) is True for y in ys)
            sub, sup = all(member(x, b) for x in a), all(member(y, a) for y in b)
            return {ast.LtE: sub, ast.Lt: sub and not sup, ast.GtE: sup, ast.Gt: sup and not sub}[type(op)]
        if (isinstance(a, Term) or isinstance(b, Term)) and type(op).__name__ in _CMP_NAME:
            return UnknownBool(f"{_term_str(a)} {_CMP_NAME[type(op).__name__]} {_term_str(b)}")
        if (_is_sym(a) or _is_sym(b)) and isinstance(op, (ast.Eq, ast.NotEq)) and \
                (isinstance(a, (Num, bool)) or _is_sym(a)) and (isinstance(b, (Num, bool)) or _is_sym(b)):
            rel = (_sp.Eq if isinstance(op, ast.Eq) else _sp.Ne)(num_to_sym(a), num_to_sym(b))
            if rel == _sp.true:
                return True
            if rel == _sp.false:
                return False
            return UnknownBool(str(rel))
        if (type(a).__name__ == "Vec" or type(b).__name__ == "Vec") and not isinstance(op, (ast.Is, ast.IsNot, ast.In, ast.NotIn)):
            from .libsum import Vec
            va, vb = type(a).__name__ == "Vec", type(b).__name__ == "Vec"
            n_ = len(a.items) if va else len(b.items)
            xs = a.items if va else [a] * n_
            ys = b.items if vb else [b] * n_
            return Vec([self.compare(op, x, y, node) for x, y in zip(xs, ys)])
        if (type(a).__name__ == "Col" or type(b).__name__ == "Col") and isinstance(op, (ast.Lt, ast.LtE, ast.Gt, ast.GtE)):
            # elementwise ordering of a column against a scalar / column: a column of booleans
            ca, cb = type(a).__name__ == "Col", type(b).__name__ == "Col"
            n_ = len(a.values) if ca else len(b.values)
            xs = a.values if ca else [a] * n_
            ys = b.values if cb else [b] * n_
            proto = a if ca else b
            return type(proto)([self.truth(self.compare(op, x, y, node), node) for x, y in zip(xs, ys)], proto.name, "bool")
        if isinstance(op, (ast.Is, ast.IsNot)):
            if a is None or b is None:
                r = (a is None and b is None)
            elif isinstance(a, bool) and isinstance(b, bool):
                r = a is b
            else:
                r = a is b
            return r if isinstance(op, ast.Is) else not r
        if isinstance(op, (ast.Eq, ast.NotEq)):
            if type(a).__name__ == "Col" or type(b).__name__ == "Col":
                c, o = (a, b) if type(a).__name__ == "Col" else (b, a)
                m = self.col_eq(c, o)
                if isinstance(op, ast.NotEq):
                    m.values = [None if x is None else (not x) for x in m.values]
                return m
            if isinstance(a, Arr) or isinstance(b, Arr):
                x, y = (a, b) if isinstance(a, Arr) else (b, a)
                return Mask(f"{x.num.canon()}{'==' if isinstance(op, ast.Eq) else '!='}{self.describe(y)}")
            if isinstance(a, Obj) and a.cls is not None and a.cls.find_method("__eq__"):
                r = self.call_func(a.cls.find_method("__eq__"), [b], {}, node, self_obj=a)
                if isinstance(op, ast.NotEq):
                    return not self.truth(r, node)
                return r
            e = self.py_eq(a, b)
            if e is None:
                return UnknownBool(f"{self.describe(a)}=={self.describe(b)}") if isinstance(op, ast.Eq) \
                    else UnknownBool(f"{self.describe(a)}!={self.describe(b)}")
            return e if isinstance(op, ast.Eq) else not e
        if isinstance(op, (ast.In, ast.NotIn)):
            r = self.contains(b, a, node)
            if isinstance(r, UnknownBool):
                return r
            return r if isinstance(op, ast.In) else not r
        if (_is_sym(a) or _is_sym(b)) and isinstance(op, (ast.Lt, ast.LtE, ast.Gt, ast.GtE, ast.Eq, ast.NotEq)) and \
                (isinstance(a, (Num, bool)) or _is_sym(a)) and (isinstance(b, (Num, bool)) or _is_sym(b)):
            x, y = num_to_sym(a), num_to_sym(b)
            rel = {ast.Lt: _sp.Lt, ast.LtE: _sp.Le, ast.Gt: _sp.Gt, ast.GtE: _sp.Ge, ast.Eq: _sp.Eq, ast.NotEq: _sp.Ne}[type(op)](x, y)
            if rel == _sp.true:
                return True
            if rel == _sp.false:
                return False
            return UnknownBool(str(rel))
        if isinstance(op, (ast.Lt, ast.LtE, ast.Gt, ast.GtE)):
            sym = {ast.Lt: "<", ast.LtE: "<=", ast.Gt: ">", ast.GtE: ">="}[type(op)]
            if isinstance(a, Arr) or isinstance(b, Arr):
                return Mask(f"{self.describe(a)}{sym}{self.describe(b)}")
            if isinstance(a, Num) and isinstance(b, Num) and a.is_const() and b.is_const():
                x, y = a.value(), b.value()
                return {"<": x < y, "<=": x <= y, ">": x > y, ">=": x >= y}[sym]
            def infsign(v):
                d = v.dotted if isinstance(v, ExtRef) else v.tag if isinstance(v, Opaque) else None
                return {"numpy.inf": 1, "-numpy.inf": -1, "math.inf": 1, "-math.inf": -1}.get(d)
            if isinstance(a, Num) and infsign(b) is not None:
                return {"<": infsign(b) > 0, "<=": infsign(b) > 0, ">": infsign(b) < 0, ">=": infsign(b) < 0}[sym]
            if isinstance(b, Num) and infsign(a) is not None:
                return {"<": infsign(a) < 0, "<=": infsign(a) < 0, ">": infsign(a) > 0, ">=": infsign(a) > 0}[sym]
            if isinstance(a, (Num, Opaque, ExtRef)) and isinstance(b, (Num, Opaque, ExtRef)):
                return UnknownBool(f"{self.describe(a)}{sym}{self.describe(b)}")
            if a is None or b is None or isinstance(a, str) != isinstance(b, str):
                raise self.fault("TypeError", node, f"'{sym}' not supported between these operands")
            if isinstance(a, str):
                return {"<": a < b, "<=": a <= b, ">": a > b, ">=": a >= b}[sym]
        self.err(node, f"comparison {type(op).__name__} on {a!r}, {b!r}")

    def contains(self, container, item, node):
        if container is None:
            raise self.fault("TypeError", node, "argument of type 'NoneType' is not iterable")
        if isinstance(container, str):
            if isinstance(item, str):
                return item in container
            raise self.fault("TypeError", node, "'in <string>' requires string as left operand")
        if isinstance(container, dict):
            if isinstance(item, (list, dict)):
                raise self.fault("TypeError", node, "unhashable type")
            return self.hashkey(item, node) in container
        if isinstance(container, (list, tuple)):
            unknown = False
            for x in container:
                e = self.py_eq(x, item)
                if e is True:
                    return True
                if e is None:
                    unknown = True
            if unknown:
                return UnknownBool(f"{self.describe(item)} in {self.describe(container)}")
            return False
        kind = self.kind_of(container)
        if (kind, "__contains__") in self.libmeth:
            return self.libmeth[(kind, "__contains__")](self, container, [item], {}, node)
        if isinstance(container, Num):
            raise self.fault("TypeError", node, "argument of type 'float' is not iterable")
        self.err(node, f"'in' on {container!r}")

    # -- attribute access ----------------------------------------------------------
    def getattr_(self, v, name, node):
        if isinstance(v, (bool, UnknownBool)) and name in ("any", "all", "item"):
            return LibMethod(v, name)
        if (isinstance(v, Num) or _is_sym(v)) and name in ("item", "real", "conjugate"):
            return LibMethod(v, name)        # numpy scalar protocol on a number: the number itself
        if isinstance(v, Term):
            if ("Term", name) in self.libattr:
                return self.libattr[("Term", name)](self, v, node)
            return LibMethod(v, name)
        if isinstance(v, Obj):
            if name in v.attrs:
                self.reads.append((v.label, name))
                return v.attrs[name]
            if v.cls is not None:
                m = v.cls.find_method(name)
                if m is not None:
                    if m.is_property:
                        return self.call_func(m, [], {}, node, self_obj=v)
                    if m.is_staticmethod:
                        return FuncRef(m)
                    if m.is_classmethod:
                        return FuncRef(m, cls_obj=ClassRef(v.cls))
                    return FuncRef(m, self_obj=v)
                ca = v.cls.find_assign(name)
                if ca is not None:
                    c, expr = ca
                    return self.class_const(c, expr)
                if name == "__class__":
                    return ClassRef(v.cls)
            if (v.kind, name) in self.libattr:
                return self.libattr[(v.kind, name)](self, v, node)
            if (v.kind, name) in self.libmeth:
                return LibMethod(v, name)
            if v.cls is not None:
                raise self.fault("AttributeError", node, f"'{v.kind}' object has no attribute '{name}'")
            self.err(node, f"no summary for attribute '{name}' of {v.kind}")
        if isinstance(v, ClassRef):
            m = v.ci.find_method(name)
            if m is not None:
                if m.is_classmethod:
                    return FuncRef(m, cls_obj=v)
                return FuncRef(m)
            ca = v.ci.find_assign(name)
            if ca is not None:
                return self.class_const(ca[0], ca[1])
            if name == "__name__":
                return v.ci.name
            raise self.fault("AttributeError", node, f"class {v.ci.name} has no attribute '{name}'")
        if isinstance(v, ModRef):
            r = self.model.resolve(v.name, name)
            if r is None:
                self.err(node, f"module {v.name} has no attribute '{name}'")
            return self.wrap_resolved(r)
        if isinstance(v, ExtRef):
            return ExtRef(f"{v.dotted}.{name}")
        if isinstance(v, SuperRef):
            mro = v.obj.cls.mro() if isinstance(v.obj, Obj) else v.obj.ci.mro()
            idx = [c.qualname for c in mro].index(v.after_cls.qualname)
            for c in mro[idx + 1:]:
                if name in c.methods:
                    return FuncRef(c.methods[name], self_obj=v.obj if isinstance(v.obj, Obj) else None)
            if name == "__init__":
                return ExtRef("builtins.object.__init__")
            self.err(node, f"super() has no '{name}'")
        if isinstance(v, str) and name in _STR_METHODS:
            return LibMethod(v, name)
        if isinstance(v, dict) and name in _DICT_METHODS:
            return LibMethod(v, name)
        if isinstance(v, list) and name in _LIST_METHODS:
            return LibMethod(v, name)
        if isinstance(v, tuple) and name in ("index", "count"):
            return LibMethod(v, name)
        if v is None:
            raise self.fault("AttributeError", node, f"'NoneType' object has no attribute '{name}'")
        kind = self.kind_of(v)
        if (kind, name) in self.libattr:
            return self.libattr[(kind, name)](self, v, node)
        if (kind, name) in self.libmeth:
            return LibMethod(v, name)
        if isinstance(v, ExcVal):
            if name == "args":
                return (v.msg,)
        if isinstance(v, FuncRef) and name in ("__name__", "__qualname__"):
            return v.fi.name
        if isinstance(v, (str, dict, list, tuple, Num)):
            real = {str: str, dict: dict, list: list, tuple: tuple}.get(type(v), float)
            if hasattr(real, name):
                # the Python type does have this attribute: it is the summary that is missing, not the attribute
                self.err(node, f"no summary for attribute '{name}' of {kind}")
            raise self.fault("AttributeError", node, f"'{kind}' object has no attribute '{name}'")
        self.err(node, f"no summary for attribute '{name}' of {kind}")

    def class_const(self, ci, expr):
        key = id(expr)
        if key not in self._const_cache:
            saved = (self.stack, self.depth)
            self.stack = []
            try:
                env = {"__module__": ci.module.name, "__class__ci": ci}
                # names defined earlier in the class body are visible
                for n, e in ci.assigns.items():
                    if e is expr:
                        break
                self._const_cache[key] = self.eval(expr, env)
            finally:
                self.stack, self.depth = saved
        return self._const_cache[key]

    def setattr_(self, v, name, value, node):
        if isinstance(v, Obj):
            if v.cls is not None:
                s = v.cls.find_setter(name)
                if s is not None:
                    self.call_func(s, [value], {}, node, self_obj=v)
                    return
                m = v.cls.find_method(name)
                if m is not None and m.is_property:
                    raise self.fault("AttributeError", node, f"can't set attribute '{name}'")
            v.attrs[name] = value
            self.writes.append((v.label, name, value, getattr(node, "lineno", None)))
            return
        self.err(node, f"attribute store on {v!r}")

    # -- subscripts ------------------------------------------------------------------
    def getitem(self, v, idx, node):
        if isinstance(v, Term) or (isinstance(idx, Term) and isinstance(v, (list, tuple))):
            return Term("getitem", [v, idx])
        if isinstance(v, dict):
            k = self.hashkey(idx, node)
            if k not in v:
                if isinstance(v, DefaultDict) and v.factory is not None:
                    v[k] = self.call_value(v.factory, [], {}, node)
                    return v[k]
                raise self.fault("KeyError", node, repr(k))
            return v[k]
        if isinstance(v, (list, tuple, str)):
            if isinstance(idx, slice):
                return v[idx]
            if isinstance(idx, Num) and idx.is_const():
                i = idx.value()
                if i.denominator != 1:
                    raise self.fault("TypeError", node, "indices must be integers")
                try:
                    return v[int(i)]
                except IndexError:
                    raise self.fault("IndexError", node, "index out of range")
            if isinstance(idx, bool):
                return v[int(idx)]
            if _is_sym(idx) and idx.is_Integer:
                try:
                    return v[int(idx)]
                except IndexError:
                    raise self.fault("IndexError", node, "index out of range")
            raise self.fault("TypeError", node, "indices must be integers")
        if v is None:
            raise self.fault("TypeError", node, "'NoneType' object is not subscriptable")
        kind = self.kind_of(v)
        if (kind, "__getitem__") in self.libmeth:
            return self.libmeth[(kind, "__getitem__")](self, v, [idx], {}, node)
        if isinstance(v, Num):
            raise self.fault("TypeError", node, "'float' object is not subscriptable")
        self.err(node, f"subscript of {v!r}")

    def setitem(self, v, idx, value, node):
        if isinstance(v, dict):
            v[self.hashkey(idx, node)] = value
            return
        if isinstance(v, list) and isinstance(idx, slice):
            try:
                v[idx] = list(self.iterate(value, node))
            except ValueError as e:
                raise self.fault("ValueError", node, str(e))
            return
        if isinstance(v, list):
            if not (isinstance(idx, Num) and idx.is_const()) and not (_is_sym(idx) and getattr(idx, "is_Integer", False)):
                self.err(node, f"list item assignment at a non-constant position {self.describe(idx)}")
            try:
                v[int(idx.value()) if isinstance(idx, Num) else int(idx)] = value
            except IndexError:
                raise self.fault("IndexError", node, "list assignment index out of range")
            return
        kind = self.kind_of(v)
        if (kind, "__setitem__") in self.libmeth:
            return self.libmeth[(kind, "__setitem__")](self, v, [idx, value], {}, node)
        if v is None:
            raise self.fault("TypeError", node, "'NoneType' object does not support item assignment")
        self.err(node, f"subscript store on {v!r}")

    # -- arithmetic ----------------------------------------------------------------
    def binop(self, op, a, b, node):
        if isinstance(op, ast.Div) and isinstance(a, Obj) and (self.kind_of(a), "__truediv__") in self.libmeth:
            return self.libmeth[(self.kind_of(a), "__truediv__")](self, a, [b], {}, node)      # path-like objects: dir / "name"
        if (isinstance(a, Term) or isinstance(b, Term)) and type(op).__name__ in _BINOP_NAME:
            return Term(_BINOP_NAME[type(op).__name__], [a, b])
        if getattr(self, "sympy_mode", False) and (isinstance(a, ExtRef) or isinstance(b, ExtRef)) and \
                type(a).__name__ != "Vec" and type(b).__name__ != "Vec" and not isinstance(a, str) and not isinstance(b, str):
            try:
                a = num_to_sym(a) if isinstance(a, ExtRef) else a
                b = num_to_sym(b) if isinstance(b, ExtRef) else b
            except TypeError:
                pass
        if isinstance(op, ast.Mult) and ((isinstance(a, (str, list, tuple)) and _is_sym(b) and b.is_Integer) or
                                         (isinstance(b, (str, list, tuple)) and _is_sym(a) and a.is_Integer)):
            return a * int(b) if isinstance(a, (str, list, tuple)) else b * int(a)      # sequence repetition
        if (_is_sym(a) or _is_sym(b)) and type(a).__name__ != "Vec" and type(b).__name__ != "Vec":
            try:
                x, y = num_to_sym(a), num_to_sym(b)
            except TypeError:
                raise self.fault("TypeError", node, f"unsupported operand types {self.kind_of(a)}, {self.kind_of(b)}")
            if isinstance(op, ast.Add):
                return x + y
            if isinstance(op, ast.Sub):
                return x - y
            if isinstance(op, ast.Mult):
                return x * y
            if isinstance(op, ast.Div):
                return x / y
            if isinstance(op, ast.Pow):
                return x ** y
            if isinstance(op, ast.FloorDiv):
                return _sp.floor(x / y)
            if isinstance(op, ast.Mod):
                return _sp.Mod(x, y)
            self.err(node, f"operator {type(op).__name__} on symbolic terms")
        if type(a).__name__ == "Vec" or type(b).__name__ == "Vec":
            from .libsum import vec_binop
            return vec_binop(self, op, a, b, node)
        if isinstance(a, PySet) and isinstance(b, PySet) and isinstance(op, (ast.BitAnd, ast.BitOr, ast.Sub, ast.BitXor)):
            def has(s_, x):
                return any(x is y or self.py_eq(x, y) is True for y in s_)
            if isinstance(op, ast.BitOr):
                return self.mkset(list(a) + list(b))
            if isinstance(op, ast.BitAnd):
                return PySet(x for x in a if has(b, x))
            if isinstance(op, ast.Sub):
                return PySet(x for x in a if not has(b, x))
            return PySet([x for x in a if not has(b, x)] + [x for x in b if not has(a, x)])
        if isinstance(op, (ast.BitAnd, ast.BitOr)):
            if isinstance(a, Mask) or isinstance(b, Mask):
                return Mask(f"({self.describe_mask(a)}{'&' if isinstance(op, ast.BitAnd) else '|'}{self.describe_mask(b)})")
            ta = self.truth(a, node)
            tb = self.truth(b, node)
            return (ta and tb) if isinstance(op, ast.BitAnd) else (ta or tb)
        if isinstance(a, str) and isinstance(b, str) and isinstance(op, ast.Add):
            return a + b
        if isinstance(op, ast.Add) and (type(a).__name__ == "SStr" or type(b).__name__ == "SStr") and \
                (isinstance(a, str) or type(a).__name__ == "SStr") and (isinstance(b, str) or type(b).__name__ == "SStr"):
            from .docsim import SStr
            return SStr.make([a, b])
        if isinstance(a, list) and isinstance(b, list) and isinstance(op, ast.Add):
            return a + b
        if isinstance(a, tuple) and isinstance(b, tuple) and isinstance(op, ast.Add):
            return a + b
        if isinstance(a, str) and isinstance(op, ast.Mod):
            return Opaque("str%")
        if isinstance(op, ast.Mult) and (isinstance(a, (str, list, tuple)) or isinstance(b, (str, list, tuple))):
            seq, k_ = (a, b) if isinstance(a, (str, list, tuple)) else (b, a)
            if isinstance(k_, Num) and k_.is_const():
                return seq * int(k_.value())
            if isinstance(k_, Num) and isinstance(seq, str):
                return Opaque("str")
        if isinstance(a, Opaque) and a.tag == "str" or isinstance(b, Opaque) and b.tag == "str":
            return Opaque("str")
        arr = None
        if isinstance(a, Arr) or isinstance(b, Arr):
            if isinstance(a, Arr) and isinstance(b, Arr):
                if a.sel != b.sel:
                    self.err(node, "arithmetic between differently selected series")
                arr = a
                x, y = a.num, b.num
            elif isinstance(a, Arr):
                arr, x, y = a, a.num, b
            else:
                arr, x, y = b, a, b.num
        else:
            x, y = a, b
        if isinstance(x, bool):
            x = Num.const(int(x))
        if isinstance(y, bool):
            y = Num.const(int(y))
        if isinstance(x, ExtRef) and x.dotted.split(".")[0] in ("scipy", "numpy", "math"):
            x = Num.atom(x.dotted)      # library constant
        if isinstance(y, ExtRef) and y.dotted.split(".")[0] in ("scipy", "numpy", "math"):
            y = Num.atom(y.dotted)
        if isinstance(x, Opaque) or isinstance(y, Opaque):
            if isinstance(x, (Num, Opaque)) and isinstance(y, (Num, Opaque)):
                sym = {ast.Add: "+", ast.Sub: "-", ast.Mult: "*", ast.Div: "/", ast.Pow: "**"}.get(type(op), "?")
                r = Num.atom(f"({self.describe(x)}{sym}{self.describe(y)})")
                return arr.with_num(r) if arr is not None else r
        if not (isinstance(x, Num) and isinstance(y, Num)):
            raise self.fault("TypeError", node,
                             f"unsupported operand type(s) for {type(op).__name__}: "
                             f"'{self.kind_of(a)}' and '{self.kind_of(b)}'")
        try:
            if isinstance(op, ast.Add):
                r = x + y
            elif isinstance(op, ast.Sub):
                r = x - y
            elif isinstance(op, ast.Mult):
                r = x * y
            elif isinstance(op, ast.Div):
                r = x / y
            elif isinstance(op, ast.Pow):
                r = x ** y
            elif isinstance(op, ast.FloorDiv) and x.is_const() and y.is_const():
                r = Num.const(x.value() // y.value())
            elif isinstance(op, ast.Mod) and x.is_const() and y.is_const():
                r = Num.const(x.value() % y.value())
            else:
                self.err(node, f"operator {type(op).__name__} outside the fragment")
        except ZeroDivisionError:
            raise self.fault("ZeroDivisionError", node, "division by zero")
        except ValueError as e:
            # outside the polynomial fragment: keep an opaque atom so that path rules can still run
            sym = {ast.Add: "+", ast.Sub: "-", ast.Mult: "*", ast.Div: "/", ast.Pow: "**"}.get(type(op), "?")
            r = Num.atom(f"({x.canon()}){sym}({y.canon()})")
        return arr.with_num(r) if arr is not None else r

    def describe_mask(self, m):
        return m.desc if isinstance(m, Mask) else self.describe(m)

    # -- expressions ------------------------------------------------------------------
    def eval(self, node, env):
        m = getattr(self, "e_" + type(node).__name__, None)
        if m is None:
            self.err(node, f"expression kind {type(node).__name__} outside the fragment")
        return m(node, env)

    def e_Constant(self, node, env):
        v = node.value
        if isinstance(v, bool) or v is None or isinstance(v, str):
            return v
        if isinstance(v, (int, float)):
            if getattr(self, "sympy_mode", False):
                from fractions import Fraction as _F
                fr = _F(repr(v)) if isinstance(v, float) else _F(v)
                return _sp.Rational(fr.numerator, fr.denominator)
            return Num.const(v)
        if v is Ellipsis:
            return Opaque("...")
        self.err(node, f"constant {v!r}")

    def e_Name(self, node, env):
        n = node.id
        if n in env:
            return env[n]
        if n == "super":
            return ExtRef("builtins.super")
        ci = env.get("__class__ci")
        if ci is not None and n in ci.assigns:
            return self.class_const(ci, ci.assigns[n])
        if self.stack and n in self._function_locals(self.stack[-1], node):
            # a local of the running function that no statement on this path has bound: Python raises UnboundLocalError here
            raise self.fault("UnboundLocalError", node, f"cannot access local variable '{n}' where it is not associated with a value")
        return self.global_value(env["__module__"], n, node)

    _LOCALS_CACHE = {}

    def _function_locals(self, fi, at):
        """names the compiler treats as locals of the function body that contains `at` directly (not inside a nested def / lambda /
        comprehension, whose names live in their own scope): assignment, augmented assignment, for / with / except targets, imports"""
        fnode = getattr(fi, "node", None)
        if not isinstance(fnode, (ast.FunctionDef, ast.AsyncFunctionDef)):
            return ()
        key = id(fnode)
        info = Interp._LOCALS_CACHE.get(key)
        if info is None:
            names, inner_spans, declared = set(), [], set()

            def walk(n_, top):
                for ch in ast.iter_child_nodes(n_):
                    if isinstance(ch, (ast.FunctionDef, ast.AsyncFunctionDef, ast.Lambda, ast.ListComp, ast.SetComp, ast.DictComp, ast.GeneratorExp, ast.ClassDef)):
                        if isinstance(ch, (ast.FunctionDef, ast.AsyncFunctionDef, ast.ClassDef)):
                            names.add(ch.name)
                        inner_spans.append((ch.lineno, getattr(ch, "end_lineno", ch.lineno), ch.col_offset, getattr(ch, "end_col_offset", 10**6)))
                        continue
                    if isinstance(ch, (ast.Global, ast.Nonlocal)):
                        declared.update(ch.names)
                    if isinstance(ch, ast.Name) and isinstance(ch.ctx, (ast.Store, ast.Del)):
                        names.add(ch.id)
                    if isinstance(ch, ast.ExceptHandler) and ch.name:
                        names.add(ch.name)
                    if isinstance(ch, (ast.Import, ast.ImportFrom)):
                        for a_ in ch.names:
                            names.add((a_.asname or a_.name).split(".")[0])
                    walk(ch, False)
            for st in fnode.body:
                walk(ast.Module(body=[st], type_ignores=[]), True)
            args = fnode.args
            params = {a_.arg for a_ in args.posonlyargs + args.args + args.kwonlyargs} | ({args.vararg.arg} if args.vararg else set()) | \
                ({args.kwarg.arg} if args.kwarg else set())
            info = (names - declared - params, inner_spans)
            Interp._LOCALS_CACHE[key] = info
        names, inner_spans = info
        ln, col = getattr(at, "lineno", None), getattr(at, "col_offset", 0)
        if ln is None or not (fnode.lineno <= ln <= getattr(fnode, "end_lineno", ln)):
            return ()
        for (a_, b_, ca, cb) in inner_spans:
            if (a_ < ln < b_) or (a_ == ln == b_ and ca <= col < cb) or (a_ == ln != b_ and col >= ca) or (b_ == ln != a_ and col < cb):
                return ()       # inside a nested scope: its own rules apply
        return names

    def e_Attribute(self, node, env):
        return self.getattr_(self.eval(node.value, env), node.attr, node)

    def e_Subscript(self, node, env):
        v = self.eval(node.value, env)
        idx = self.eval_index(node.slice, env)
        return self.getitem(v, idx, node)

    def eval_index(self, s, env):
        if isinstance(s, ast.Slice):
            def cv(x):
                if x is None:
                    return None
                v = self.eval(x, env)
                if v is None:
                    return None
                if isinstance(v, Num) and v.is_const():
                    return int(v.value())
                if _is_sym(v) and v.is_Integer:
                    return int(v)
                return v
            lo, hi, st = cv(s.lower), cv(s.upper), cv(s.step)
            if all(isinstance(x, (int, type(None))) for x in (lo, hi, st)):
                return slice(lo, hi, st)
            return ("slice", lo, hi, st)
        if isinstance(s, ast.Tuple):
            return tuple(self.eval_index(e, env) for e in s.elts)
        return self.eval(s, env)

    def e_Call(self, node, env):
        # super()
        if isinstance(node.func, ast.Name) and node.func.id == "super" and "super" not in env:
            fi = env.get("__func__")
            selfv = env.get(fi.params()[0]) if fi and fi.params() else None
            return SuperRef(selfv, fi.cls)
        fv = self.eval(node.func, env)
        args = []
        for a in node.args:
            if isinstance(a, ast.Starred):
                v = self.eval(a.value, env)
                if not isinstance(v, (list, tuple)):
                    self.err(node, "*args of a non-sequence")
                args.extend(v)
            else:
                args.append(self.eval(a, env))
        kwargs = {}
        for k in node.keywords:
            v = self.eval(k.value, env)
            if k.arg is None:
                if not isinstance(v, dict):
                    self.err(node, "**kwargs of a non-dict")
                for kk, vv in v.items():
                    if kk in kwargs:
                        raise self.fault("TypeError", node, f"got multiple values for keyword argument '{kk}'")
                    kwargs[kk] = vv
            else:
                kwargs[k.arg] = v
        return self.call_value(fv, args, kwargs, node)

    def e_Compare(self, node, env):
        left = self.eval(node.left, env)
        result = True
        for op, c in zip(node.ops, node.comparators):
            right = self.eval(c, env)
            r = self.compare(op, left, right, node)
            if len(node.ops) == 1:
                return r
            if not self.truth(r, node):
                return False
            left = right
        return result

    def e_BoolOp(self, node, env):
        is_and = isinstance(node.op, ast.And)
        v = None
        for i, e in enumerate(node.values):
            v = self.eval(e, env)
            if i == len(node.values) - 1:
                return v
            if isinstance(v, (Mask,)):
                raise self.fault("ValueError", node, "truth value of an array is ambiguous")
            t = self.truth(v, node)
            if is_and and not t:
                return v if not isinstance(v, UnknownBool) else False
            if not is_and and t:
                return v if not isinstance(v, UnknownBool) else True
        return v

    def e_UnaryOp(self, node, env):
        v = self.eval(node.operand, env)
        if isinstance(node.op, ast.Not):
            return not self.truth(v, node)
        if isinstance(node.op, ast.USub):
            if type(v).__module__ == "numpy" and type(v).__name__ == "ndarray":
                return -v           # symbolic n-d array (ndsym)
            if isinstance(v, Term):
                return Term("neg", [v])
            if isinstance(v, Num) or _is_sym(v):
                return -v
            if type(v).__name__ == "Vec":
                from .libsum import Vec
                return Vec([self.binop(ast.Sub(), Num.const(0) if not getattr(self, "sympy_mode", False) else _sp.Integer(0), x, node) for x in v.items])
            if isinstance(v, Arr):
                return v.with_num(-v.num)
            if isinstance(v, Opaque):
                return Opaque("-" + v.tag)
            if isinstance(v, ExtRef):
                if getattr(self, "sympy_mode", False):
                    try:
                        return -num_to_sym(v)       # a library constant (scipy.constants.*, numpy.pi ...)
                    except TypeError:
                        pass
                return Opaque("-" + v.dotted)
        if isinstance(node.op, ast.UAdd):
            return v
        if isinstance(node.op, ast.Invert) and type(v).__module__ == "numpy" and type(v).__name__ == "ndarray":
            import numpy as _np
            out = _np.empty(v.shape, dtype=object)
            for idx_ in _np.ndindex(*v.shape):
                out[idx_] = not self.truth(v[idx_], node)
            return out
        if isinstance(node.op, ast.Invert) and type(v).__name__ == "Vec":
            from .libsum import Vec
            return Vec([not self.truth(x, node) for x in v.items])
        if isinstance(node.op, ast.Invert) and isinstance(v, (bool, UnknownBool)):
            return not self.truth(v, node)
        if isinstance(node.op, ast.Invert) and isinstance(v, Mask):
            return Mask(f"~{v.desc}")
        self.err(node, f"unary {type(node.op).__name__} on {v!r}")

    def e_BinOp(self, node, env):
        return self.binop(node.op, self.eval(node.left, env), self.eval(node.right, env), node)

    def e_IfExp(self, node, env):
        if self.truth(self.eval(node.test, env), node):
            return self.eval(node.body, env)
        return self.eval(node.orelse, env)

    def e_JoinedStr(self, node, env):
        # f-strings only build messages; evaluate the parts for faults?  No: formatting never
        # decides control flow in the fragment.  Concrete when every part is concrete.
        parts = []
        for v in node.values:
            if isinstance(v, ast.Constant):
                parts.append(str(v.value))
            else:
                try:
                    x = self.eval(v.value, env)
                except (Raised, AnalysisError):
                    return Opaque("str")
                if isinstance(x, str):
                    parts.append(x)
                elif x is None:
                    parts.append("None")
                elif v.format_spec is None and v.conversion == -1 and not isinstance(x, bool) and (
                        (isinstance(x, Num) and x.is_const() and x.value().denominator == 1) or (_is_sym(x) and x.is_Integer)):
                    parts.append(str(int(x.value()) if isinstance(x, Num) else int(x)))      # f"K{i}" with a literal loop index
                elif getattr(self, "sym_strings", False):
                    from .docsim import sstr_of
                    if isinstance(x, Obj) and x.cls is not None and x.cls.find_method("__str__") is not None:
                        # formatting an object of the package: its own __str__ decides the text
                        x = self.call_func(x.cls.find_method("__str__"), [], {}, v, self_obj=x)
                        if isinstance(x, str):
                            parts.append(x)
                            continue
                    sx = sstr_of(x)
                    if sx is None:
                        return Opaque("str")
                    parts.append(sx)
                else:
                    return Opaque("str")
        if any(not isinstance(p_, str) for p_ in parts):
            from .docsim import SStr
            return SStr.make(parts)
        return "".join(parts)

    def e_List(self, node, env):
        out = []
        for e in node.elts:
            if isinstance(e, ast.Starred):
                out.extend(self.eval(e.value, env))
            else:
                out.append(self.eval(e, env))
        return out

    def e_Tuple(self, node, env):
        return tuple(self.e_List(node, env))

    def e_Set(self, node, env):
        return self.mkset(self.e_List(node, env))

    def mkset(self, items):
        out = PySet()
        for v in items:
            if not any(v is x or self.py_eq(v, x) is True for x in out):
                out.append(v)
        return out

    def e_Dict(self, node, env):
        d = {}
        for k, v in zip(node.keys, node.values):
            if k is None:
                d.update(self.eval(v, env))
            else:
                d[self.hashkey(self.eval(k, env), node)] = self.eval(v, env)
        return d

    def _comp(self, gens, env, emit):
        def rec(i, env):
            if i == len(gens):
                emit(env)
                return
            g = gens[i]
            for item in self.iterate(self.eval(g.iter, env), g.iter):
                e2 = dict(env)
                self.assign(g.target, item, e2)
                if all(self.truth(self.eval(c, e2), c) for c in g.ifs):
                    rec(i + 1, e2)
        rec(0, dict(env))

    def e_ListComp(self, node, env):
        out = []
        self._comp(node.generators, env, lambda e: out.append(self.eval(node.elt, e)))
        return out

    e_GeneratorExp = e_ListComp

    def e_SetComp(self, node, env):
        out = []
        def add(e):
            v = self.eval(node.elt, e)
            if not any(v is x or self.py_eq(v, x) is True for x in out):
                out.append(v)
        self._comp(node.generators, env, add)
        return PySet(out)          # sets are modelled as duplicate-free lists (iteration order = insertion order)

    def e_DictComp(self, node, env):
        out = {}
        self._comp(node.generators, env,
                   lambda e: out.__setitem__(self.hashkey(self.eval(node.key, e), node), self.eval(node.value, e)))
        return out

    def e_NamedExpr(self, node, env):
        v = self.eval(node.value, env)
        self.assign(node.target, v, env)
        return v

    def e_Lambda(self, node, env):
        lr = LambdaRef(node, env)
        # default values are evaluated when the lambda is created (the `lambda x, n=target:` idiom)
        a = node.args
        names = [x.arg for x in a.args]
        lr.defaults = {nm: self.eval(d, env) for nm, d in zip(names[len(names) - len(a.defaults):], a.defaults)} if a.defaults else {}
        for kw_, d in zip(a.kwonlyargs, a.kw_defaults):
            if d is not None:
                lr.defaults[kw_.arg] = self.eval(d, env)
        return lr

    def e_Starred(self, node, env):
        self.err(node, "starred expression outside call")

    def iterate(self, v, node):
        if isinstance(v, LazyIter):
            return list(self._lazy_items(v, node))
        if isinstance(v, (list, tuple)):
            return list(v)
        if isinstance(v, dict):
            return list(v.keys())
        if isinstance(v, str):
            return list(v)
        if isinstance(v, Term):
            if ("Term", "__iter__") in self.libmeth:
                return self.libmeth[("Term", "__iter__")](self, v, [], {}, node)
            return [Term("elem", [v])]      # one representative element stands for every element
        kind = self.kind_of(v)
        if (kind, "__iter__") in self.libmeth:
            return self.libmeth[(kind, "__iter__")](self, v, [], {}, node)
        if v is None:
            raise self.fault("TypeError", node, "'NoneType' object is not iterable")
        self.err(node, f"iteration over {v!r}")

    # -- statements --------------------------------------------------------------------
    def exec_block(self, body, env):
        for st in body:
            m = getattr(self, "s_" + type(st).__name__, None)
            if m is None:
                self.err(st, f"statement kind {type(st).__name__} outside the fragment")
            m(st, env)

    def assign(self, target, value, env):
        if isinstance(target, ast.Name):
            if target.id in env.get("__globals__", ()):
                self.err(target, f"assignment to global '{target.id}' outside the fragment")
            env[target.id] = value
        elif isinstance(target, ast.Attribute):
            self.setattr_(self.eval(target.value, env), target.attr, value, target)
        elif isinstance(target, ast.Subscript):
            self.setitem(self.eval(target.value, env), self.eval_index(target.slice, env), value, target)
        elif isinstance(target, (ast.Tuple, ast.List)):
            vals = self.iterate(value, target)
            stars = [i for i, t in enumerate(target.elts) if isinstance(t, ast.Starred)]
            if len(stars) == 1:          # first, *rest = xs
                i, after = stars[0], len(target.elts) - stars[0] - 1
                if len(vals) < len(target.elts) - 1:
                    raise self.fault("ValueError", target, "not enough values to unpack")
                vals = list(vals)
                mid = vals[i:len(vals) - after]
                for t, v in zip(target.elts[:i], vals[:i]):
                    self.assign(t, v, env)
                self.assign(target.elts[i].value, list(mid), env)
                for t, v in zip(target.elts[i + 1:], vals[len(vals) - after:] if after else []):
                    self.assign(t, v, env)
                return
            if len(vals) != len(target.elts):
                raise self.fault("ValueError", target, "unpack length mismatch")
            for t, v in zip(target.elts, vals):
                self.assign(t, v, env)
        else:
            self.err(target, f"assignment target {type(target).__name__}")

    def s_Assign(self, st, env):
        v = self.eval(st.value, env)
        for t in st.targets:
            self.assign(t, v, env)

    def s_AnnAssign(self, st, env):
        if st.value is not None:
            self.assign(st.target, self.eval(st.value, env), env)

    def s_AugAssign(self, st, env):
        if isinstance(st.target, ast.Name):
            cur = self.e_Name(ast.Name(id=st.target.id, ctx=ast.Load()), env)
        elif isinstance(st.target, ast.Attribute):
            cur = self.getattr_(self.eval(st.target.value, env), st.target.attr, st)
        elif isinstance(st.target, ast.Subscript):
            cur = self.getitem(self.eval(st.target.value, env), self.eval_index(st.target.slice, env), st)
        else:
            self.err(st, "augmented assignment target")
        self.assign(st.target, self.binop(st.op, cur, self.eval(st.value, env), st), env)

    def s_Expr(self, st, env):
        if isinstance(st.value, ast.Constant):
            return
        self.eval(st.value, env)

    def s_If(self, st, env):
        if self.truth(self.eval(st.test, env), st.test):
            self.exec_block(st.body, env)
        else:
            self.exec_block(st.orelse, env)

    def s_Return(self, st, env):
        raise _Return(self.eval(st.value, env) if st.value is not None else None)

    def s_Pass(self, st, env):
        pass

    def s_Break(self, st, env):
        raise _Break()

    def s_Continue(self, st, env):
        raise _Continue()

    def s_Raise(self, st, env):
        if st.exc is None:
            cur = env.get("__active_exc__")
            if cur is None:
                self.err(st, "bare raise outside handler")
            raise Raised(cur)
        v = self.eval(st.exc, env)
        if isinstance(v, ClassRef):
            v = self.instantiate(v.ci, [], {}, st)
        if isinstance(v, (ExtRef, ExcClassRef)):
            v = self.call_value(v, [], {}, st)
        if not isinstance(v, ExcVal):
            self.err(st, f"raise of non-exception {v!r}")
        if v.node is None or not hasattr(v.node, "lineno"):
            v.node = st
        if st.cause is not None:
            c = self.eval(st.cause, env)
            v.cause = c if isinstance(c, ExcVal) else None
        raise Raised(v)

    def exc_matches(self, exc: ExcVal, type_node, env):
        if type_node is None:
            return True
        t = self.eval(type_node, env)
        ts = t if isinstance(t, tuple) else (t,)
        for x in ts:
            if isinstance(x, ClassRef):
                if exc.is_a(x.ci.name):
                    return True
            elif isinstance(x, ExtRef):
                nm = x.dotted.split(".")[-1]
                if exc.is_a(nm) or exc.is_a(x.dotted):
                    return True
            else:
                self.err(type_node, f"except clause type {x!r}")
        return False

    def s_Try(self, st, env):
        pending = None      # control-flow exception to re-raise after finally
        try:
            try:
                self.exec_block(st.body, env)
            except Raised as r:
                handled = False
                for h in st.handlers:
                    if self.exc_matches(r.exc, h.type, env):
                        handled = True
                        if h.name:
                            env[h.name] = r.exc
                        saved = env.get("__active_exc__")
                        env["__active_exc__"] = r.exc
                        try:
                            self.exec_block(h.body, env)
                        finally:
                            env["__active_exc__"] = saved
                        break
                if not handled:
                    raise
            else:
                self.exec_block(st.orelse, env)
        except (Raised, _Return, _Break, _Continue) as e:
            pending = e
        if st.finalbody:
            self.exec_block(st.finalbody, env)
        if pending is not None:
            raise pending

    def _lazy_items(self, lz, node):
        for _ in range(5000):
            x = lz.pull(self, node)
            if x is LazyIter.STOP:
                return
            yield x
        self.err(node, "lazy iterator does not terminate")

    def s_For(self, st, env):
        itv = self.eval(st.iter, env)
        items = self._lazy_items(itv, st.iter) if isinstance(itv, LazyIter) else self.iterate(itv, st.iter)
        broke = False
        for it in items:
            self.assign(st.target, it, env)
            try:
                self.exec_block(st.body, env)
            except _Break:
                broke = True
                break
            except _Continue:
                continue
        if not broke:
            self.exec_block(st.orelse, env)

    def s_While(self, st, env):
        n = 0
        while self.truth(self.eval(st.test, env), st.test):
            n += 1
            if n > 64:
                self.err(st, "while loop bound exceeded")
            try:
                self.exec_block(st.body, env)
            except _Break:
                return
            except _Continue:
                continue
        self.exec_block(st.orelse, env)

    def s_Import(self, st, env):
        for a in st.names:
            nm = a.asname or a.name.split(".")[0]
            env[nm] = ModRef(a.name) if a.name in self.model.modules else ExtRef(a.name)

    def s_ImportFrom(self, st, env):
        for a in st.names:
            r = self.model.resolve(st.module, a.name) if st.module in self.model.modules else ("ext", f"{st.module}.{a.name}")
            if r is None:
                self.err(st, f"cannot resolve 'from {st.module} import {a.name}'")
            env[a.asname or a.name] = self.wrap_resolved(r)

    def s_Assert(self, st, env):
        if not self.truth(self.eval(st.test, env), st.test):
            raise Raised(ExcVal(["AssertionError", "Exception", "BaseException"], node=st))

    def s_Delete(self, st, env):
        for t in st.targets:
            if isinstance(t, ast.Name):
                env.pop(t.id, None)
            elif isinstance(t, ast.Subscript):
                v = self.eval(t.value, env)
                k = self.eval_index(t.slice, env)
                if isinstance(v, dict):
                    if self.hashkey(k, t) not in v:
                        raise self.fault("KeyError", t, repr(k))
                    del v[self.hashkey(k, t)]
                else:
                    self.err(t, "del on non-dict")
            else:
                self.err(t, "del target")

    def s_FunctionDef(self, st, env):
        fi = FuncInfo(self.model.module(env["__module__"]), st, None)
        env[st.name] = FuncRef(fi, closure=env)

    def s_Nonlocal(self, st, env):
        env.setdefault("__nonlocals__", set()).update(st.names)

    def s_Global(self, st, env):
        env.setdefault("__globals__", set()).update(st.names)

    def s_With(self, st, env):
        mgrs = []
        for it in st.items:
            v = self.eval(it.context_expr, env)
            kind = self.kind_of(v)
            if (kind, "__enter__") in self.libmeth:
                entered = self.libmeth[(kind, "__enter__")](self, v, [], {}, st)
            else:
                self.err(st, f"with statement over {kind}: no context-manager summary")
            mgrs.append((kind, v))
            if it.optional_vars is not None:
                self.assign(it.optional_vars, entered, env)
        try:
            self.exec_block(st.body, env)
        finally:
            for kind, v in reversed(mgrs):
                if (kind, "__exit__") in self.libmeth:
                    self.libmeth[(kind, "__exit__")](self, v, [], {}, st)

    # -- builtins ------------------------------------------------------------------------
    def _install_builtins(self):
        E = self.ext
        # functools.reduce / operator.* handed around as function values
        _OPS = {"add": ast.Add, "sub": ast.Sub, "mul": ast.Mult, "truediv": ast.Div, "pow": ast.Pow, "floordiv": ast.FloorDiv, "mod": ast.Mod,
                "matmul": ast.MatMult, "and_": ast.BitAnd, "or_": ast.BitOr}
        for nm_, op_ in _OPS.items():
            E[f"operator.{nm_}"] = (lambda op_: lambda I, a, k, n: I.binop(op_(), a[0], a[1], n))(op_)
        E["operator.neg"] = lambda I, a, k, n: I.binop(ast.Sub(), Num.const(0), a[0], n)
        E["operator.itemgetter"] = lambda I, a, k, n: Obj(kind="ItemGetter", label="itemgetter", attrs={"keys": list(a)})
        self.libmeth[("ItemGetter", "__call__")] = lambda I, v, a, k, n: (I.getitem(a[0], v.attrs["keys"][0], n) if len(v.attrs["keys"]) == 1
                                                                          else tuple(I.getitem(a[0], x, n) for x in v.attrs["keys"]))

        def _attr_path(I, o, path, n):
            for part in path.split("."):
                o = I.getattr_(o, part, n)
            return o
        E["operator.attrgetter"] = lambda I, a, k, n: Obj(kind="AttrGetter", label="attrgetter", attrs={"names": list(a)})
        self.libmeth[("AttrGetter", "__call__")] = lambda I, v, a, k, n: (_attr_path(I, a[0], v.attrs["names"][0], n) if len(v.attrs["names"]) == 1
                                                                          else tuple(_attr_path(I, a[0], x, n) for x in v.attrs["names"]))
        E["operator.methodcaller"] = lambda I, a, k, n: Obj(kind="MethodCaller", label="methodcaller", attrs={"name": a[0], "args": list(a[1:]), "kwargs": dict(k)})
        self.libmeth[("MethodCaller", "__call__")] = lambda I, v, a, k, n: I.call_value(I.getattr_(a[0], v.attrs["name"], n), list(v.attrs["args"]), dict(v.attrs["kwargs"]), n)
        for nm_, cmp_ in {"eq": ast.Eq, "ne": ast.NotEq, "lt": ast.Lt, "le": ast.LtE, "gt": ast.Gt, "ge": ast.GtE, "is_": ast.Is, "is_not": ast.IsNot}.items():
            if f"operator.{nm_}" not in E:
                E[f"operator.{nm_}"] = (lambda c_: lambda I, a, k, n: I.compare(c_(), a[0], a[1], n))(cmp_)
        if "operator.getitem" not in E:
            E["operator.getitem"] = lambda I, a, k, n: I.getitem(a[0], a[1], n)

        def b_reduce(I, a, k, n):
            seq = list(I.iterate(a[1], n))
            if len(a) > 2:
                acc = a[2]
            elif seq:
                acc = seq.pop(0)
            else:
                raise I.fault("TypeError", n, "reduce() of empty iterable with no initial value")
            for x in seq:
                acc = I.call_value(a[0], [acc, x], {}, n)
            return acc
        E["functools.reduce"] = b_reduce
        # regular-expression functions on concrete text: evaluated by the checker's own `re` (a pure function of its arguments)
        import re as _re

        def _re_fn(name):
            def f(I, a, k, n):
                if all(isinstance(x, (str, int)) and not isinstance(x, bool) for x in a) and all(isinstance(x, (str, int)) for x in k.values()):
                    r = getattr(_re, name)(*a, **k)
                    if name in ("match", "search", "fullmatch"):
                        return None if r is None else Obj(kind="ReMatch", label="match", attrs={"m": r})
                    return r
                I.err(n, f"re.{name} on non-literal text")
            return f
        for nm in ("sub", "split", "findall", "match", "search", "fullmatch", "escape"):
            E[f"re.{nm}"] = _re_fn(nm)
        self.libmeth[("ReMatch", "group")] = lambda I, v, a, k, n: v.attrs["m"].group(*[int(I.to_py(x, n)) if not isinstance(x, str) else x for x in a])
        self.libmeth[("ReMatch", "groups")] = lambda I, v, a, k, n: tuple(v.attrs["m"].groups())
        # context managers that do not change any value: floating-point error state, warning filters
        for nm in ("numpy.errstate", "warnings.catch_warnings", "contextlib.nullcontext"):
            E[nm] = lambda I, a, k, n: Obj(kind="NullContext", label="context")
        # contextlib.closing(x): enters with x, calls x.close() on exit (normal or exceptional)
        E["contextlib.closing"] = lambda I, a, k, n: Obj(kind="Closing", label="closing", attrs={"thing": a[0]})
        self.libmeth[("Closing", "__enter__")] = lambda I, v, a, k, n: v.attrs["thing"]
        self.libmeth[("Closing", "__exit__")] = lambda I, v, a, k, n: I.call_value(I.getattr_(v.attrs["thing"], "close", n), [], {}, n)
        self.libmeth[("NullContext", "__enter__")] = lambda I, v, a, k, n: None
        self.libmeth[("NullContext", "__exit__")] = lambda I, v, a, k, n: None

        def b_len(I, a, k, n):
            v = a[0]
            if isinstance(v, (list, tuple, dict, str)):
                return Num.const(len(v))
            if isinstance(v, (Arr, Frame)):
                return Num.atom(f"len({I.describe(v)})")
            if type(v).__name__ == "Vec":
                return Num.const(len(v.items))
            if isinstance(v, Term):
                return Term("len", [v])
            raise I.fault("TypeError", n, "object has no len()")

        def b_isinstance(I, a, k, n):
            v, t = a
            ts = t if isinstance(t, tuple) else (t,)
            for x in ts:
                if isinstance(x, ClassRef):
                    if isinstance(v, Obj) and v.cls is not None and v.cls.is_subclass_of(x.ci.qualname):
                        return True
                    if isinstance(v, ExcVal) and v.is_a(x.ci.name):
                        return True
                elif isinstance(x, ExtRef):
                    nm = x.dotted.split(".")[-1]
                    if nm in ("set", "frozenset"):
                        if isinstance(v, PySet):
                            return True
                        continue
                    pyt = {"dict": dict, "str": str, "list": list, "tuple": tuple, "bool": bool}.get(nm)
                    if pyt is not None and isinstance(v, pyt) and not (nm == "list" and isinstance(v, PySet)):
                        return True
                    if nm in ("float", "int") and isinstance(v, Num):
                        return True
                    if nm == "str" and type(v).__name__ in ("SStr", "Tok"):
                        return True
                    if nm == "DataFrame" and type(v).__name__ == "MiniFrame":
                        return True
                    if nm == "int" and isinstance(v, bool):
                        return True
                    if isinstance(v, Obj) and v.kind == x.dotted:
                        return True
                    if isinstance(v, Obj) and v.kind == "PyInt" and nm in ("int", "Integral", "Real", "Number", "Rational", "Complex", "integer"):
                        return True         # token standing for a python int (checks that care about the int/float spelling)
                    if nm in ("ndarray", "Series") and isinstance(v, Arr):
                        return nm == ("Series" if v.kind == "series" else "ndarray")
                    if nm == "DataFrame" and isinstance(v, Frame):
                        return True
                else:
                    I.err(n, f"isinstance against {x!r}")
            return False

        def b_float(I, a, k, n):
            v = a[0]
            if isinstance(v, Obj) and v.kind == "PyInt":
                return Obj(kind="PyFloat", label=f"float({v.label})", attrs={"of": v.label})
            if isinstance(v, Term):
                return Term("float", [v])
            if isinstance(v, Num) or _is_sym(v):
                return v
            if isinstance(v, bool):
                return Num.const(int(v))
            if isinstance(v, str):
                try:
                    return Num.const(Fraction(v))
                except (ValueError, ZeroDivisionError):
                    raise I.fault("ValueError", n, f"could not convert string to float: {v!r}")
            if isinstance(v, Arr):
                return v.num
            if type(v).__name__ == "SStr":
                if len(v.parts) == 1 and isinstance(v.parts[0], Num):
                    return v.parts[0]
                raise I.fault("ValueError", n, f"could not convert string to float: {v!r}")
            if type(v).__name__ == "Tok":
                raise I.fault("ValueError", n, f"could not convert string to float: {v!r}")
            raise I.fault("TypeError", n, "float() argument must be a string or a real number")

        def b_str(I, a, k, n):
            v = a[0] if a else ""
            if isinstance(v, Term):
                return Term("str", [v])
            if isinstance(v, str):
                return v
            if v is None:
                return "None"
            if isinstance(v, Obj) and v.cls is not None and v.cls.find_method("__str__"):
                return I.call_func(v.cls.find_method("__str__"), [], {}, n, self_obj=v)
            if isinstance(v, Obj) and (v.kind, "__str__") in I.libmeth:
                return I.libmeth[(v.kind, "__str__")](I, v, [], {}, n)
            if getattr(I, "sym_strings", False):
                from .docsim import sstr_of
                sx = sstr_of(v)
                if sx is not None:
                    return sx
            return Opaque("str")

        def b_getattr(I, a, k, n):
            try:
                return I.getattr_(a[0], a[1], n)
            except Raised as r:
                if len(a) > 2 and r.exc.is_a("AttributeError"):
                    return a[2]
                raise

        def b_hasattr(I, a, k, n):
            try:
                I.getattr_(a[0], a[1], n)
                return True
            except Raised as r:
                if r.exc.is_a("AttributeError"):
                    return False
                raise

        def b_any(I, a, k, n):
            for x in I.iterate(a[0], n):
                if I.truth(x, n):
                    return True
            return False

        def b_all(I, a, k, n):
            for x in I.iterate(a[0], n):
                if not I.truth(x, n):
                    return False
            return True

        def b_minmax(which):
            def f(I, a, k, n):
                items = I.iterate(a[0], n) if len(a) == 1 else list(a)
                if k.get("key") is not None:
                    # min/max(items, key=f): first item whose key is extremal (Python semantics); keys must be concrete numbers
                    keys = [I.call_value(k["key"], [x], {}, n) for x in items]
                    if not items:
                        if "default" in k:
                            return k["default"]
                        raise I.fault("ValueError", n, f"{which}() arg is an empty sequence")
                    if all(isinstance(x, Num) and x.is_const() for x in keys):
                        vals = [x.value() for x in keys]
                        best = (min if which == "min" else max)(vals)
                        return items[vals.index(best)]
                    I.err(n, f"{which}(key=...) over symbolic keys")
                if isinstance(a[0], Arr) and len(a) == 1:
                    return Num.atom(f"{which}({I.describe(a[0])})")
                if all(isinstance(x, Num) and x.is_const() for x in items) and items:
                    return (min if which == "min" else max)(items, key=lambda x: x.value())
                if items and all((isinstance(x, Num) and x.is_const()) or (_is_sym(x) and x.is_number and x.is_real) for x in items):
                    # concrete numbers in mixed spelling (sympy mode)
                    return (min if which == "min" else max)(items, key=lambda x: x.value() if isinstance(x, Num) else _sp.nsimplify(x))
                return Num.atom(f"{which}({','.join(I.describe(x) for x in items)})")
            return f

        def b_next(I, a, k, n):
            if isinstance(a[0], LazyIter):
                x = a[0].pull(I, n)
                if x is not LazyIter.STOP:
                    return x
                if len(a) > 1:
                    return a[1]
                raise Raised(ExcVal(_BUILTIN_EXC["StopIteration"], node=n))
            items = a[0] if isinstance(a[0], list) else I.iterate(a[0], n)
            if items:
                return items[0]
            if len(a) > 1:
                return a[1]
            raise Raised(ExcVal(_BUILTIN_EXC["StopIteration"], node=n))

        def b_range(I, a, k, n):
            vals = [I.to_py(x, n) for x in a]
            return [Num.const(i) for i in range(*vals)]

        def b_vars(I, a, k, n):
            if isinstance(a[0], Obj):
                return a[0].attrs
            I.err(n, "vars() of non-object")

        def b_sorted(I, a, k, n):
            items = I.iterate(a[0], n)
            if items and all((isinstance(x, Num) and x.is_const()) or (_is_sym(x) and x.is_number) for x in items):
                rev = bool(k.get("reverse", False))
                return sorted(items, key=lambda x: float(x.value()) if isinstance(x, Num) else float(x), reverse=rev)
            try:
                return sorted(items)
            except TypeError:
                return sorted(items, key=I.describe)

        def b_super(I, a, k, n):
            I.err(n, "super() with arguments")

        def b_type(I, a, k, n):
            v = a[0]
            if isinstance(v, Obj) and v.cls is not None:
                return ClassRef(v.cls)
            if isinstance(v, ExcVal):
                return ExcClassRef(v.names)
            return Opaque(f"type({I.kind_of(v)})")

        E["builtins.len"] = b_len
        E["builtins.isinstance"] = b_isinstance
        E["builtins.float"] = b_float
        def b_int(I, a, k, n):
            v = a[0] if a else Num.const(0)
            if isinstance(v, Num) and v.is_const() and v.value().denominator != 1:
                return Num.const(int(v.value()))            # int() truncates toward zero
            if _is_sym(v) and getattr(v, "is_number", False) and v.is_real and not v.is_Integer and v.is_finite:
                return _sp.Integer(int(v))
            if isinstance(v, str):
                try:
                    return Num.const(int(v, *( [int(I.to_py(a[1], n))] if len(a) > 1 else [])))
                except ValueError:
                    raise I.fault("ValueError", n, f"invalid literal for int() with base 10: {v!r}")
            return b_float(I, a, k, n)
        E["builtins.int"] = b_int
        E["builtins.str"] = b_str
        E["builtins.repr"] = lambda I, a, k, n: Opaque("str")
        E["builtins.format"] = lambda I, a, k, n: b_str(I, a[:1], {}, n) if (len(a) == 1 or a[1] == "") else Opaque("str")
        E["builtins.bool"] = lambda I, a, k, n: I.truth(a[0], n) if a else False
        E["builtins.getattr"] = b_getattr
        E["builtins.setattr"] = lambda I, a, k, n: I.setattr_(a[0], a[1], a[2], n)
        # object.__setattr__(obj, name, value) / super().__setattr__(name, value): the plain attribute store, bypassing a class's own __setattr__
        E["builtins.object.__setattr__"] = lambda I, a, k, n: (a[0].attrs.__setitem__(a[1], a[2]) if isinstance(a[0], Obj) and isinstance(a[1], str)
                                                               else I.err(n, "object.__setattr__ on a non-object"))

        def b_iter(I, a, k, n):
            if len(a) == 1:
                return a[0] if isinstance(a[0], LazyIter) else list(I.iterate(a[0], n))
            fn, sentinel = a[0], a[1]
            done = [False]

            def pull(I, node):       # iter(callable, sentinel): lazy - each item is produced when asked for
                if done[0]:
                    return LazyIter.STOP
                v = I.call_value(fn, [], {}, node)
                e = I.py_eq(v, sentinel)
                if e is None:
                    I.err(node, "iter(callable, sentinel): cannot decide whether the sentinel was reached")
                if e is True:
                    done[0] = True
                    return LazyIter.STOP
                return v
            return LazyIter(pull, "iter(callable, sentinel)")

        def b_takewhile(I, a, k, n):
            pred, src = a
            if not isinstance(src, LazyIter):
                out = []
                for x in I.iterate(src, n):
                    if not I.truth(I.call_value(pred, [x], {}, n), n):
                        break
                    out.append(x)
                return out
            done = [False]

            def pull(I, node):
                if done[0]:
                    return LazyIter.STOP
                x = src.pull(I, node)
                if x is LazyIter.STOP or not I.truth(I.call_value(pred, [x], {}, node), node):
                    done[0] = True
                    return LazyIter.STOP
                return x
            return LazyIter(pull, "takewhile")
        def b_accumulate(I, a, k, n):
            fn = a[1] if len(a) > 1 else k.get("func")
            items = list(I.iterate(a[0], n))
            out = []
            if "initial" in k and k["initial"] is not None:
                acc = k["initial"]
                out.append(acc)
            elif items:
                acc = items.pop(0)
                out.append(acc)
            else:
                return []
            for x in items:
                acc = I.call_value(fn, [acc, x], {}, n) if fn is not None else I.binop(ast.Add(), acc, x, n)
                out.append(acc)
            return out
        E["itertools.accumulate"] = b_accumulate
        E["itertools.takewhile"] = b_takewhile
        E["itertools.chain"] = lambda I, a, k, n: [x for part in a for x in I.iterate(part, n)]
        E["itertools.islice"] = lambda I, a, k, n: list(I.iterate(a[0], n))[slice(*[None if x is None else int(I.to_py(x, n)) for x in a[1:]])]
        E["builtins.iter"] = b_iter
        E["builtins.hasattr"] = b_hasattr
        E["builtins.any"] = b_any
        E["builtins.all"] = b_all
        E["builtins.min"] = b_minmax("min")
        E["builtins.max"] = b_minmax("max")
        E["builtins.next"] = b_next
        E["builtins.range"] = b_range
        E["builtins.vars"] = b_vars
        E["builtins.sorted"] = b_sorted
        E["builtins.list"] = lambda I, a, k, n: list(I.iterate(a[0], n)) if a else []
        E["builtins.tuple"] = lambda I, a, k, n: tuple(I.iterate(a[0], n)) if a else ()
        E["builtins.set"] = lambda I, a, k, n: I.mkset(I.iterate(a[0], n)) if a else PySet()
        E["builtins.frozenset"] = E["builtins.set"]
        E["builtins.dict"] = lambda I, a, k, n: {**(dict(a[0]) if a and isinstance(a[0], dict) else
                                                     dict(I.iterate(a[0], n)) if a else {}), **k}
        E["builtins.print"] = lambda I, a, k, n: None
        E["builtins.type"] = b_type
        E["builtins.enumerate"] = lambda I, a, k, n: [(Num.const(i), x) for i, x in enumerate(I.iterate(a[0], n))]
        def b_zip(I, a, k, n):
            finite = [I.iterate(x, n) for x in a if not (isinstance(x, Obj) and x.kind == "Repeat")]
            m = min((len(x) for x in finite), default=0)
            if not finite and a:
                I.err(n, "zip() of infinite iterators only")
            cols = [[x.attrs["value"]] * m if (isinstance(x, Obj) and x.kind == "Repeat") else I.iterate(x, n) for x in a]
            return list(zip(*cols))
        E["builtins.zip"] = b_zip
        # itertools.repeat(x[, n]) / functools.partial(f, *args, **kw)
        E["itertools.repeat"] = lambda I, a, k, n: ([a[0]] * int(I.to_py(a[1], n)) if len(a) > 1 else Obj(kind="Repeat", label="repeat", attrs={"value": a[0]}))
        E["functools.partial"] = lambda I, a, k, n: Obj(kind="Partial", label="partial", attrs={"func": a[0], "args": list(a[1:]), "kw": dict(k)})
        self.libmeth[("Partial", "__call__")] = lambda I, v, a, k, n: I.call_value(v.attrs["func"], v.attrs["args"] + list(a), {**v.attrs["kw"], **k}, n)
        self.libattr[("Partial", "func")] = lambda I, v, n: v.attrs["func"]
        self.libattr[("Partial", "args")] = lambda I, v, n: tuple(v.attrs["args"])
        self.libattr[("Partial", "keywords")] = lambda I, v, n: dict(v.attrs["kw"])
        E["builtins.abs"] = lambda I, a, k, n: (Num.const(abs(a[0].value())) if isinstance(a[0], Num) and a[0].is_const()
                                                else Num.atom(f"abs({I.describe(a[0])})"))
        def b_round(I, a, k, n):
            v = a[0]
            nd = a[1] if len(a) > 1 else k.get("ndigits")
            if isinstance(v, Num) and v.is_const() and (nd is None or (isinstance(nd, Num) and nd.is_const())):
                return I.from_py(round(float(v.value()), None if nd is None else int(nd.value())))
            if isinstance(v, Num):
                return Num.atom(f"round({v.canon()},{I.describe(nd)})")
            if _is_sym(v):
                return _sp.Function("round")(v, num_to_sym(nd) if nd is not None else _sp.Integer(0))
            return Opaque(f"round({I.describe(v)},{I.describe(nd)})")
        E["builtins.round"] = b_round
        E["builtins.object.__init__"] = lambda I, a, k, n: None
        E["builtins.id"] = lambda I, a, k, n: Opaque("id")
        E["builtins.map"] = lambda I, a, k, n: [I.call_value(a[0], [x], {}, n) for x in I.iterate(a[1], n)]
        for _m in ("lower", "upper", "strip"):
            E[f"builtins.str.{_m}"] = (lambda _m: lambda I, a, k, n: I.call_libmethod(a[0], _m, list(a[1:]), {}, n))(_m)
        def b_slice(I, a, k, n):
            # same value as the subscript spelling x[lo:hi:st] (eval_index): a python slice when the bounds are concrete integers, the
            # symbolic ("slice", lo, hi, st) form otherwise
            def cv(v):
                if v is None:
                    return None
                if isinstance(v, Num) and v.is_const() and v.value().denominator == 1:
                    return int(v.value())
                if _is_sym(v) and v.is_Integer:
                    return int(v)
                return v
            parts = [cv(x) for x in a]
            lo, hi, st = (None, parts[0], None) if len(parts) == 1 else (parts + [None])[:3]
            if all(isinstance(x, (int, type(None))) for x in (lo, hi, st)):
                return slice(lo, hi, st)
            return ("slice", lo, hi, st)
        E["builtins.slice"] = b_slice
