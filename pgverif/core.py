"""Run context, findings, evidence and exit protocol shared by all property checks.

Exit protocol (DESIGN.md section 2, "Run interface"):
  0  every decided clause holds (KNOWN-FINDING lines may have been printed)
  1  VIOLATION property=<id> replay=<path>   (a violation not listed as known)
  2  ANALYSIS-ERROR property=<id> ...        (anchor vanished / construct outside the fragment)
"""
from __future__ import annotations

import fnmatch
import hashlib
import json
import os
import sys
import time
import traceback
from pathlib import Path

VERIF = Path(__file__).resolve().parent.parent
EVIDENCE_DIR = Path(os.environ["PGVERIF_EVIDENCE_DIR"]) if os.environ.get("PGVERIF_EVIDENCE_DIR") else VERIF / "evidence"   # scratch runs (seeded variants, self-test) write elsewhere
REPLAY_DIR = EVIDENCE_DIR / "replay"
KNOWN_FILE = VERIF / "known_findings.json"


class AnalysisError(Exception):
    """The checker cannot decide: an anchor vanished or a construct is outside the fragment."""


class Finding:
    __slots__ = ("rule", "where", "key", "message", "detail")

    def __init__(self, rule, where, key, message, detail=None):
        self.rule = rule          # e.g. "C02.R-label"
        self.where = where        # "src/pygaps/core/pointisotherm.py:370 PointIsotherm.convert_pressure"
        self.key = key            # semantic key, never a line number
        self.message = message
        self.detail = detail or {}

    @property
    def fullkey(self):
        return f"{self.rule}|{self.key}"

    def to_json(self):
        return {"rule": self.rule, "where": self.where, "key": self.fullkey,
                "message": self.message, "detail": self.detail}


def _jsonable(x):
    try:
        json.dumps(x)
        return x
    except TypeError:
        if isinstance(x, dict):
            return {str(k): _jsonable(v) for k, v in x.items()}
        if isinstance(x, (list, tuple, set, frozenset)):
            return [_jsonable(v) for v in x]
        return str(x)


class Ctx:
    def __init__(self, prop_id, tier="quick", root="/repo", seed=0, jobs=None):
        self.prop_id = prop_id
        self.tier = tier
        self.root = Path(root)
        self.seed = seed
        self.jobs = jobs or min(16, os.cpu_count() or 1)
        self.t0 = time.time()
        self.findings: list[Finding] = []
        self.obligations = 0
        self.discharged = 0
        self.evaluations = 0
        self._nontrivial = set()
        self.samples = []
        self.analysed = {}          # free-form: functions, call sites, rule instance counts
        self.rules = []             # rule texts applied
        self.assumptions = []
        self.notes = []
        self.extra = {}             # extra coverage keys (states, transitions, exhaustive, ...)
        self._sample_cap = 12
        self.selftest = None

    # -- bookkeeping ---------------------------------------------------
    def rule(self, text):
        if text not in self.rules:
            self.rules.append(text)

    def assume(self, text):
        if text not in self.assumptions:
            self.assumptions.append(text)

    def ob(self, ok, finding=None, nontrivial_key=None, sample=None):
        """Record one obligation (rule instance)."""
        self.obligations += 1
        self.evaluations += 1
        if nontrivial_key is not None:
            self._nontrivial.add(nontrivial_key)
        if sample is not None and len(self.samples) < self._sample_cap:
            self.samples.append(_jsonable(sample))
        if ok:
            self.discharged += 1
        else:
            assert finding is not None
            self.add(finding)
        return ok

    def add(self, finding: Finding):
        for f in self.findings:
            if f.fullkey == finding.fullkey:
                f.detail.setdefault("more_instances", 0)
                f.detail["more_instances"] += 1
                return
        self.findings.append(finding)

    def floor(self, what, count, minimum):
        """Instance floor: a rule that matches fewer sites than were confirmed by hand is broken."""
        self.analysed[what] = count
        if count < minimum:
            raise AnalysisError(
                f"instance floor: {what}: found {count}, expected at least {minimum} "
                "(anchor moved or rule no longer matches the code)")

    # -- finishing -----------------------------------------------------
    def has_new_findings(self):
        pats = [e["key"] for e in self.load_known() if e.get("status") == "known"]
        return any(not any(fnmatch.fnmatchcase(f.fullkey, p) for p in pats) for f in self.findings)

    def load_known(self):
        if not KNOWN_FILE.exists():
            return []
        data = json.loads(KNOWN_FILE.read_text())
        return [e for e in data.get("findings", []) if e.get("property") == self.prop_id]

    def finish(self, error: str | None = None):
        wall = time.time() - self.t0
        known = self.load_known()
        known_pat = [e for e in known if e.get("status") == "known"]
        new, old = [], []
        for f in self.findings:
            hit = None
            for e in known_pat:
                if fnmatch.fnmatchcase(f.fullkey, e["key"]):
                    hit = e
                    break
            (old if hit else new).append((f, hit))
        coverage = {
            "explanation": (
                "static analysis of the working tree under %s: %s" % (self.root, "; ".join(self.rules))
            ) or "static analysis",
            "obligations": self.obligations,
            "discharged": self.discharged,
            "evaluations": max(self.evaluations, 0),
            "distinct_nontrivial": len(self._nontrivial),
            "rule": "each obligation is one rule instance on a construct of the analysed source; "
                    "non-trivial = distinct semantic key whose derivation involved a repo construct "
                    "(not an early return / vacuous instance)",
            "samples": self.samples or [{"note": "no sample recorded"}],
            "analysed": _jsonable(self.analysed),
            "checker_cmd": "./check %s --tier %s" % (self.prop_id, self.tier),
            "trusted_base": self.assumptions,
            "known_findings_present": [f.fullkey for f, _ in old],
            "new_violations": [f.to_json() for f, _ in new],
        }
        coverage.update(_jsonable(self.extra))
        if self.selftest is not None:
            coverage["selftest"] = _jsonable(self.selftest)
        if self.notes:
            coverage["notes"] = self.notes
        if error:
            coverage["analysis_error"] = error
        ev = {
            "property_id": self.prop_id,
            "tier": self.tier,
            "seed": int(self.seed),
            "level": "other",
            "coverage": coverage,
            "assumptions": self.assumptions,
            "wall_s": round(wall, 3),
            "violations": len(new),
        }
        EVIDENCE_DIR.mkdir(parents=True, exist_ok=True)
        (EVIDENCE_DIR / f"{self.prop_id}.json").write_text(json.dumps(ev, indent=1, sort_keys=False))
        for f, e in old:
            print(f"KNOWN-FINDING: property={self.prop_id} {f.fullkey} :: {e.get('what', f.message)}")
        if error and not new:
            print(f"ANALYSIS-ERROR property={self.prop_id} {error}")
            return 2
        if error:
            # violations established before the analysis stopped are definite; the rest of the analysis is incomplete
            print(f"ANALYSIS-ERROR property={self.prop_id} (after {len(new)} violation(s) were established) {error}")
        if new:
            REPLAY_DIR.mkdir(parents=True, exist_ok=True)
            for f, _ in new:
                h = hashlib.sha1(f.fullkey.encode()).hexdigest()[:10]
                path = REPLAY_DIR / f"{self.prop_id}-{h}.json"
                path.write_text(json.dumps({"property": self.prop_id, "root": str(self.root),
                                            "tier": self.tier, **f.to_json()}, indent=1))
                print(f"  {f.where} -- {f.rule} -- {f.key}\n      {f.message}")
                print(f"VIOLATION property={self.prop_id} replay={path}")
            return 1
        print(f"OK property={self.prop_id} tier={self.tier} obligations={self.obligations} "
              f"discharged={self.discharged} known={len(old)} wall={wall:.2f}s")
        return 0


def _anchored_definedness(ctx):
    """every property: in the python files it is anchored in, no function reads a local variable at a point no earlier statement can have
    bound (the call would raise UnboundLocalError for every input reaching it - a necessary condition for any behavioural clause)"""
    props = {}
    for line in (VERIF / "properties.jsonl").read_text().splitlines():
        if line.strip():
            d = json.loads(line)
            props[d["id"]] = d
    files = [f for f in props.get(ctx.prop_id, {}).get("anchors", {}).get("files", []) if f.endswith(".py") and f.startswith("src/")]
    mods = tuple(sorted({f[4:-3].replace("/", ".").removesuffix(".__init__") + "." for f in files} |
                        {f[4:-3].replace("/", ".").removesuffix(".__init__") for f in files}))
    if not mods:
        return
    from .sites import no_use_before_assignment
    from .srcmodel import load
    ctx.rule("DEF: no function of the anchored files reads a local before any statement that can have assigned it (UnboundLocalError)")
    model = load(ctx.root)
    exact = {m for m in mods if not m.endswith(".")}
    no_use_before_assignment(ctx, model, ctx.prop_id, "DEF", tuple(exact), exact_modules=True)


def run_property(prop_id, fn, tier, root, seed=0):
    ctx = Ctx(prop_id, tier=tier, root=root, seed=seed)
    try:
        _anchored_definedness(ctx)
        fn(ctx)
        if tier == "thorough" and not os.environ.get("PGVERIF_NO_SELFTEST") and not ctx.has_new_findings():
            from . import selftest
            ctx.selftest = selftest.run_selftest(prop_id, root, jobs=min(12, ctx.jobs))
            bad = ctx.selftest.get("failed") or []
            if bad:
                return ctx.finish(error="self-test: " + "; ".join(
                    f"{b['name']} ({'not reported' if b.get('expect') == 'fire' else 'reported: ' + str(b.get('reported'))}"
                    f"{' ' + b.get('detail', '') if b.get('detail') else ''})" for b in bad[:6]))
        return ctx.finish()
    except AnalysisError as e:
        return ctx.finish(error=str(e))
    except Exception as e:  # a checker crash is an analysis error, never a violation
        tb = traceback.format_exc()
        sys.stderr.write(tb)
        return ctx.finish(error=f"checker crashed: {type(e).__name__}: {e}")
