"""E7 - call-site protocol rules (optimiser-call protocol, keyword pinning, parameter threading)."""
from __future__ import annotations

import ast

from .srcmodel import FuncInfo


def parents_of(node):
    p = {}
    for n in ast.walk(node):
        for ch in ast.iter_child_nodes(n):
            p[ch] = n
    return p


def find_calls(node, pred):
    return [n for n in ast.walk(node) if isinstance(n, ast.Call) and pred(n)]


def callee_text(call):
    return ast.unparse(call.func)


class OptProtocol:
    """facts about `res = optimize.<solver>(fun, x0, ...)` inside one function"""

    def __init__(self, fi: FuncInfo, solver_prefix=("optimize.", "scipy.optimize.")):
        self.fi = fi
        self.problems = []
        self.call = None
        self.resvar = None
        calls = []
        for st in ast.walk(fi.node):
            if isinstance(st, ast.Assign) and isinstance(st.value, ast.Call) and \
                    any(callee_text(st.value).startswith(p) for p in solver_prefix) and len(st.targets) == 1 and \
                    isinstance(st.targets[0], ast.Name):
                calls.append(st)
        if len(calls) != 1:
            self.problems.append(("solver-call", f"expected exactly one `res = optimize.<solver>(...)`, found {len(calls)}"))
            return
        self.assign = calls[0]
        self.call = calls[0].value
        self.resvar = calls[0].targets[0].id
        self.solver = callee_text(self.call).split(".")[-1]

    def kw(self, name, pos=None):
        for k in self.call.keywords:
            if k.arg == name:
                return k.value
        if pos is not None and len(self.call.args) > pos:
            return self.call.args[pos]
        return None

    def check_success_raises(self, exc="CalculationError"):
        """`if not res.success: raise <exc>` (or `if res.success is False` ...) directly after the call, before any return"""
        body = self._enclosing_body()
        if body is None:
            return
        idx = body.index(self.assign)
        ok = False
        for st in body[idx + 1:]:
            if isinstance(st, ast.Return):
                break
            if isinstance(st, ast.If):
                t = ast.unparse(st.test).replace(" ", "")
                if t in (f"not{self.resvar}.success", f"{self.resvar}.successisFalse", f"{self.resvar}.success==False") and \
                        st.body and isinstance(st.body[-1], ast.Raise) and exc in ast.unparse(st.body[-1]):
                    ok = True
                    break
        if not ok:
            self.problems.append(("success-not-checked", f"the solver result `{self.resvar}` is used without `if not {self.resvar}.success: raise {exc}`"))

    def _enclosing_body(self):
        for n in ast.walk(self.fi.node):
            for field in ("body", "orelse", "finalbody"):
                b = getattr(n, field, None)
                if isinstance(b, list) and self.assign in b:
                    return b
        self.problems.append(("structure", "cannot locate the solver call in a statement list"))
        return None

    def check_returns_x(self):
        rets = [n for n in ast.walk(self.fi.node) if isinstance(n, ast.Return) and n.value is not None
                and self._in_outer(n)]
        if not rets or any(ast.unparse(r.value) != f"{self.resvar}.x" for r in rets):
            self.problems.append(("returns", f"must return `{self.resvar}.x` of the checked result; returns {[ast.unparse(r.value) for r in rets]}"))

    def _in_outer(self, node):
        # not inside a nested def
        for n in ast.walk(self.fi.node):
            if isinstance(n, (ast.FunctionDef, ast.Lambda)) and n is not self.fi.node:
                if any(x is node for x in ast.walk(n)):
                    return False
        return True

    def residual(self):
        """the closure passed as objective: (FunctionDef|Lambda node, return expression)"""
        f = self.kw("fun", 0)
        if isinstance(f, ast.Lambda):
            return f, f.body
        if isinstance(f, ast.Name):
            for n in ast.walk(self.fi.node):
                if isinstance(n, ast.FunctionDef) and n.name == f.id and n is not self.fi.node:
                    rets = [r for r in ast.walk(n) if isinstance(r, ast.Return)]
                    if len(rets) == 1:
                        return n, rets[0].value
        self.problems.append(("residual", "objective is not a local closure with a single return"))
        return None, None

    def check_x0_stateless(self):
        x0 = self.kw("x0", 1)
        if x0 is None:
            self.problems.append(("x0", "no starting point argument"))
            return
        # def-use closure of the names feeding x0 inside this function
        exprs, seen = [x0], set()
        while exprs:
            ex = exprs.pop()
            for n in ast.walk(ex):
                if isinstance(n, ast.Attribute) and isinstance(n.value, ast.Name) and n.value.id == "self" and \
                        n.attr not in ("params", "param_names", "param_bounds", "param_default_bounds"):
                    self.problems.append(("x0-history", f"the starting point `{ast.unparse(x0)}` depends on object state "
                                          f"(self.{n.attr}): the result depends on earlier calls"))
                    return
                if isinstance(n, ast.Name) and n.id not in seen:
                    seen.add(n.id)
                    for st in ast.walk(self.fi.node):
                        if isinstance(st, ast.Assign) and any(isinstance(t, ast.Name) and t.id == n.id for t in st.targets):
                            exprs.append(st.value)


# ---- shared structural rules used by several property checks ---------------------------------------------------------------
import ast as _ast
import re as _re

MEMO_DECORATORS = _re.compile(r"(lru_cache|functools\.cache|\bcache\b|cached_property|memoi[sz]e)")


def no_memoisation(ctx, model, prop, rule, prefixes, why):
    """no function of the given modules is wrapped in a caching decorator: such a cache is keyed by argument hash / identity
    (adsorbates and materials hash by name, model objects are mutable), so a later call can return the answer computed for
    other parameters - `why` says what that breaks for the property at hand"""
    from .core import Finding
    n = 0
    for fi in model.all_functions():
        if not any(fi.qualname.startswith(p) for p in prefixes):
            continue
        n += 1
        for d in fi.decorators:
            if MEMO_DECORATORS.search(d):
                ctx.ob(False, Finding(f"{prop}.{rule}", fi.where, f"{fi.short}|memoised:{d}",
                                      f"{fi.short} is memoised with @{d}: {why}"))
    ctx.ob(True, nontrivial_key=("memo-scan", tuple(prefixes)))
    ctx.analysed[f"functions scanned for caching decorators ({', '.join(prefixes)})"] = n
    if n == 0:
        from .core import AnalysisError
        raise AnalysisError(f"no functions found under {prefixes}")


_VIEW_FUNCS = {"asarray", "asanyarray", "atleast_1d", "ravel", "squeeze", "reshape", "transpose"}
_VIEW_METHS = {"ravel", "reshape", "view", "squeeze", "transpose"}
_INPLACE_METHS = {"sort", "fill", "put", "resize", "itemset", "partition"}
_INPLACE_FUNCS = {"put", "copyto", "place", "putmask", "fill_diagonal"}


def _inplace_on_parameters(fn):
    """(line, construct) for every in-place write, inside the function definition `fn`, to a value that may be one of the function's own
    arguments: may-alias closure over plain assignment, conditional expressions, slices / .T and the numpy calls that return their
    argument or a view of it (numpy.asarray does not copy an array); writes = out=<alias>, <alias>[..] = / op=, <alias> op= (in place
    for arrays), the in-place ndarray methods and numpy.put / copyto / place / putmask"""
    import ast

    def may(e, al):
        if isinstance(e, ast.Name):
            return e.id in al
        if isinstance(e, ast.IfExp):
            return may(e.body, al) or may(e.orelse, al)
        if isinstance(e, ast.BoolOp):
            return any(may(v, al) for v in e.values)
        if isinstance(e, ast.Subscript):
            return isinstance(e.slice, ast.Slice) and may(e.value, al)
        if isinstance(e, ast.Attribute) and e.attr == "T":
            return may(e.value, al)
        if isinstance(e, ast.Call):
            f = e.func
            if isinstance(f, ast.Attribute) and f.attr in _VIEW_FUNCS and isinstance(f.value, ast.Name) and f.value.id in ("numpy", "np") and e.args:
                return may(e.args[0], al)
            if isinstance(f, ast.Attribute) and f.attr in _VIEW_METHS:
                return may(f.value, al)
        return False

    def root(e):
        while isinstance(e, ast.Subscript) or (isinstance(e, ast.Attribute) and e.attr in ("T", "flat")):
            e = e.value
        return e

    al = {a.arg for a in fn.args.args + fn.args.kwonlyargs + fn.args.posonlyargs} - {"self", "cls"}
    changed = True
    while changed:
        changed = False
        for st in ast.walk(fn):
            if isinstance(st, ast.Assign) and may(st.value, al):
                for t in st.targets:
                    if isinstance(t, ast.Name) and t.id not in al:
                        al.add(t.id)
                        changed = True
    hits = []
    for st in ast.walk(fn):
        if isinstance(st, ast.Call):
            for k in st.keywords:
                if k.arg == "out" and may(k.value, al):
                    hits.append((st.lineno, f"out={ast.unparse(k.value)}"))
            f = st.func
            if isinstance(f, ast.Attribute) and f.attr in _INPLACE_METHS and may(f.value, al):
                hits.append((st.lineno, f"{ast.unparse(f)}()"))
            if isinstance(f, ast.Attribute) and f.attr in _INPLACE_FUNCS and isinstance(f.value, ast.Name) and f.value.id in ("numpy", "np") \
                    and st.args and may(st.args[0], al):
                hits.append((st.lineno, f"{ast.unparse(f)}({ast.unparse(st.args[0])}, ...)"))
        elif isinstance(st, ast.AugAssign):
            r = root(st.target)
            if isinstance(r, ast.Name) and r.id in al:
                hits.append((st.lineno, f"{ast.unparse(st.target)} {type(st.op).__name__}="))
        elif isinstance(st, ast.Assign):
            for t in st.targets:
                if isinstance(t, ast.Subscript):
                    r = root(t)
                    if isinstance(r, ast.Name) and r.id in al:
                        hits.append((st.lineno, f"{ast.unparse(t)} ="))
    return sorted(set(hits))


def no_inplace_on_arguments(ctx, model, prop, rule, prefixes, why):
    """no function of the given modules writes in place to a value that may be one of its own arguments: the numerical entry points
    take arrays (and pass them through numpy.asarray, which returns the caller's array itself), so such a write changes the caller's
    data - the request of the same call when a default aliases it, or the input of the next call"""
    import ast
    from .core import Finding, AnalysisError
    # the rule expects zero matches: a tiny positive example must match on every run
    probe = ast.parse("def f(x, y=None):\n    x = numpy.asarray(x)\n    if y is None:\n        y = x\n    numpy.clip(y, 0, 1, out=y)\n"
                      "    z = x[1:]\n    z[0] = 1\n    w = x * 2\n    w[0] = 1\n    w += 1\n").body[0]
    if [c for _, c in _inplace_on_parameters(probe)] != ["out=y", "z[0] ="]:
        raise AnalysisError(f"in-place-on-arguments self-check failed: {_inplace_on_parameters(probe)}")
    n = 0
    for fi in model.all_functions():
        if not any(fi.qualname.startswith(p) for p in prefixes):
            continue
        n += 1
        for line, what in _inplace_on_parameters(fi.node):
            ctx.ob(False, Finding(f"{prop}.{rule}", fi.where, f"{fi.short}|writes-argument|{what}",
                                  f"{fi.short} (line {line}) writes in place to a value that may be the caller's own argument ({what}): {why}"))
    ctx.ob(True, nontrivial_key=("inplace-scan", tuple(prefixes)))
    ctx.analysed[f"functions scanned for in-place writes to their arguments ({', '.join(prefixes)})"] = n
    if n == 0:
        raise AnalysisError(f"no functions found under {prefixes}")


def conversions_drop_caches(ctx, model, prop, rule):
    """every PointIsotherm.convert_* method that stores converted data resets both interpolator caches unconditionally afterwards"""
    from .core import Finding, AnalysisError
    ci = model.cls("pygaps.core.pointisotherm.PointIsotherm")
    n = 0
    for name in ("convert_pressure", "convert_loading", "convert_material"):
        fi = ci.methods.get(name)
        if fi is None:
            raise AnalysisError(f"anchor missing: PointIsotherm.{name}")
        body = fi.node.body
        last_store = None
        for i, st in enumerate(body):
            for x in _ast.walk(st):
                if isinstance(x, _ast.Assign) and any(isinstance(t, _ast.Subscript) and _ast.unparse(t.value) == "self.data_raw" for t in x.targets):
                    last_store = i
        if last_store is None:
            raise AnalysisError(f"{name}: no store into self.data_raw found")
        n += 1
        def resets_in(stmts, f, depth=0):
            for st in stmts:
                if isinstance(st, _ast.Assign) and any(_ast.unparse(t) == f"self.{f}" for t in st.targets) \
                        and isinstance(st.value, _ast.Constant) and st.value.value is None:
                    return True
                # idiom: an unconditional call of a helper method whose top-level body resets the field
                if depth == 0 and isinstance(st, _ast.Expr) and isinstance(st.value, _ast.Call) and isinstance(st.value.func, _ast.Attribute) \
                        and _ast.unparse(st.value.func.value) == "self":
                    helper = ci.find_method(st.value.func.attr)
                    if helper is not None and resets_in(helper.node.body, f, 1):
                        return True
            return False
        resets = {f: resets_in(body[last_store + 1:], f) for f in ("l_interpolator", "p_interpolator")}
        ctx.ob(all(resets.values()), Finding(
            f"{prop}.{rule}", fi.where, f"{name}|cache-reset-conditional:{[f for f, ok in resets.items() if not ok]}",
            f"{name} stores converted data but does not unconditionally reset {[f for f, ok in resets.items() if not ok]} afterwards: "
            "after a conversion that changes only the unit (same basis/mode) loading_at / pressure_at keep interpolating the old numbers "
            "under the new labels"), nontrivial_key=("reset", name))
    return n


def model_methods_stateless(ctx, model, prop, rule, methods=("loading", "pressure", "spreading_pressure")):
    """the equation methods of every isotherm model (and the helper methods of the class they call) do not store anything on
    the model object: a value remembered between calls (last pressure, last integral, a copy of the parameters) makes the
    answer depend on earlier calls and goes stale when the parameters are edited in place or refitted"""
    from .core import Finding
    n = 0
    found = []
    for ci in model.all_classes() if hasattr(model, "all_classes") else []:
        pass
    classes = [c for m in model.modules.values() if m.name.startswith("pygaps.modelling.") for c in m.classes.values()]
    for ci in classes:
        todo = [ci.methods[m] for m in methods if m in ci.methods]
        seen = set()
        while todo:
            fi = todo.pop()
            if fi.qualname in seen:
                continue
            seen.add(fi.qualname)
            n += 1
            for x in _ast.walk(fi.node):
                tg = []
                if isinstance(x, _ast.Assign):
                    tg = x.targets
                elif isinstance(x, (_ast.AugAssign, _ast.AnnAssign)):
                    tg = [x.target]
                for t in tg:
                    base = t
                    while isinstance(base, _ast.Subscript):
                        base = base.value
                    if isinstance(base, _ast.Attribute) and _ast.unparse(base).startswith("self."):
                        found.append((fi, x.lineno, _ast.unparse(t)))
                if isinstance(x, _ast.Call) and isinstance(x.func, _ast.Attribute) and _ast.unparse(x.func.value) == "self":
                    h = ci.find_method(x.func.attr)
                    if h is not None and h.name not in ("fit", "fit_leastsq", "initial_guess", "__init__", "__init_parameters__"):
                        todo.append(h)
    for fi, line, tgt in found:
        ctx.ob(False, Finding(f"{prop}.{rule}", fi.where, f"{fi.short}|stores:{tgt}",
                              f"line {line}: {fi.short} stores `{tgt}` on the model while evaluating the model equation: later results depend on "
                              "earlier calls and go stale when parameters change in place (refit, `model.params[k] = v`)"))
    ctx.ob(True, nontrivial_key=("stateless-scan", n))
    ctx.analysed["model equation methods scanned for state writes"] = n


def no_absolute_tolerance(ctx, model, prop, rule, prefixes, what):
    """no comparison with an absolute tolerance (numpy.isclose / allclose default atol=1e-8, math.isclose(abs_tol=...)) on
    unit-bearing isotherm data: the decision changes when the same quantity is expressed in a smaller unit or is simply small"""
    from .core import Finding
    n = 0
    for fi in model.all_functions():
        if not any(fi.qualname.startswith(p) for p in prefixes):
            continue
        n += 1
        for c in _ast.walk(fi.node):
            if isinstance(c, _ast.Call) and _ast.unparse(c.func).split(".")[-1] in ("isclose", "allclose", "assert_allclose", "assert_almost_equal"):
                fn = _ast.unparse(c.func)
                if fn.split(".")[-1] in ("assert_allclose", "assert_almost_equal") and "guess" in _ast.unparse(c):
                    continue        # sanity assertion on a user supplied fraction vector (sum == 1), dimensionless
                kws = {k.arg: k.value for k in c.keywords}
                atol0 = "atol" in kws and isinstance(kws["atol"], _ast.Constant) and kws["atol"].value == 0
                abs0 = fn.startswith("math.") and ("abs_tol" not in kws)
                # a comparison against a literal of ordinary magnitude (e.g. "fractions sum to 1") has a known scale:
                # the default absolute tolerance is then negligible next to the relative one
                known_scale = any(isinstance(a_, _ast.Constant) and isinstance(a_.value, (int, float)) and abs(a_.value) >= 1e-3 for a_ in c.args[:2])
                ctx.ob(atol0 or abs0 or known_scale, Finding(f"{prop}.{rule}", fi.where, f"{fi.short}|absolute-tolerance:{_ast.unparse(c)[:50]}",
                                              f"line {c.lineno}: `{_ast.unparse(c)[:100]}` compares {what} with an absolute tolerance "
                                              "(numpy default atol=1e-8): values of that size or below (small pressures, small units) are "
                                              "treated as equal / as zero"))
    ctx.ob(True, nontrivial_key=("abs-tol-scan", tuple(prefixes)))
    ctx.analysed[f"functions scanned for absolute tolerances ({', '.join(prefixes)})"] = n


def methods_store_nothing(ctx, model, prop, rule, qualnames, why):
    """the named read-only methods contain no store to an attribute of self (directly in their body)"""
    from .core import Finding, AnalysisError
    for q in qualnames:
        cq, _, mname = q.rpartition(".")
        ci = model.cls(cq)
        fi = ci.methods.get(mname)
        if fi is None:
            raise AnalysisError(f"anchor missing: {q}")
        bad = []
        for x in _ast.walk(fi.node):
            tg = x.targets if isinstance(x, _ast.Assign) else [x.target] if isinstance(x, (_ast.AugAssign, _ast.AnnAssign)) else []
            for t in tg:
                base = t
                while isinstance(base, _ast.Subscript):
                    base = base.value
                if isinstance(base, _ast.Attribute) and _ast.unparse(base).startswith("self."):
                    bad.append((x.lineno, _ast.unparse(t)))
        ctx.ob(not bad, Finding(f"{prop}.{rule}", fi.where, f"{fi.short}|stores:{sorted({b[1] for b in bad})}",
                                f"{fi.short} stores {sorted({b[1] for b in bad})} on the isotherm (lines {sorted({b[0] for b in bad})}): {why}"),
               nontrivial_key=("store-nothing", q))


_LIKE = ("zeros_like", "empty_like", "ones_like", "full_like")
_DTYPE_KEEPING = ("asarray", "array", "asanyarray", "atleast_1d", "ravel", "copy", "squeeze")


def no_dtype_inheriting_storage(ctx, model, prop, rule, prefixes, what):
    """a result array created with numpy.*_like(<caller's array>) without dtype= inherits the caller's dtype: when results are then
    stored into it element by element (or it is returned), integer input (python ints, integer arrays, lists of whole numbers)
    truncates every result.  A *_like value that is only handed to another call (an optimiser's start vector) is not storage."""
    from .core import Finding
    n = 0
    for m in model.modules.values():
        if not m.name.startswith(tuple(prefixes)):
            continue
        for fi in list(m.functions.values()) + [f for c in m.classes.values() for f in c.methods.values()]:
            derived = set(fi.params()) - {"self", "cls"}
            changed = True
            while changed:          # names bound to a dtype-preserving view of a parameter
                changed = False
                for st in _ast.walk(fi.node):
                    if isinstance(st, _ast.Assign) and len(st.targets) == 1 and isinstance(st.targets[0], _ast.Name):
                        v = st.value
                        src = v.args[0] if isinstance(v, _ast.Call) and isinstance(v.func, _ast.Attribute) and v.func.attr in _DTYPE_KEEPING and v.args else v
                        if isinstance(src, _ast.Name) and src.id in derived and st.targets[0].id not in derived:
                            derived.add(st.targets[0].id)
                            changed = True
            like_vars = {}
            for st in _ast.walk(fi.node):
                if isinstance(st, _ast.Assign) and isinstance(st.value, _ast.Call) and isinstance(st.value.func, _ast.Attribute) \
                        and st.value.func.attr in _LIKE and st.value.args and not any(k.arg == "dtype" for k in st.value.keywords):
                    base = st.value.args[0]
                    if isinstance(base, _ast.Name) and base.id in derived:
                        for t in st.targets:
                            if isinstance(t, _ast.Name):
                                like_vars[t.id] = st
                if isinstance(st, _ast.Return) and isinstance(st.value, _ast.Call) and isinstance(st.value.func, _ast.Attribute) \
                        and st.value.func.attr in _LIKE:
                    pass        # a constant array of the caller's dtype: nothing computed is stored in it
            for name, st in like_vars.items():
                n += 1
                stored = any(isinstance(x, (_ast.Assign, _ast.AugAssign)) and any(
                    isinstance(t, _ast.Subscript) and isinstance(t.value, _ast.Name) and t.value.id == name
                    for t in (x.targets if isinstance(x, _ast.Assign) else [x.target])) for x in _ast.walk(fi.node))
                stored = stored or any(isinstance(x, _ast.AugAssign) and isinstance(x.target, _ast.Name) and x.target.id == name for x in _ast.walk(fi.node))
                ctx.ob(not stored, Finding(f"{prop}.{rule}", fi.where, f"{fi.short}|{name}={_ast.unparse(st.value)[:40]}",
                                           f"line {st.lineno}: `{_ast.unparse(st)}` creates the result array with the dtype of the caller's input and "
                                           f"{what} are stored into it: for integer input (3, [1, 2, 3], integer arrays) every stored value is truncated to "
                                           "an integer, while the same numbers as floats give the right answer"),
                       nontrivial_key=("like", fi.qualname, name))
    ctx.analysed[f"{rule} *_like result arrays examined"] = n
    return n


def no_use_before_assignment(ctx, model, prop, rule, prefixes, exact_modules=False):
    """a local variable read at a point where no statement executed before it (on any path) can have bound it raises
    UnboundLocalError whenever that point is reached - the function then has no value at all for those inputs.  Conservative: only
    reads of a name that is a local of the function and is in nobody's "possibly assigned" set at that point are reported."""
    from .core import Finding
    n = 0

    class Flow:
        def __init__(self, fi):
            self.fi = fi
            self.locals = set()
            self.bad = []
            self.undefined = []
            self.known_globals = set()

        def targets(self, t):
            if isinstance(t, _ast.Name):
                yield t.id
            elif isinstance(t, (_ast.Tuple, _ast.List)):
                for e in t.elts:
                    yield from self.targets(e)
            elif isinstance(t, _ast.Starred):
                yield from self.targets(t.value)

        def loads(self, node, maybe):
            if node is None:
                return
            stack = [node]
            while stack:
                x = stack.pop()
                if isinstance(x, (_ast.Lambda, _ast.FunctionDef, _ast.AsyncFunctionDef, _ast.ListComp, _ast.SetComp, _ast.DictComp, _ast.GeneratorExp)):
                    continue        # own scope / evaluated later
                if isinstance(x, _ast.NamedExpr):
                    self.loads(x.value, maybe)
                    maybe.update(self.targets(x.target))
                    continue
                if isinstance(x, _ast.Name) and isinstance(x.ctx, _ast.Load) and x.id in self.locals and x.id not in maybe:
                    self.bad.append(x)
                elif isinstance(x, _ast.Name) and isinstance(x.ctx, _ast.Load) and x.id not in self.locals and x.id not in maybe \
                        and x.id not in self.known_globals:
                    self.undefined.append(x)      # neither local, parameter, enclosing / module-level name nor builtin: NameError
                stack.extend(_ast.iter_child_nodes(x))

        def block(self, stmts, maybe):
            for st in stmts:
                self.stmt(st, maybe)

        def stmt(self, st, maybe):
            if isinstance(st, (_ast.FunctionDef, _ast.AsyncFunctionDef, _ast.ClassDef)):
                maybe.add(st.name)
            elif isinstance(st, _ast.Assign):
                self.loads(st.value, maybe)
                for t in st.targets:
                    if not isinstance(t, _ast.Name):
                        self.loads(t, maybe)
                    maybe.update(self.targets(t))
            elif isinstance(st, _ast.AugAssign):
                self.loads(st.value, maybe)
                self.loads(_ast.Name(id=st.target.id, ctx=_ast.Load(), lineno=st.lineno, col_offset=st.col_offset), maybe) if isinstance(st.target, _ast.Name) else self.loads(st.target, maybe)
                maybe.update(self.targets(st.target))
            elif isinstance(st, _ast.AnnAssign):
                self.loads(st.value, maybe)
                if st.value is not None:
                    maybe.update(self.targets(st.target))
            elif isinstance(st, (_ast.For, _ast.AsyncFor)):
                self.loads(st.iter, maybe)
                maybe.update(self.targets(st.target))
                self.block(st.body, maybe)
                self.block(st.orelse, maybe)
            elif isinstance(st, _ast.While):
                self.loads(st.test, maybe)
                self.block(st.body, maybe)
                self.block(st.orelse, maybe)
            elif isinstance(st, _ast.If):
                self.loads(st.test, maybe)
                a, b = set(maybe), set(maybe)
                self.block(st.body, a)
                self.block(st.orelse, b)
                maybe.update(a | b)
            elif isinstance(st, (_ast.With, _ast.AsyncWith)):
                for it in st.items:
                    self.loads(it.context_expr, maybe)
                    if it.optional_vars is not None:
                        maybe.update(self.targets(it.optional_vars))
                self.block(st.body, maybe)
            elif isinstance(st, getattr(_ast, "Match", ())):
                self.loads(st.subject, maybe)
                after = set(maybe)
                for case in st.cases:
                    m_ = set(maybe)
                    for x in _ast.walk(case.pattern):       # capture patterns bind names
                        for fld in ("name", "rest"):
                            if isinstance(getattr(x, fld, None), str):
                                m_.add(getattr(x, fld))
                    self.loads(case.guard, m_)
                    self.block(case.body, m_)
                    after |= m_
                maybe.update(after)
            elif isinstance(st, (_ast.Try, getattr(_ast, "TryStar", _ast.Try))):
                self.block(st.body, maybe)
                for h in st.handlers:
                    if h.name:
                        maybe.add(h.name)
                    self.block(h.body, maybe)
                self.block(st.orelse, maybe)
                self.block(st.finalbody, maybe)
            elif isinstance(st, (_ast.Import, _ast.ImportFrom)):
                for a_ in st.names:
                    maybe.add((a_.asname or a_.name).split(".")[0])
            elif isinstance(st, _ast.Delete):
                pass
            elif isinstance(st, (_ast.Global, _ast.Nonlocal)):
                maybe.update(st.names)
            else:
                for ch in _ast.iter_child_nodes(st):
                    self.loads(ch, maybe)

    for m in model.modules.values():
        if (m.name not in prefixes) if exact_modules else (not m.name.startswith(tuple(prefixes))):
            continue
        for fi in list(m.functions.values()) + [f for c in m.classes.values() for f in c.methods.values()]:
            fnode = fi.node
            if not isinstance(fnode, (_ast.FunctionDef, _ast.AsyncFunctionDef)):
                continue
            n += 1
            fl = Flow(fi)
            args = fnode.args
            params = {a_.arg for a_ in args.posonlyargs + args.args + args.kwonlyargs} | ({args.vararg.arg} if args.vararg else set()) | \
                ({args.kwarg.arg} if args.kwarg else set())
            stored, declared, walrus_in_comp = set(), set(), set()

            def collect(node):
                for ch in _ast.iter_child_nodes(node):
                    if isinstance(ch, (_ast.FunctionDef, _ast.AsyncFunctionDef, _ast.ClassDef)):
                        stored.add(ch.name)
                        continue
                    if isinstance(ch, (_ast.ListComp, _ast.SetComp, _ast.DictComp, _ast.GeneratorExp)):
                        for w_ in _ast.walk(ch):      # `:=` inside a comprehension binds in the enclosing function
                            if isinstance(w_, _ast.NamedExpr) and isinstance(w_.target, _ast.Name):
                                stored.add(w_.target.id)
                                walrus_in_comp.add(w_.target.id)
                        continue
                    if isinstance(ch, _ast.Lambda):
                        continue
                    if type(ch).__name__ in ("MatchAs", "MatchStar", "MatchMapping"):
                        for fld in ("name", "rest"):
                            if isinstance(getattr(ch, fld, None), str):
                                stored.add(getattr(ch, fld))
                    if isinstance(ch, (_ast.Global, _ast.Nonlocal)):
                        declared.update(ch.names)
                    if isinstance(ch, _ast.Name) and isinstance(ch.ctx, _ast.Store):
                        stored.add(ch.id)
                    if isinstance(ch, _ast.ExceptHandler) and ch.name:
                        stored.add(ch.name)
                    if isinstance(ch, (_ast.Import, _ast.ImportFrom)):
                        for a_ in ch.names:
                            stored.add((a_.asname or a_.name).split(".")[0])
                    collect(ch)
            collect(fnode)
            fl.locals = stored - declared - params
            import builtins as _bi
            mod_names = set(m.imports) | set(m.functions) | set(m.classes) | set(m.assigns) | set(dir(_bi)) | {"__file__", "__name__", "__doc__", "__class__", "__package__", "__spec__", "__loader__", "__path__", "__builtins__", "__annotations__", "__dict__", "__module__", "__qualname__"}
            def top_level(stmts):       # names bound by module-level statements (also inside module-level if / try / for / with blocks)
                for st_ in stmts:
                    if isinstance(st_, (_ast.FunctionDef, _ast.AsyncFunctionDef, _ast.ClassDef)):
                        mod_names.add(st_.name)
                        continue
                    if isinstance(st_, (_ast.Import, _ast.ImportFrom)):
                        mod_names.update((a_.asname or a_.name).split(".")[0] for a_ in st_.names)
                    for x_ in _ast.walk(st_):
                        if isinstance(x_, _ast.Name) and isinstance(x_.ctx, _ast.Store):
                            mod_names.add(x_.id)
                        elif isinstance(x_, _ast.ExceptHandler) and x_.name:
                            mod_names.add(x_.name)
                        elif isinstance(x_, (_ast.Import, _ast.ImportFrom)):
                            mod_names.update((a_.asname or a_.name).split(".")[0] for a_ in x_.names)
            top_level(m.tree.body)
            star = any(isinstance(st_, _ast.ImportFrom) and any(a_.name == "*" for a_ in st_.names) for st_ in _ast.walk(m.tree))
            fl.known_globals = mod_names if not star else None
            if star:
                fl.known_globals = type("Everything", (), {"__contains__": lambda self_, k_: True})()
            for fn_ in _ast.walk(m.tree):       # a name made global by some function of the module and assigned there
                if isinstance(fn_, _ast.Global):
                    mod_names.update(fn_.names)
            fl.block(fnode.body, set(params) | walrus_in_comp)
            for x in fl.undefined[:3]:
                ctx.ob(False, Finding(f"{prop}.{rule}", fi.where, f"{fi.short}|undefined-name:{x.id}",
                                      f"line {x.lineno}: `{x.id}` is read in {fi.short} but is bound nowhere (not a local, a parameter, a module-level "
                                      "name or a builtin): the call raises NameError for every input that reaches this line"))
            for x in fl.bad[:3]:
                ctx.ob(False, Finding(f"{prop}.{rule}", fi.where, f"{fi.short}|unbound-local:{x.id}",
                                      f"line {x.lineno}: `{x.id}` is read in {fi.short} before any statement that could have assigned it: "
                                      "the call raises UnboundLocalError for every input that reaches this line"))
            if not fl.bad:
                ctx.ob(True, nontrivial_key=("def-before-use", fi.qualname))
    ctx.analysed[f"{rule} functions checked for use-before-assignment"] = n
    return n


def helper_closure(model, allowed):
    """who-may-call rules: a *private* module-level helper shares its callers' permission when every reference to its name anywhere in the
    package is a direct call from inside a permitted function (fixpoint).  A helper that is also called from elsewhere, handed around as a
    value, never called, or decorated (memoised, wrapped), gains nothing."""
    allowed = set(allowed)
    refs = {}           # helper qualname -> list of (referencing function qualname or None, is_direct_call)
    helpers = {}
    for m in model.modules.values():
        for f in m.functions.values():
            if f.name.startswith("_") and not f.name.startswith("__") and not f.node.decorator_list:
                helpers.setdefault(f.name, []).append(f)      # (a decorated helper - cached, wrapped - does not simply run when called)

    def scan(owner, tree):
        calls = set()
        for n in _ast.walk(tree):
            if isinstance(n, _ast.Call):
                fn = n.func
                nm = fn.id if isinstance(fn, _ast.Name) else fn.attr if isinstance(fn, _ast.Attribute) else None
                if nm in helpers:
                    calls.add(id(fn))
        for n in _ast.walk(tree):
            nm = n.id if isinstance(n, _ast.Name) else n.attr if isinstance(n, _ast.Attribute) else None
            if nm in helpers and not (isinstance(n, _ast.Name) and isinstance(n.ctx, _ast.Store)):
                for h in helpers[nm]:
                    refs.setdefault(h.qualname, []).append((owner, id(n) in calls))
    for m in model.modules.values():
        fnodes = []
        for f in list(m.functions.values()) + [f for c in m.classes.values() for f in list(c.methods.values()) + list(c.setters.values())]:
            scan(f.qualname, f.node)
            fnodes.append(f.node)
        inside = {id(x) for fn_ in fnodes for x in _ast.walk(fn_)}
        for st in m.tree.body:
            if isinstance(st, (_ast.FunctionDef, _ast.AsyncFunctionDef, _ast.ClassDef, _ast.Import, _ast.ImportFrom)):
                if isinstance(st, _ast.ClassDef):
                    for x in st.body:
                        if not isinstance(x, (_ast.FunctionDef, _ast.AsyncFunctionDef)):
                            scan(None, x)
                elif isinstance(st, (_ast.FunctionDef, _ast.AsyncFunctionDef)):
                    for d in st.decorator_list:
                        scan(None, d)
                continue
            scan(None, st)
    changed = True
    while changed:
        changed = False
        for q, rs in refs.items():
            own = [r for r in rs if r[0] != q]        # recursion does not count either way
            if q not in allowed and own and all(is_call and owner in allowed for owner, is_call in own):
                allowed.add(q)
                changed = True
    return allowed
