"""Abstract inputs and the physical oracle (DESIGN Appendix A.1) shared by C01, C02, C03, C11, C20.

The oracle is NOT derived from the converters: every representation has a unit written over SI /
CoolProp atoms; F_oracle(a -> b) = unit(a) / unit(b).  Because F is the quotient of a potential
function, identity / there-and-back / via-intermediate hold for the oracle by construction, so a
converter that equals the oracle on every single (from, to) pair inherits them.
"""
from __future__ import annotations

from fractions import Fraction

from . import libsum
from .absint import Arr, Frame, Interp, Obj
from .core import AnalysisError
from .num import Num
from .srcmodel import SrcModel

CM = "pygaps.units.converter_mode"
CU = "pygaps.units.converter_unit"

QT = "CoolProp.QT_INPUTS"


class Tables:
    """the repo's unit tables, folded to exact rationals by the interpreter"""

    def __init__(self, I: Interp):
        def tab(mod, name):
            v = I.global_value(mod, name)
            if not isinstance(v, dict):
                raise AnalysisError(f"anchor {mod}.{name} is not a dict literal any more")
            return v
        self.pressure = tab(CU, "_PRESSURE_UNITS")
        self.molar = tab(CU, "_MOLAR_UNITS")
        self.mass = tab(CU, "_MASS_UNITS")
        self.volume = tab(CU, "_VOLUME_UNITS")
        self.temperature = tab(CU, "_TEMPERATURE_UNITS")
        self.pressure_mode = tab(CM, "_PRESSURE_MODE")
        self.loading_mode = tab(CM, "_LOADING_MODE")
        self.material_mode = tab(CM, "_MATERIAL_MODE")
        for t in (self.pressure, self.molar, self.mass, self.volume, self.temperature):
            for k, v in t.items():
                if not (isinstance(k, str) and isinstance(v, Num) and v.is_const()):
                    raise AnalysisError("unit table entries must be str -> numeric literal")
        # structure expected by the oracle (which table serves which basis) is itself checked in C01
        self.all_units = sorted(set(self.pressure) | set(self.molar) | set(self.mass) | set(self.volume))

    def loading_table(self, basis):
        return {"mass": self.mass, "molar": self.molar, "volume_gas": self.volume,
                "volume_liquid": self.volume}.get(basis)

    def material_table(self, basis):
        return {"mass": self.mass, "molar": self.molar, "volume": self.volume}.get(basis)


def make_interp(model: SrcModel, backend_ok=True) -> Interp:
    I = Interp(model)
    libsum.install(I)
    libsum.coolprop_summaries(I, backend_ok=backend_ok)
    return I


# ---------------------------------------------------------------------------
# abstract objects

def mk_adsorbate(I: Interp, props=None):
    ci = I.model.cls("pygaps.core.adsorbate.Adsorbate")
    p = {"backend_name": "BK"}
    p.update(props or {})
    return Obj(cls=ci, label="adsorbate", attrs={
        "name": "ADS", "alias": ["ads"], "properties": p, "_state": None, "_backend_mode": None})


def mk_material(I: Interp, with_props=True):
    ci = I.model.cls("pygaps.core.material.Material")
    props = {"density": Num.atom("mat.density"), "molar_mass": Num.atom("mat.molar_mass")} if with_props else {}
    return Obj(cls=ci, label="material", attrs={"name": "MAT", "properties": props})


LABELS = ("pressure_mode", "pressure_unit", "loading_basis", "loading_unit",
          "material_basis", "material_unit", "temperature_unit")


def mk_point_isotherm(I: Interp, labels: dict, adsorbate=None, material=None, cache=None):
    ci = I.model.cls("pygaps.core.pointisotherm.PointIsotherm")
    frame = Frame({"pressure": Arr(Num.atom("P")), "loading": Arr(Num.atom("L")),
                   "branch": Arr(Num.atom("B")), "enthalpy": Arr(Num.atom("H"))}, label="data_raw")
    attrs = dict(labels)
    attrs.update({
        "_temperature": Num.atom("Tst"),
        "_adsorbate": adsorbate or mk_adsorbate(I),
        "_material": material or mk_material(I),
        "data_raw": frame,
        "pressure_key": "pressure",
        "loading_key": "loading",
        "l_interpolator": None,
        "p_interpolator": None,
        "properties": {},
    })
    if cache:
        attrs.update(cache)
    return Obj(cls=ci, label="iso", attrs=attrs)


def mk_model_isotherm(I: Interp, labels: dict, calculates="loading", branch="ads", adsorbate=None, material=None):
    ci = I.model.cls("pygaps.core.modelisotherm.ModelIsotherm")
    model = Obj(kind="ModelStub", label="model", attrs={
        "calculates": calculates, "name": "Stub",
        "pressure_range": [Num.atom("pr_lo"), Num.atom("pr_hi")],
        "loading_range": [Num.atom("lr_lo"), Num.atom("lr_hi")],
    })
    attrs = dict(labels)
    attrs.update({
        "_temperature": Num.atom("Tst"),
        "_adsorbate": adsorbate or mk_adsorbate(I),
        "_material": material or mk_material(I),
        "model": model,
        "branch": branch,
        "properties": {},
    })
    return Obj(cls=ci, label="iso", attrs=attrs)


def install_model_stub(I: Interp):
    from .absint import Opaque
    for nm in ("loading", "pressure", "spreading_pressure"):
        def f(I, recv, a, k, n, nm=nm):
            return I.apply_opaque(Opaque(f"model.{nm}", callable_=True), a, k, n)
        I.libmeth[("ModelStub", nm)] = f


def kelvin(tunit) -> Num:
    """isotherm temperature in K for stored value Tst in `tunit`"""
    if tunit == "K":
        return Num.atom("Tst")
    if tunit == "°C":
        return Num.atom("Tst") + Num.const(Fraction("273.15"))
    raise ValueError(tunit)


# ---------------------------------------------------------------------------
# oracle: physical unit of one stored number, over CoolProp / material atoms

def a_psat(I, T):
    return Num.atom(f"psat[{I.describe(T)}]")


def a_rhomolar(I, q, T):
    return Num.atom(f"rhomolar[Q{q},{I.describe(T)}]")


A_MM = Num.atom("CP.molar_mass")            # kg/mol
A_RHO_MAT = Num.atom("mat.density")         # g/cm3
A_MM_MAT = Num.atom("mat.molar_mass")       # g/mol


def normalise(I: Interp, num: Num) -> Num:
    """rewrite code-derived CoolProp atoms to the oracle's atoms:
       p@(QT,Q,T) -> psat[T]; rhomass@pos -> rhomolar@pos * molar_mass; rhomolar@(QT,q,T) -> rhomolar[Qq,T]"""
    import ast as _ast
    mapping = {}
    for a in num.atoms():
        if not a.startswith("CP.") or "@" not in a:
            continue
        name, pos = a[3:].split("@", 1)
        try:
            pos = _ast.literal_eval(pos)
        except Exception:
            continue
        if not (isinstance(pos, tuple) and len(pos) == 3 and pos[0] == QT):
            continue            # unpositioned / wrongly positioned read stays visible as a foreign atom
        q, T = pos[1], pos[2]
        if name == "p" and q in ("0", "1"):
            mapping[a] = Num.atom(f"psat[{T}]")
        elif name == "rhomolar" and q in ("0", "1"):
            mapping[a] = Num.atom(f"rhomolar[Q{q},{T}]")
        elif name == "rhomass" and q in ("0", "1"):
            mapping[a] = Num.atom(f"rhomolar[Q{q},{T}]") * A_MM
    return num.subs(mapping) if mapping else num


class Oracle:
    def __init__(self, I: Interp, tables: Tables):
        self.I = I
        self.t = tables

    # pressure: unit of the stored number in Pa
    def U_p(self, mode, unit, T):
        if mode == "absolute":
            return self.t.pressure[unit]
        if mode == "relative":
            return a_psat(self.I, T)
        if mode == "relative%":
            return a_psat(self.I, T) / Num.const(100)
        raise KeyError(mode)

    # adsorbate amount: unit in mol
    def U_l_phys(self, basis, unit, T):
        if basis == "molar":
            return self.t.molar[unit]
        if basis == "mass":                   # g -> mol : / (1000 * kg/mol)
            return self.t.mass[unit] / (Num.const(1000) * A_MM)
        if basis == "volume_gas":             # cm3 -> mol : * (mol/m3 * 1e-6)
            return self.t.volume[unit] * a_rhomolar(self.I, 1, T) * Num.const(Fraction(1, 10**6))
        if basis == "volume_liquid":
            return self.t.volume[unit] * a_rhomolar(self.I, 0, T) * Num.const(Fraction(1, 10**6))
        raise KeyError(basis)

    def U_l(self, basis, unit, T, mbasis=None, munit=None):
        if basis in ("fraction", "percent"):
            b = "volume_liquid" if mbasis == "volume" else mbasis
            u = self.U_l_phys(b, munit, T)
            return u if basis == "fraction" else u / Num.const(100)
        return self.U_l_phys(basis, unit, T)

    # material amount: unit in g of material
    def U_m(self, basis, unit):
        if basis == "mass":
            return self.t.mass[unit]
        if basis == "volume":
            return self.t.volume[unit] * A_RHO_MAT
        if basis == "molar":
            return self.t.molar[unit] * A_MM_MAT
        raise KeyError(basis)

    # whole loading column of an isotherm: adsorbate amount per material amount
    def U_L(self, lab, T):
        return self.U_l(lab["loading_basis"], lab["loading_unit"], T,
                        lab["material_basis"], lab["material_unit"]) / self.U_m(lab["material_basis"], lab["material_unit"])

    def U_P(self, lab, T):
        return self.U_p(lab["pressure_mode"], lab["pressure_unit"], T)
