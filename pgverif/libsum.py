"""A.4 library summaries for the abstract interpreter: the only knowledge about third-party objects.

One line per member; an unknown member is an analysis error (raised by the interpreter).
"""
from __future__ import annotations

from .absint import Arr, ExcVal, Frame, Interp, Mask, Obj, Opaque, Raised, UnknownBool, _BUILTIN_EXC
from .num import Num


def np_transpose(I, a, k, n):
    """numpy.transpose of a (small, concrete-shaped) list of rows"""
    v = a[0]
    Vec_ = globals().get("Vec")
    isvec = lambda x: Vec_ is not None and isinstance(x, Vec_)
    rows = [list(r.items) if isvec(r) else list(r) if isinstance(r, (list, tuple)) else None for r in (v.items if isvec(v) else v)] \
        if (isinstance(v, (list, tuple)) or isvec(v)) else None
    if rows is None or any(r is None for r in rows) or len({len(r) for r in rows}) > 1:
        I.err(n, f"numpy.transpose of {I.describe(v)}")
    return [list(c) for c in zip(*rows)]


def install(I: Interp):
    E, M, A = I.ext, I.libmeth, I.libattr

    # ---- logging: no effect ------------------------------------------------
    for lvl in ("info", "warning", "error", "debug", "critical"):
        E[f"pygaps.logger.{lvl}"] = lambda I, a, k, n: None
    M[("Opaque:logger", "info")] = lambda I, r, a, k, n: None
    M[("Opaque:logger", "warning")] = lambda I, r, a, k, n: None
    M[("Opaque:logger", "error")] = lambda I, r, a, k, n: None
    M[("Opaque:logger", "debug")] = lambda I, r, a, k, n: None
    E["logging.getLogger"] = lambda I, a, k, n: Opaque("logger")
    E["textwrap.dedent"] = lambda I, a, k, n: Opaque("str")
    E["warnings.warn"] = lambda I, a, k, n: None

    # ---- numpy -----------------------------------------------------------------
    def asarray(I, a, k, n):
        v = a[0]
        if isinstance(v, Arr):
            return Arr(v.num, v.sel, "array", v.index)
        if isinstance(v, (Num, list, tuple)):
            return v
        if v is None:
            return Opaque("array(None)")
        I.err(n, f"numpy.asarray of {v!r}")
    E["numpy.asarray"] = asarray
    E["numpy.array"] = asarray
    E["numpy.transpose"] = np_transpose
    E["numpy.inf"] = None  # placeholder, attribute handled below

    def linspace(I, a, k, n):
        return Arr(Num.atom(f"linspace({I.describe(a[0])},{I.describe(a[1])},{I.describe(a[2]) if len(a) > 2 else ''})"),
                   (), "array", "range")
    E["numpy.linspace"] = linspace

    def np_unary(name):
        def f(I, a, k, n):
            v = a[0]
            if type(v).__name__ == "Vec":
                return type(v)([f(I, [x], k, n) for x in v.items])
            try:
                import sympy as _sp
                if isinstance(v, _sp.Basic):
                    return {"log": _sp.log, "exp": _sp.exp, "sqrt": _sp.sqrt, "abs": _sp.Abs, "log10": lambda x: _sp.log(x, 10), "arcsin": _sp.asin, "asin": _sp.asin}[name](v)
            except ImportError:
                pass
            if isinstance(v, Arr):
                return v.with_num(Num.atom(f"{name}({v.num.canon()})"))
            return Num.atom(f"{name}({I.describe(v)})")
        return f
    for fn in ("log", "exp", "sqrt", "abs", "log10", "arcsin", "asin"):
        E[f"numpy.{fn}"] = np_unary(fn)

    # numpy.square(x) / numpy.power(x, 2) are x * x: expressed through the interpreter's own arithmetic so that every domain agrees
    E["numpy.square"] = lambda I, a, k, n: I.binop(__import__("ast").Mult(), a[0], a[0], n)
    E["numpy.multiply"] = lambda I, a, k, n: I.binop(__import__("ast").Mult(), a[0], a[1], n)
    E["numpy.subtract"] = lambda I, a, k, n: I.binop(__import__("ast").Sub(), a[0], a[1], n)
    E["numpy.add"] = lambda I, a, k, n: I.binop(__import__("ast").Add(), a[0], a[1], n)
    E["numpy.divide"] = lambda I, a, k, n: I.binop(__import__("ast").Div(), a[0], a[1], n)
    E["numpy.true_divide"] = E["numpy.divide"]

    def np_reduce(name):
        def f(I, a, k, n):
            return Num.atom(f"{name}({I.describe(a[0])})")
        return f
    for fn in ("sum", "max", "min", "mean", "nanmax", "nanmin"):
        E[f"numpy.{fn}"] = np_reduce(fn)
    def array_equal(I, a, k, n):
        e = I.py_eq(a[0], a[1])
        if e is None:
            return UnknownBool(f"array_equal({I.describe(a[0])},{I.describe(a[1])})")
        return e
    E["numpy.array_equal"] = array_equal
    E["numpy.isnan"] = lambda I, a, k, n: UnknownBool(f"isnan({I.describe(a[0])})")

    # ---- pandas Series / ndarray (Arr) ----------------------------------------
    A[("Arr", "values")] = lambda I, v, n: Arr(v.num, v.sel, "array", v.index)
    A[("Arr", "empty")] = lambda I, v, n: UnknownBool(f"empty({I.describe(v)})")
    A[("Arr", "loc")] = lambda I, v, n: Obj(kind="ArrLoc", attrs={"arr": v})
    A[("Arr", "index")] = lambda I, v, n: Opaque("index")
    A[("Arr", "size")] = lambda I, v, n: Num.atom(f"len({I.describe(v)})")

    def arr_between(I, v, a, k, n):
        lo, hi = a[0], a[1]
        return Mask(f"between({I.describe(lo)},{I.describe(hi)})on({v.num.canon()})",
                    meta=("between", I.describe(lo), I.describe(hi), v.num))
    M[("Arr", "between")] = arr_between
    M[("Arr", "max")] = lambda I, v, a, k, n: Num.atom(f"max({I.describe(v)})")
    M[("Arr", "min")] = lambda I, v, a, k, n: Num.atom(f"min({I.describe(v)})")
    M[("Arr", "copy")] = lambda I, v, a, k, n: v
    M[("Arr", "to_numpy")] = lambda I, v, a, k, n: Arr(v.num, v.sel, "array", v.index)
    M[("Arr", "tolist")] = lambda I, v, a, k, n: Arr(v.num, v.sel, "list", v.index)

    def arr_getitem(I, v, a, k, n):
        idx = a[0]
        if isinstance(idx, Mask):
            return Arr(v.num, v.sel + (idx.tag,), v.kind, v.index)
        if isinstance(idx, Num):
            return Num.atom(f"{v.num.canon()}[{idx.canon()}]{'@' + '/'.join(map(str, v.sel)) if v.sel else ''}")
        if isinstance(idx, slice) or (isinstance(idx, tuple) and idx and idx[0] == "slice"):
            return Arr(v.num, v.sel + (f"slice{idx}",), v.kind, v.index)
        I.err(n, f"Arr[{idx!r}]")
    M[("Arr", "__getitem__")] = arr_getitem

    def arrloc_getitem(I, v, a, k, n):
        arr = v.attrs["arr"]
        idx = a[0]
        if isinstance(idx, Mask):
            return Arr(arr.num, arr.sel + (idx.tag,), arr.kind, arr.index)
        I.err(n, f"Series.loc[{idx!r}]")
    M[("ArrLoc", "__getitem__")] = arrloc_getitem

    # ---- pandas DataFrame (Frame) -------------------------------------------------
    A[("Frame", "loc")] = lambda I, v, n: Obj(kind="FrameLoc", attrs={"frame": v})
    A[("Frame", "empty")] = lambda I, v, n: UnknownBool(f"empty({v.label}@{'/'.join(map(str, v.sel))})")
    A[("Frame", "columns")] = lambda I, v, n: list(v.cols.keys())
    A[("Frame", "index")] = lambda I, v, n: Opaque("index")

    def frame_getitem(I, v, a, k, n):
        key = a[0]
        if isinstance(key, str):
            if key not in v.cols:
                raise I.fault("KeyError", n, key)
            c = v.cols[key]
            return Arr(c.num, v.sel + c.sel, "series", c.index)
        if isinstance(key, Mask):
            return Frame(v.cols, v.sel + (key.desc,), v.label)
        I.err(n, f"DataFrame[{key!r}]")
    M[("Frame", "__getitem__")] = frame_getitem

    def frame_setitem(I, v, a, k, n):
        key, val = a
        if not isinstance(key, str):
            I.err(n, f"DataFrame[{key!r}] = ...")
        if v.sel and not all(str(x).startswith(("sort_values", "sort_index", "sample")) for x in v.sel):
            I.err(n, "column store on a selected (copied) frame")
        if isinstance(val, Arr):
            if val.sel:
                I.err(n, "stored column carries a row selection")
            v.cols[key] = Arr(val.num, (), "series", val.index)
        elif isinstance(val, (Num,)):
            v.cols[key] = Arr(val, (), "series", "orig")
        else:
            v.cols[key] = Arr(Num.atom(f"col({I.describe(val)})"), (), "series", "orig")
        I.writes.append((v.label, key, v.cols[key], getattr(n, "lineno", None)))
        return None
    M[("Frame", "__setitem__")] = frame_setitem

    def frameloc_getitem(I, v, a, k, n):
        fr = v.attrs["frame"]
        idx = a[0]
        if isinstance(idx, Mask):
            return Frame(fr.cols, fr.sel + (idx.desc,), fr.label)
        if isinstance(idx, tuple) and len(idx) == 2:
            rows, col = idx
            base = fr
            if isinstance(rows, Mask):
                base = Frame(fr.cols, fr.sel + (rows.desc,), fr.label)
            elif not (isinstance(rows, slice) and rows == slice(None, None, None)):
                I.err(n, f"DataFrame.loc[{rows!r}, ...]")
            if isinstance(col, str):
                return frame_getitem(I, base, [col], {}, n)
        I.err(n, f"DataFrame.loc[{idx!r}]")
    M[("FrameLoc", "__getitem__")] = frameloc_getitem
    M[("Frame", "copy")] = lambda I, v, a, k, n: Frame(v.cols, v.sel, v.label + "_copy")
    # re-ordering operations keep the columns but not the row order: recorded as a selection-like marker
    for _nm in ("sort_values", "sort_index", "sample"):
        M[("Frame", _nm)] = (lambda _nm: lambda I, v, a, k, n: Frame(
            {c: Arr(x.num, x.sel + (f"{_nm}({I.describe(a[0]) if a else ''})",), x.kind, x.index) for c, x in v.cols.items()},
            v.sel + (f"{_nm}({I.describe(a[0]) if a else ''})",), v.label))(_nm)
    M[("Frame", "reset_index")] = lambda I, v, a, k, n: Frame(v.cols, v.sel, v.label)

    def frame_assign(I, v, a, k, n):
        f2 = Frame(v.cols, v.sel, v.label if v.label.endswith("_copy") else v.label + "_copy")
        for key, val in k.items():
            frame_setitem(I, f2, [key, val], {}, n)
        return f2
    M[("Frame", "assign")] = frame_assign
    for _nm in ("all", "any"):
        M[("Mask", _nm)] = (lambda _nm: lambda I, v, a, k, n: UnknownBool(f"{_nm}({v.desc})"))(_nm)


def coolprop_summaries(I: Interp, backend_ok=True):
    """CoolProp: AbstractState positioned by update(INPUTS, a, b); property reads return SI atoms that
    name the positioning, so a read without (or with the wrong) update is visible in the result."""
    E, M = I.ext, I.libmeth

    def abstract_state(I, a, k, n):
        if not backend_ok:
            raise Raised(ExcVal(["ValueError", "Exception", "BaseException"], node=n, fault=False, msg="backend fails"))
        return Obj(kind="CPState", attrs={"pos": None}, label="cpstate")
    E["pygaps.utilities.coolprop_utilities.CP.AbstractState"] = abstract_state
    E["CoolProp.AbstractState"] = abstract_state

    def upd(I, st, a, k, n):
        if not backend_ok:
            raise Raised(ExcVal(["ValueError", "Exception", "BaseException"], node=n, msg="backend fails"))
        st.attrs["pos"] = tuple(I.describe(x) for x in a)
        I.writes.append((st.label, "pos", st.attrs["pos"], getattr(n, "lineno", None)))
        return None
    M[("CPState", "update")] = upd

    def reader(name, needs_pos):
        def f(I, st, a, k, n):
            if not backend_ok:
                raise Raised(ExcVal(["ValueError", "Exception", "BaseException"], node=n, msg="backend fails"))
            pos = st.attrs.get("pos")
            if needs_pos:
                return Num.atom(f"CP.{name}@{pos}")
            return Num.atom(f"CP.{name}")
        return f
    for nm in ("p", "rhomass", "rhomolar", "hmolar", "surface_tension", "T", "Q"):
        M[("CPState", nm)] = reader(nm, True)
    for nm in ("molar_mass", "Ttriple", "T_critical", "p_critical", "Tmin", "Tmax"):
        M[("CPState", nm)] = reader(nm, False)

    def propssi(I, a, k, n):
        if not backend_ok:
            raise Raised(ExcVal(["ValueError", "Exception", "BaseException"], node=n, msg="backend fails"))
        return Num.atom(f"CP.PropsSI({','.join(I.describe(x) for x in a)})")
    for pre in ("pygaps.utilities.coolprop_utilities.CP", "CoolProp"):
        E[f"{pre}.CoolProp.PropsSI"] = propssi
        E[f"{pre}.PropsSI"] = propssi


# ---------------------------------------------------------------------------------------------------------
# small symbolic vectors (numpy arrays of fixed small length whose elements are symbolic numbers)

class Vec:
    def __init__(self, items, tag=None):
        self.items = list(items)
        self.tag = tag

    def __repr__(self):
        return f"<Vec {[x.canon() if isinstance(x, Num) else x for x in self.items]}>"

    def __deepcopy__(self, memo):
        return Vec(self.items, self.tag)


def install_vec(I: Interp):
    """numpy summaries for Vec; comparisons between symbolic elements fork the path (finite set of orderings)"""
    import ast as _ast
    E, M, A = I.ext, I.libmeth, I.libattr

    def vec_of(v):
        return v if isinstance(v, Vec) else None
    E["numpy.asarray"] = (lambda old: lambda I, a, k, n: a[0] if isinstance(a[0], Vec) else Vec(a[0]) if isinstance(a[0], (list, tuple)) and a[0] and all(isinstance(x, Num) or type(x).__module__.startswith("sympy") for x in a[0]) else old(I, a, k, n))(E["numpy.asarray"])
    E["numpy.array"] = E["numpy.asarray"]
    # numpy.atleast_1d: arrays and sequences as numpy.asarray, a scalar becomes a one-element vector
    E["numpy.atleast_1d"] = lambda I, a, k, n: E["numpy.asarray"](I, a, k, n) if isinstance(a[0], (Vec, list, tuple)) or type(a[0]).__name__ in ("Arr", "ndarray") \
        else Vec([a[0]]) if isinstance(a[0], Num) or type(a[0]).__module__.startswith("sympy") else E["numpy.asarray"](I, a, k, n)
    A[("Vec", "size")] = lambda I, v, n: Num.const(len(v.items))
    A[("Vec", "shape")] = lambda I, v, n: (Num.const(len(v.items)),)
    M[("Vec", "__iter__")] = lambda I, v, a, k, n: list(v.items)
    M[("Vec", "max")] = lambda I, v, a, k, n: Num.atom(f"max({I.describe(v)})")
    M[("Vec", "min")] = lambda I, v, a, k, n: Num.atom(f"min({I.describe(v)})")
    M[("Vec", "any")] = lambda I, v, a, k, n: any(I.truth(x, n) for x in v.items)
    M[("Vec", "all")] = lambda I, v, a, k, n: all(I.truth(x, n) for x in v.items)
    M[("Vec", "item")] = lambda I, v, a, k, n: v.items[0]

    def _vsum(I, v, n):
        acc = v.items[0]
        for x in v.items[1:]:
            acc = I.binop(_ast.Add(), acc, x, n)
        return acc
    M[("Vec", "sum")] = lambda I, v, a, k, n: _vsum(I, v, n)
    M[("Vec", "mean")] = lambda I, v, a, k, n: I.binop(_ast.Div(), _vsum(I, v, n), zero(I) + len(v.items) if False else (Num.const(len(v.items)) if not getattr(I, "sympy_mode", False) else __import__("sympy").Integer(len(v.items))), n)

    def _isclose(I, a, k, n):
        """tolerance comparison: an independent unknown per element pair (the tolerance decides, not the ordering)"""
        from .absint import UnknownBool
        x, y = a[0], a[1]
        nx = len(x.items) if isinstance(x, Vec) else len(y.items) if isinstance(y, Vec) else None
        xs = x.items if isinstance(x, Vec) else [x] * (nx or 1)
        ys = y.items if isinstance(y, Vec) else [y] * (nx or 1)
        tol = ",".join(f"{kk}={I.describe(vv)}" for kk, vv in sorted(k.items()))
        out = [UnknownBool(f"isclose({I.describe(u)},{I.describe(w)}{';' + tol if tol else ''})") for u, w in zip(xs, ys)]
        return Vec(out) if nx is not None else out[0]
    E["numpy.isclose"] = _isclose
    E["math.isclose"] = _isclose

    def _clip(I, a, k, n):
        import sympy as sp
        x = a[0]
        lo = a[1] if len(a) > 1 else k.get("a_min", k.get("min"))
        hi = a[2] if len(a) > 2 else k.get("a_max", k.get("max"))
        def one(v):
            from .absint import num_to_sym
            r = num_to_sym(v) if getattr(I, "sympy_mode", False) else v
            if getattr(I, "sympy_mode", False):
                if lo is not None:
                    r = sp.Max(num_to_sym(lo), r)
                if hi is not None:
                    r = sp.Min(num_to_sym(hi), r)
                return r
            return Num.atom(f"clip({I.describe(v)},{I.describe(lo)},{I.describe(hi)})")
        return Vec([one(v) for v in x.items]) if isinstance(x, Vec) else one(x)
    E["numpy.clip"] = _clip
    M[("Vec", "clip")] = lambda I, v, a, k, n: _clip(I, [v] + list(a), k, n)
    M[("Vec", "tolist")] = lambda I, v, a, k, n: list(v.items)

    def vgetitem(I, v, a, k, n):
        idx = a[0]
        if isinstance(idx, slice):
            return Vec(v.items[idx])
        try:
            import sympy as _sp
            if isinstance(idx, _sp.Basic) and idx.is_Integer:
                idx = Num.const(int(idx))
        except ImportError:
            pass
        if isinstance(idx, Num) and idx.is_const():
            i = int(idx.value())
            if not -len(v.items) <= i < len(v.items):
                raise I.fault("IndexError", n, "index out of bounds")
            return v.items[i]
        if isinstance(idx, tuple) and idx and idx[0] == "slice":
            return Arr(Num.atom(f"{I.describe(v)}[{I.describe(idx[1])}:{I.describe(idx[2])}]"), (("slice", I.describe(idx[1]), I.describe(idx[2])),), "array")
        if isinstance(idx, Num):
            return Num.atom(f"{I.describe(v)}[{idx.canon()}]")
        if isinstance(idx, Vec) and idx.items and all(isinstance(j, (bool, UnknownBool)) or getattr(j, "is_Boolean", False) or getattr(j, "is_Relational", False)
                                                      for j in idx.items):
            # boolean mask: one element per element of the vector, each decided (forked) on its own
            if len(idx.items) != len(v.items):
                raise I.fault("IndexError", n, "boolean index did not match indexed array")
            return Vec([x for x, j in zip(v.items, idx.items) if I.truth(j, n)])
        if isinstance(idx, Vec):
            return Vec([vgetitem(I, v, [j], {}, n) for j in idx.items])
        if isinstance(idx, tuple) and len(idx) == 2 and all(isinstance(r, Vec) for r in v.items):
            # two-dimensional indexing of a vector of rows: [rows, column]
            rows = vgetitem(I, v, [idx[0]], {}, n)
            rows = rows if isinstance(rows, Vec) and all(isinstance(r, Vec) for r in rows.items) else Vec([rows])
            picked = [vgetitem(I, r, [idx[1]], {}, n) for r in rows.items]
            return Vec(picked) if isinstance(idx[0], slice) else picked[0]
        I.err(n, f"Vec[{idx!r}]")
    M[("Vec", "__getitem__")] = vgetitem

    def vsetitem(I, v, a, k, n):
        idx, val = a
        i = I.to_py(idx, n)
        if not isinstance(i, int) or not -len(v.items) <= i < len(v.items):
            raise I.fault("IndexError", n, "index out of bounds")
        v.items[i] = val
        return None
    M[("Vec", "__setitem__")] = vsetitem
    zero = lambda I: (__import__("sympy").Integer(0) if getattr(I, "sympy_mode", False) else Num.const(0))
    E["numpy.transpose"] = np_transpose
    E["numpy.ndenumerate"] = lambda I, a, k, n: ([((Num.const(i),), v) for i, v in enumerate(a[0].items)] if isinstance(a[0], Vec)
                                                  else [((), a[0])])
    E["numpy.zeros_like"] = lambda I, a, k, n: Vec([zero(I) for _ in a[0].items]) if isinstance(a[0], Vec) else zero(I)
    E["numpy.zeros"] = lambda I, a, k, n: Vec([zero(I) for _ in range(I.to_py(a[0], n))])

    def cumsum(I, a, k, n):
        import ast as _a
        out, acc = [], None
        for x in a[0].items:
            acc = x if acc is None else I.binop(_a.Add(), acc, x, n)
            out.append(acc)
        return Vec(out)
    E["numpy.cumsum"] = cumsum

    def unique(I, a, k, n):
        """numpy.unique on a non-decreasing symbolic vector: adjacent equalities fork (assumption: input is sorted)"""
        import ast as _a
        v = a[0]
        if not hasattr(v, "items") or isinstance(v, dict):
            # a plain sequence of values whose order is not known: the result is SORTED - its i-th element is an order statistic of the
            # input, not the i-th input (duplicates are assumed absent: the shortest result is the interesting one for callers that pair it
            # with another sequence by position)
            xs = list(I.iterate(v, n))
            try:
                conc = sorted({I.to_py(x, n) for x in xs})
                return Vec([Num.const(c) if not getattr(I, "sympy_mode", False) else __import__("sympy").sympify(c) for c in conc])
            except Exception:
                pass
            desc = ",".join(I.describe(x) for x in xs)
            if getattr(I, "sympy_mode", False):
                _sp = __import__("sympy")
                return Vec([_sp.Symbol(f"sorted{i}({desc})", positive=True) for i in range(len(xs))])
            return Vec([Num.atom(f"sorted{i}({desc})") for i in range(len(xs))])
        vals, idx = [], []
        for i, x in enumerate(v.items):
            if vals and I.truth(I.compare(_a.Eq(), vals[-1], x, n), n, label=f"dup[{i}]"):
                continue
            vals.append(x)
            idx.append(Num.const(i) if not getattr(I, "sympy_mode", False) else __import__("sympy").Integer(i))
        if k.get("return_index"):
            return (Vec(vals), Vec(idx))
        return Vec(vals)
    E["numpy.unique"] = unique

    def bsum(I, a, k, n):
        import ast as _a
        from .absint import UnknownBool
        items = I.iterate(a[0], n)
        acc = a[1] if len(a) > 1 else zero(I)
        for x in items:
            if isinstance(x, (bool, UnknownBool)):
                # a sum over comparison results counts the true ones: each undecided comparison forks
                x = (zero(I) + 1) if I.truth(x, n) else zero(I)
            acc = I.binop(_a.Add(), acc, x, n)
        return acc
    E["builtins.sum"] = bsum
    E["numpy.count_nonzero"] = bsum
    E["numpy.sum"] = lambda I, a, k, n: bsum(I, a, k, n) if isinstance(a[0], Vec) else Num.atom(f"sum({I.describe(a[0])})")
    I.vec_len = lambda v: Num.const(len(v.items))

    def npdiff(I, a, k, n):
        v = a[0]
        return Vec([I.binop(_ast.Sub(), v.items[i + 1], v.items[i], n) for i in range(len(v.items) - 1)])
    E["numpy.diff"] = npdiff
    E["numpy.add"] = lambda I, a, k, n: I.binop(_ast.Add(), a[0], a[1], n)
    E["numpy.subtract"] = lambda I, a, k, n: I.binop(_ast.Sub(), a[0], a[1], n)
    E["numpy.multiply"] = lambda I, a, k, n: I.binop(_ast.Mult(), a[0], a[1], n)
    E["numpy.divide"] = lambda I, a, k, n: I.binop(_ast.Div(), a[0], a[1], n)

    def _elementwise(name, fsym):
        def f(I, a, k, n):
            import sympy as sp
            def one(x):
                if getattr(I, "sympy_mode", False):
                    from .absint import num_to_sym
                    return fsym(sp)(num_to_sym(x))
                return Num.atom(f"{name}({I.describe(x)})")
            v = a[0]
            return Vec([one(x) for x in v.items]) if isinstance(v, Vec) else one(v)
        return f
    E["numpy.sign"] = _elementwise("sign", lambda sp: sp.sign)
    E["numpy.abs"] = _elementwise("abs", lambda sp: sp.Abs)
    E["numpy.absolute"] = E["numpy.abs"]

    def flatnonzero(I, a, k, n):
        v = a[0]
        items = v.items if isinstance(v, Vec) else list(v) if isinstance(v, (list, tuple)) else [v]
        return Vec([Num.const(i) for i, x in enumerate(items) if I.truth(x, n, label=f"nonzero[{i}]")])
    E["numpy.flatnonzero"] = flatnonzero
    E["numpy.nonzero"] = lambda I, a, k, n: (flatnonzero(I, a, k, n),)
    def argext(name):
        def f(I, a, k, n):
            v = a[0]
            if isinstance(v, Vec):      # which element is extreme is data dependent: every index is possible
                i = I.choose(len(v.items), f"{name}({I.describe(v)})")
                return Num.const(i) if not getattr(I, "sympy_mode", False) else __import__("sympy").Integer(i)
            return Num.atom(f"{name}({I.describe(v)})")
        return f
    E["numpy.argmax"] = argext("argmax")
    E["numpy.argmin"] = argext("argmin")
    E["numpy.searchsorted"] = lambda I, a, k, n: Num.atom(f"searchsorted({I.describe(a[0])},{I.describe(a[1])})")
    E["numpy.isclose"] = lambda I, a, k, n: UnknownBool(f"isclose({I.describe(a[0])},{I.describe(a[1])})")
    def _linregress(I, a, k, n):
        from .absint import Obj
        vals = tuple(Num.atom(f"linregress.{nm}({I.describe(a[0])},{I.describe(a[1])})") for nm in ("slope", "intercept", "corr", "p", "stderr"))
        if getattr(I, "sympy_mode", False):
            from .absint import num_to_sym
            vals = tuple(num_to_sym(v) for v in vals)
        # scipy's result unpacks like a 5-tuple and has named fields
        return Obj(kind="LinregressResult", label="linregress", attrs=dict(zip(("slope", "intercept", "rvalue", "pvalue", "stderr"), vals), _vals=vals))
    E["scipy.stats.linregress"] = _linregress
    M[("LinregressResult", "__iter__")] = lambda I, v, a, k, n: list(v.attrs["_vals"])
    M[("LinregressResult", "__getitem__")] = lambda I, v, a, k, n: v.attrs["_vals"][a[0]] if isinstance(a[0], slice) else v.attrs["_vals"][int(I.to_py(a[0], n))]
    I.vec_binop = True


def vec_binop(I, op, a, b, node):
    """elementwise arithmetic / comparison of Vec with Vec or scalar"""
    import ast as _ast
    va, vb = isinstance(a, Vec), isinstance(b, Vec)
    n = len(a.items) if va else len(b.items)
    if va and vb and len(a.items) != len(b.items):
        raise I.fault("ValueError", node, "operands could not be broadcast together")
    xs = a.items if va else [a] * n
    ys = b.items if vb else [b] * n
    return Vec([I.binop(op, x, y, node) for x, y in zip(xs, ys)])
